#!/bin/sh
# tools/try_mutant.sh <patch.diff> <ID> [<ID>...] : apply a seeded change to /repo, run the quick checks, revert.
P="$1"; shift
cd /repo || exit 2
git diff --quiet || { echo "/repo has local modifications"; exit 2; }
git apply "$P" || { echo "patch does not apply"; exit 2; }
cd /verif
for id in "$@"; do
  ./check "$id" --tier quick > /tmp/cijverif.mut.$$ 2>&1; rc=$?
  echo "== $id rc=$rc : $(grep -c '^VIOLATION' /tmp/cijverif.mut.$$) violation lines; $(grep '^  ->' /tmp/cijverif.mut.$$ | head -2 | cut -c1-220)"
  tail -1 /tmp/cijverif.mut.$$
done
rm -f /tmp/cijverif.mut.$$
cd /repo && git checkout -- . && git clean -fdq examples cij tests
