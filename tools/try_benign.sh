#!/bin/sh
# tools/try_benign.sh <bN> <ID> [<ID>...] : apply a property-preserving refactor (benign/<bN>/patch.diff) in a scratch worktree of
# /repo and run the quick checks against it (CIJ_REPO); any VIOLATION is a false alarm of the machinery.
B="$1"; shift
W=/tmp/cijverif.benign.$$
git -C /repo worktree add -q --detach $W HEAD || exit 2
cd $W && git apply /verif/benign/$B/patch.diff || { echo "patch does not apply"; cd /; git -C /repo worktree remove --force $W; rm -rf /tmp/cijverif.scratch_out/$(basename $W); exit 2; }
cd /verif
for id in "$@"; do
  PYTHONPATH=$W CIJ_REPO=$W ./check "$id" --tier quick > /tmp/cijverif.ben.$$ 2>&1; rc=$?
  echo "== $B $id rc=$rc : $(grep -c '^VIOLATION' /tmp/cijverif.ben.$$) violation lines; $(grep '^  ->' /tmp/cijverif.ben.$$ | head -1 | cut -c1-200)"
done
rm -f /tmp/cijverif.ben.$$
cd /; git -C /repo worktree remove --force $W; rm -rf /tmp/cijverif.scratch_out/$(basename $W)
