#!/bin/sh
# tools/regress_seeded.sh [dir...] : run every seeded change's property check against it, in a scratch worktree of /repo
# (CIJ_REPO), leaving /repo untouched.  Prints one line per change; "MISSED" if the check exits 0.
W=/tmp/cijverif.regress.$$
git -C /repo worktree add -q --detach $W HEAD || exit 2
[ $# -eq 0 ] && set -- /verif/seeded/*/
for d in "$@"; do
  d=${d%/}; name=$(basename $d); id=${name%%-*}
  cd $W && git checkout -q -- . && git apply $d/patch.diff 2>/dev/null || { echo "$name: PATCH DOES NOT APPLY"; continue; }
  cd /verif
  PYTHONPATH=$W CIJ_REPO=$W ./check $id --tier quick > /tmp/cijverif.reg.$$ 2>&1; rc=$?
  case $rc in
    1) echo "$name: caught ($(grep -c '^VIOLATION' /tmp/cijverif.reg.$$) lines) $(grep '^  ->' /tmp/cijverif.reg.$$ | head -1 | cut -c1-120)";;
    0) echo "$name: MISSED";;
    *) echo "$name: MACHINERY rc=$rc $(tail -1 /tmp/cijverif.reg.$$ | cut -c1-160)";;
  esac
done
rm -f /tmp/cijverif.reg.$$
cd /; git -C /repo worktree remove --force $W
