#!/bin/sh
# tools/regress_seeded.sh [-j N] [dir...] : run every seeded change's property check against it, each in its own scratch worktree
# of /repo (CIJ_REPO), leaving /repo untouched.  One line per change; "MISSED" if the check exits 0.  N jobs in parallel (default 4).
# CHECK_ID=<ID> in the environment runs that property's check instead of the change's own (or the one its meta.json names as "check").
J=4
if [ "$1" = "-j" ]; then J=$2; shift 2; fi
[ $# -eq 0 ] && set -- /verif/seeded/*/
one() {
  d=${1%/}; name=$(basename $d); id=${name%%-*}
  # a change filed under one property whose breakage is another property's clause names that check in its meta.json ("check")
  own=$(/venv/bin/python -c "import json,sys; print(json.load(open(sys.argv[1])).get('check',''))" $d/meta.json 2>/dev/null)
  [ -n "$own" ] && id=$own
  id=${CHECK_ID:-$id}
  W=/tmp/cijverif.regress.$$.$name
  git -C /repo worktree add -q --detach $W HEAD 2>/dev/null || { echo "$name: cannot create worktree"; return; }
  if (cd $W && git apply $d/patch.diff 2>/dev/null); then
    out=/tmp/cijverif.reg.$$.$name
    (cd /verif && PYTHONPATH=$W CIJ_REPO=$W ./check $id --tier quick > $out 2>&1); rc=$?
    case $rc in
      1) echo "$name: [$id] caught ($(grep -c '^VIOLATION' $out) lines) $(grep '^  ->' $out | head -1 | cut -c1-120)";;
      0) echo "$name: [$id] MISSED";;
      *) echo "$name: MACHINERY rc=$rc $(tail -1 $out | cut -c1-160)";;
    esac
    rm -f $out
  else
    echo "$name: PATCH DOES NOT APPLY"
  fi
  git -C /repo worktree remove --force $W 2>/dev/null || rm -rf $W; rm -rf /tmp/cijverif.scratch_out/$(basename $W)
}
n=0
for d in "$@"; do
  one "$d" &
  n=$((n+1))
  if [ $((n % J)) -eq 0 ]; then wait; fi
done
wait
git -C /repo worktree prune
