#!/venv/bin/python
"""tools/import_seeded.py <round> <outdir> [ID...] : copy sub-agent deliveries <outdir>/<ID>/m<k>/{patch.diff,demo.py,meta.json} to
/verif/seeded/<ID>-r<round>m<k>/, completing meta.json (round, source).  Confirmation and regression are separate steps
(tools/confirm_seeded.sh, tools/regress_seeded.sh)."""
import json
import shutil
import sys
from pathlib import Path

rnd, out = sys.argv[1], Path(sys.argv[2])
ids = sys.argv[3:] or sorted(p.name for p in out.iterdir() if p.is_dir())
for pid in ids:
    for m in sorted((out / pid).glob("m*")):
        if not all((m / f).exists() for f in ("patch.diff", "demo.py", "meta.json")):
            print(f"{pid}/{m.name}: incomplete, skipped")
            continue
        dst = Path("/verif/seeded") / f"{pid}-r{rnd}{m.name}"
        dst.mkdir(parents=True, exist_ok=True)
        for f in ("patch.diff", "demo.py"):
            shutil.copy(m / f, dst / f)
        try:
            meta = json.loads((m / "meta.json").read_text())
        except Exception as ex:  # noqa: BLE001
            meta = {"property": pid, "what": f"(meta.json unreadable: {ex})"}
        meta.setdefault("property", pid)
        meta["round"] = int(rnd)
        meta["source"] = "independent sub-agent given only the property record (statement, quantifier, anchors) and a scratch worktree"
        (dst / "meta.json").write_text(json.dumps(meta, indent=1, ensure_ascii=False) + "\n")
        print(dst)
