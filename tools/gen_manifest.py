#!/usr/bin/env python3
"""Regenerates /verif/MANIFEST.json from the table below (single source of truth for the interface)."""
import json
from pathlib import Path

V = Path(__file__).resolve().parents[1]

CHECKS = {
    # id: (category, technique, text, note, design_ref)
    "C10": ("model_checking",
            "TLC exhaustive state exploration of the index algebra (spec/Voigt.tla, C10.tla) + oracle-table replay into c_/e_ + NDJSON trace validation (Trace_Voigt.tla)",
            "The complete finite domain (351x351 pairs of spellings, all out-of-range neighbours) is explored by TLC, which decides the quotient/multiplicity/partition theorems; the exported oracle table is replayed through cij.util.c_/e_ for every spelling and every pair (eq+hash), the rejection table is also replayed in a `python -O` subprocess, and recorded library calls (thorough: also the calls made while the repository's own tests run) are validated as spec steps. Exhaustive in both directions, which is the right level for a finite domain.",
            "Trusted: TLC, CommunityModules Json, the 40-line argument builder of the harness. 'Rejected' = any exception.",
            "DESIGN.md section 4 C10"),
    "C01": ("model_checking",
            "TLC decides the strain-derivative identities as equalities of polynomial normal forms (spec/Thermo.tla, Poly.tla, C01.tla) and model-checks the lazily evaluated contribution object; exported normal forms and TLC-simulated read orders are replayed on the real classes",
            "The identities (zero-point and thermal part, both non-shear classes, aggregation with Gamma mask and normalised weights, T=0 rule) are decided symbolically by TLC for all values of the atoms; conformance replays the exported normal forms on duck-typed calculators over random spectra within the stated quantifier (unsorted and integer-typed temperature grids, coincident and singleton extents, twin cases: the same grids with another spectrum back to back) and replays simulated access orders on real objects (the values at every read; not which intermediate results the object caches). Symbolic decision + sampled conformance is the strongest level available for a real-valued identity.",
            "Trusted: the four differentiation rules stated in Thermo.tla, float evaluation (expm1) in cv/polyeval.py, CODATA literals (envelope 1e-9 on hc/k, rtol 1e-7).",
            "DESIGN.md section 4 C01"),
    "C02": ("model_checking",
            "TLC decides dP/dT and the gap identity/square form/T=0 vanishing symbolically (C01.tla T_dPdT, T_Gap, T_GapSquare) and checks adi=iso for shear tasks in the scheduler model; replay on real classes",
            "Gap identity decided symbolically for two independent modes (bilinear, hence any number); replayed against value_adiabatic - value_isothermal of the real classes on random spectra with arbitrary positive C_V; shear identity checked on all 15 keys.",
            "Trusted: as C01.",
            "DESIGN.md section 4 C02"),
    "C03": ("model_checking",
            "TLC verifies spectra/projectors of the 15 fictitious strains over Q(sqrt d) and decides Target(K)=c_K as an identity of linear forms over the 21 components (spec/ShearSolver.tla, QuadField.tla, C03.tla); request bags, eigenframe, rotated strains and exactness replayed on the real solver",
            "Exactness for all tensors is decided symbolically (linear forms over 21 atoms, all 15 keys, 3 orthonormal splits of the degenerate eigenspace); the real solver is bound by comparing its request bags and rotated strains with the exported ones and by feeding it exact rotated components of 21 basis + random tensors.",
            "Trusted: numpy.einsum rotation of test tensors in the harness; Q(sqrt d) arithmetic of QuadField.tla; the degenerate eigenspace is covered by three splits, not all.",
            "DESIGN.md section 4 C03"),
    "C04": ("model_checking",
            "TLC model checking of the work-list scheduler (spec/TaskScheduler.tla on instances exported from ShearSolver via SchedInstance.tla): all requests up to a bound, every pop order, three strain scenarios (+ two more equal-pair scenarios for recorded real-data runs), a closure-level model of all 2^21 request sets (SchedCoarse.tla, thorough); trace validation of hook-recorded runs incl. the shipped example (Trace_Sched.tla); replay of TLC-simulated request sequences",
            "Design-level: Final/acyclic/DepsFirst/NoStuck/Complete/termination checked exhaustively for <=2 (quick) / <=3 (thorough) requested keys of a 9-key pool covering all key classes under ANY pop order, plus the isotropic-limit theorem. Implementation-level: every recorded resolve/calculate/get run is validated step by step against the faithful bag model (queue lengths, dedup decisions, edges, evaluation order, isothermal-only reads), and request independence / isotropy / axis covariance are checked on the numbers for simulated request sequences incl. the full 21-key request, on fresh and on re-used task lists, for well-separated, equal and nearly-equal (3e-4) strain fractions, and for the scheduler run of the shipped akimotoite calculation.",
            "Trusted: projection of real task parameters onto specification task ids by strain values (cv/schedtrace.py); task ids are ordered pairs under the eigen-solver's axis convention (PosOf); a run whose tasks fall outside the specification's universe (another valid axis order in a degenerate eigenspace) is skipped for trace validation, counted in the evidence and still checked numerically. Bounds: MaxReq 2/3 on a 9-key pool for exhaustive exploration of the fine model.",
            "DESIGN.md section 4 C04"),
    "C08": ("model_checking",
            "TLC decides equality of the relation subspace and the Laue-invariant subspace for the nine systems exactly (group closure, action on the 21-dim tensor space, Reynolds projector, rational null space; spec/Symmetry.tla, Fill.tla, LinAlg.tla, C08.tla) on relations regenerated from /repo; fill replay on TLC-computed invariant tensors",
            "Both subspace inclusions and the dimensions are decided exactly by TLC for all nine systems on the relation files of the current tree (a sign or factor edited in a file is a TLC counterexample naming system and inclusion). The fill half replays TLC-computed invariant tensors restricted to sufficient subsets (from the C09 lattice) through fill_cij (custom row indexes, components that vanish at one volume or at all, tiny components, many-decimal values, all 21 columns) and apply_symetry_on_elast_data.",
            "Trusted: the generators of Symmetry.tla (textbook standard setting), the independent relation-file parser cv/relparse.py, float comparison 1e-9.",
            "DESIGN.md section 4 C08"),
    "C09": ("model_checking",
            "TLC explores the lattice of supplied-component subsets (49k states) deciding 'determined' by exact integer elimination in two formulations that must agree (spec/C09.tla); dumped states and the exported refusal table replayed through fill_cij and `cij fill` under flag and environment variants",
            "Every subset of the non-vanishing components of six systems (top of the lattice for the three large ones) is a TLC state with the exact decision; the implementation is run on a stratified sample of those states x value class x flags x environment (column order, case, integer and mixed integer/float columns, extra columns, explicit zero columns, directory or relative path named like a system, case-sensitive relations-file paths with blanks) and through the CLI (flags, relations path); a refusal leaves the caller's table untouched.",
            "Trusted: value classes are consistent or off by 50 GPa (nothing near the tolerance); (under-determined, inconsistent, ignore_rank) not asserted; 'raises' = any exception.",
            "DESIGN.md section 4 C09"),
    "C16": ("model_checking",
            "TLC explores all 144x144 pairs of configuration trees with the merge laws as invariants and enumerates every single-field perturbation of the documented fields with its verdict (spec/Config.tla, C16.tla); full merge table and perturbation table replayed through update_config / apply_default_config / read_config (YAML and JSON)",
            "The merge laws hold in every one of the 20736 states and the implementation reproduces the whole table (inputs unmodified, idempotent); the merge commutes with nesting (NestLaw), replayed down to depth six; validation is replayed for every documented field x value class on four valid bases (one with static_only) in both file formats; a caller editing a returned configuration does not pollute the packaged defaults. Exhaustive on the finite tree domain, complete over single-field perturbations.",
            "Trusted: value classes the documentation is silent on are not generated; 'rejected' = any exception; trees over 2 keys / 2 leaves / depth 2.",
            "DESIGN.md section 4 C16"),
    "C05": ("model_checking",
            "TLC model of the calculation pipeline with provenance sets (spec/Pipeline.tla: non-interference invariants, exported dependency relation) composed with the TLC-derived value specification of C01-C04 (Thermo normal forms, SchedInstance target terms); end-to-end replay of Calculator on in-class synthetic file triples + taint conformance",
            "Every isothermal/adiabatic modulus at every grid point of end-to-end runs on synthetic file triples (nine systems with invariant tensor fields and sufficient column subsets; free component sets with mixed shear keys; with/without lattice block) equals static(model function of the files) + phonon(TLC-derived) to 2e-6 (observed 2e-9); a third of the data sets are NOT power laws and use interpolation orders different from the QHA order: there the expected spectrum is an independent call of the interpolation routine with the configured method and order (wiring of the settings); column labels in every spelling; 4-row static tables; the provenance relation of the pipeline model is checked by perturbing one input class at a time and the stage order of real runs is validated by Trace_Pipeline.tla.",
            "Trusted: QHA/numpy.polyfit/scipy interpolators as dependencies (P_total, C_V, static pressure taken from the running object, as the property names them inputs); two thirds of the data sets are in the class on which the interpolators are exact, for the rest cij.core.mode_gamma.interpolate_modes (C11's subject) supplies the spectrum; strain fractions compared within the sampled volume range (1e-2).",
            "DESIGN.md section 4 C05"),
    "C06": ("model_checking",
            "TLC-enumerated rejection decision (spec/V2P.tla state machine over integer grids) replayed on synthetic EoS; every (quantity, temperature) isotherm of real runs validated as NDJSON records against the conversion relations by Trace_V2P.tla",
            "Each pressure-base quantity (all moduli S and T, averages, velocities, pressures, volumes) of end-to-end runs is validated record by record by TLC: the value at each requested pressure lies between the volume-base values at the grid volumes whose pressures bracket it (curvature allowance), the pressure field converts to the requested pressures, V(T,P) brackets and decreases; the adiabatic-isothermal gap is validated as a field of its own; pairs of calculations in one process share a pressure grid. The range check is replayed in the three classes below / between / above the temperature-dependent reach, half of the representatives within 0.5 % of a class boundary.",
            "Trusted: QHA's P(T,V) (dependency); interpolation allowance 2 x neighbouring second differences for fields, largest neighbouring third difference of the grid volumes for V(T,P); scaled integers (1e-4 GPa, 1e-7 relative).",
            "DESIGN.md section 4 C06"),
    "C07": ("model_checking",
            "TLC decides that the 6x6 formulas are the contractions of the full fourth-rank tensors (identities of linear forms, spec/Averages.tla, C07.tla); exported forms replayed on stiffness fields injected into CijVolumeBaseInterface; every (T,V) sample validated by Trace_Averages.tla",
            "Symbolic identities for all tensors at model level; implementation bound on positive-definite fields of all nine systems with random component subsets, masses and volumes (incl. weakly coupled, very soft and strongly anisotropic tensors) injected into the volume-base interface, and on real calculations through public attributes only: averages against the exported forms (1e-9), compliance inverse, Hill mean, bounds and rho v^2 relations in TLC on every sample.",
            "Trusted: positive definiteness by numpy eigvalsh (logged per sample), constants of cv/consts.py; nearly singular rows whose products would overflow TLC's 32-bit integers are left out of the integer records (float clauses still apply).",
            "DESIGN.md section 4 C07"),
    "C15": ("model_checking",
            "TLC model of the documented writer rule table (spec/Writer.tla: one rule per keyword, no file-name collisions, S/T selection) exporting the expectation table; replay of every keyword x base through ResultsWriter and write_output with files re-read by an independent parser",
            "All 35 keywords/aliases on both bases on data sets with different grids and component sets: set of files created, row/column labels, values x unit factor to the PRINTED precision of every entry, alias identity, availability, file-name and unit overrides (moduli, averages, velocities, volumes), a second write into the same directory, one writer / one output list naming a variable several times, repeated write_output, sampling steps different from the grid steps, decimal pressure steps, square tables.",
            "Trusted: the frozen rule table is the documentation as of the pinned commit; unit factors as the dependency pint defines them (cross-checked with CODATA literals to 1e-8).",
            "DESIGN.md section 4 C15"),
    "C11": ("model_checking",
            "TLC explores all (method, order, nv) calls with the documented admissibility and node-subsampling rule, derives the exact (omega, gamma, V dgamma/dV) triples of test polynomials symbolically (Poly!Deriv) and the plot table (spec/Interp.tla, C11.tla); every admissible call replayed through interpolate_modes; ModePlotter with recording axes",
            "All 335 admissible calls for nv in 4..12 are replayed on power-law tables with pairwise distinct exponents per (q,m) (table shapes incl. as many q-points as modes; equal and unequal volume spacing with the same end points), on polynomial tables up to the call's exactness degree and on generic tables (consistency of the returned triple); the plot mapping is checked for n=0,1,2 with fresh and re-used plotters, whatever the order or grouping in which the curves are drawn.",
            "Trusted: scipy interpolators; per-method tolerances (Lagrange in the monomial basis loses ~1e-5 with six nodes); finite-difference consistency tolerances.",
            "DESIGN.md section 4 C11"),
    "C12": ("model_checking",
            "TLC enumerates the space of valid configurations (spec/ConfigSpace.tla over Interp!Adm: interpolator x admissible order x number of volumes 5/8/12 x system x T_MIN x DT x lattice block, about 37 000 states, plus exported sets of secondary settings NT, QHA fit order, volume ratio) and checks the IEEE class transfer of the Bose factors (spec/FloatClass.tla); a stratified sample of the enumerated configurations is concretised and run, finiteness/realness/T=0 clauses observed on the results",
            "The configuration space is a TLC-enumerated set rather than three example files; every (interpolator, order, nv) triple, system and (T_MIN, DT) class is present in each run (110 quick / 2500 thorough configurations); results are checked for dtype, finiteness of isothermal moduli everywhere, adiabatic where C_V>0, averages where positive definite, exact zero gap at T=0 and c(T)->c(0).",
            "Finiteness is a floating-point observation; the specification enumerates where to look and predicts the Bose classes. Sampled, not exhaustive, at the implementation level.",
            "DESIGN.md section 4 C12"),
    "C13": ("model_checking",
            "TLC checks that every sequence of <= 4 re-presentation actions leaves the order-free denotation unchanged and that wrong actions change it (spec/Presentation.tla); simulated action sequences applied to synthetic file triples and all results compared with the baseline presentation; the shipped example re-presented at text level",
            "Model: 1901 presentation states with the denotation invariant. Implementation: each simulated sequence (and every single action) is applied to data sets with and without crystal system, with non-power-law frequencies, a node-subsampling interpolator and nearly equal strain fractions, and to the shipped akimotoite files (blocks re-ordered verbatim; diopside in the thorough tier); moduli, averages, velocities and volumes must agree to 1e-7 of scale; re-ordered volume blocks must give the same results or an error.",
            "Trusted: Gamma-point modes are permuted among non-acoustic slots only; comparison tolerance 1e-7 (summation order).",
            "DESIGN.md section 4 C13"),
    "C14": ("model_checking",
            "TLC model of process histories (spec/Lifecycle.tla: observation law, frozen shared state and working directory, stable calculators, files at a settings path replaced between constructions; all histories <= 6 actions); simulated histories executed one per fresh interpreter process under their hash seed and working directory; logged digests validated by Trace_Lifecycle.tla against a fresh reference run per configuration",
            "Every observation (arrays, written files, static table after re-filling, `cij run` output) of every process must carry the digest of the single fresh reference run of its configuration, the shared module state must never change, and other live calculators must be untouched after every action; histories include two different calculations (also two with identical array shapes) interleaved in both orders, repeated reads/writes, the files at a path rewritten between two constructions, seeds 0/1/2/random and three working-directory variants; every event logs the process's working directory, which must stay where it started; a calculation that only works when started inside its data directory is a violation.",
            "Trusted: SHA-256 digests stand for byte identity; the re-filled static table is compared to nine significant digits; shared state = writer rules + unit conversions.",
            "DESIGN.md section 4 C14"),
    "C17": ("model_checking",
            "TLC runs the input01 reader state machine (spec/Formats.tla) on every small document and checks Read(Write(d)) = d, weight pairing, no error, termination; the specification's documents are read by the real reader and the real writer's files are run through the specification's reader machine by TLC; random round trips, static tables, `cij fill` round trip",
            "Both directions are bound: spec documents -> read_energy (parse equals the TLC-exported expectation), write_energy output -> tokenised -> TLC reader machine (RoundTrip invariant). Plus 20/300 random data sets (1-12 x 1-10 x 3-60, either sign, to 1e5) to the written precision, 30/400 static tables with random column order, every spelling of the labels (prefix, case, lower-triangle, four-index), notation/separator/line-end variants, lattice block or trailing blank lines, and the fill command for nine systems.",
            "Trusted: the independent renderer/tokeniser of the harness; 'written precision' = half a unit of the last printed digit; fill payloads <= 4 decimals.",
            "DESIGN.md section 4 C17"),
    "C19": ("model_checking",
            "TLC enumerates every extraction (grids of 2-4 nodes, spacings 1/2/5, tie-free requests, both orientations, 1-3 variables) with invariants NearestIsNearest / OwnVariable / Orientation (spec/Extract.tla); enumerated cases replayed through `cij extract` on coordinate-encoding tables; extract-geotherm node identity, pass-through, refinement",
            "8 580 extraction cases decided by TLC; a random 400 (quick) / all (thorough) replayed through the command line on tables whose entries encode (variable, iT, iP), so a neighbouring index, a transposed axis or the wrong file shows in the number; realistic output directories (names that are prefixes of other names, both bases), fractional and zero-based grids, tables of 80-200 rows. Geotherm: node identity to the printed precision incl. corners and the last row, pass-through columns, default and announced column names, error decreasing under grid refinement.",
            "Trusted: ties are not generated; pandas prints six significant digits (node identity 1e-5); convergence is a float experiment.",
            "DESIGN.md section 4 C19"),
    "C20": ("model_checking",
            "TLC runs the greedy assignment machine (spec/EvecSort.tla) on every 2x2 (entries 0..3) and 3x3 (entries 0..2) overlap matrix with invariants DominantRecovered / PermutationUnlessZero; all 19 939 matrices replayed through evec_sort; constructed unitary cases to n=60; evec_disp2eig; matdyn files laid out per the specification's EigFile through evec_load",
            "Exhaustive on small integer overlap matrices in both model and implementation; constructed cases cover real/complex unitary bases with permutations, phases and <= 5 % perturbation up to n = 60; families of dimension mismatches (lists and arrays) are rejected; the conversion restores orthonormal rows for random masses, also for M x 3N inputs and when the same array is converted twice; generated matdyn files (1-6 q-points, 3-60 modes; each path written twice) are compared number by number.",
            "Trusted: numpy QR/unitary generation and norms in the harness; matdyn line formats as rendered by the harness.",
            "DESIGN.md section 4 C20"),
    "C18": ("model_checking",
            "TLC enumerates every run-static invocation class with the columns, row rule and units it must print (spec/StaticCli.tla); the command is run on in-class synthetic inputs and every printed row is compared with the analytic model; VRH/velocity relations of the rows validated by Trace_Averages.tla",
            "All mode x table x system x cell-mass x ntv classes x sampling stride (36 sampled quick, all 360 thorough; INPUT01 volumes descending, ascending or unsorted; pressure grids may start below zero): columns and row positions, F = fit at V (input energies in mode none), P = -dF/dV (analytic and finite differences across rows), density, moduli = finite-strain fit of the table, rho v_phi^2 = K_VRH, pressure-mode rows at the requested pressures, system and cell-mass options; row relations (Hill mean, bounds, rho v^2) validated by TLC.",
            "Trusted: the second-order reference fit is numpy.polyfit on the file's energies (half of the inputs carry a cubic term, so a fit of another order shows); tolerances for the command's numerical differentiation/interpolation depend on ntv; pandas prints six digits.",
            "DESIGN.md section 4 C18"),
}

# what later rounds added to each check (appended to the level text)
ADDENDA = {
    "C01": "Round 8: the same identity on the six non-shear components as the real task list assembles them from axial strains given as ones, fractions, or rows times positive factors; twin cases share the strain fractions of their base.",
    "C02": "Round 8: the gap on the components assembled by the real task list (unnormalised strains); twin cases share the strain fractions of their base.",
    "C03": "Round 8: strain fields with as many volumes as axes (and 1, 2, 4, 6).",
    "C04": "Round 8: whole-number strains in an integer-typed array; a used task list resolved again with another strain field.",
    "C05": "Round 8: data sets written over the files of the previous one (same paths, same process); static rows and lattice block ascending or shuffled.",
    "C06": "Round 8: the pressure axis of the pressure base is the requested grid of the settings (decimal steps, column counts at which a naive arange overshoots).",
    "C07": "Round 8: shear-shear coupling without normal-shear coupling; isothermal constants read by attribute before any average.",
    "C08": "Round 8: one settings dictionary applied to several tables; drop tolerance raised to a noise level with a component below it at one volume only.",
    "C10": "Round 8: every accepted string spelling of the oracle table as the package's own consumers read it (static-table column labels, attribute names).",
    "C12": "Round 8: a listed component that vanishes identically.",
    "C14": "Round 8: the same files calculated under two settings in one process (Construct(i, c, v) in Lifecycle.tla), `cij run` / `cij fill` as actions (Cli), the fill output under every hash seed, a table whose filling appends several columns.",
    "C15": "Round 8: which tensor a keyword selects is decided against calculations of the same files that have read nothing else.",
    "C17": "Round 8: the fill round trip takes the symmetry-filled parse from the C08 export (integer combinations of the invariant basis: one-signed components touching zero, sufficient proper subsets), not from the package.",
    "C18": "Round 8: invocations on the files of the previous one, rewritten in place.",
    "C19": "Round 8: a geotherm file written in whole numbers.",
}

ADDENDA2 = {
    "C01": "Rounds 9-10: near-equal axial strains on a ladder of separations from 2e-5 to 1e-3, constant or varying along the volume grid.",
    "C05": "Rounds 9-10: strain fractions continue smoothly to both ends of the volume grid; one data set in four calculated from another data set's directory.",
    "C06": "Rounds 9-10: NT + 4 = NTV; a pressure grid written in whole numbers.",
    "C09": "Rounds 9-10: the four flag combinations through the settings path (apply_symetry_on_elast_data); tables with row labels of their own.",
    "C10": "Rounds 9-10: the rejection table replayed again after every accepted spelling was used in the process; two-argument spellings whose digits read like a four-index one.",
    "C11": "Rounds 9-10: on a grid inside one piece of the interpolant the third quantity is the derivative of the returned gamma at every point, the ends included; integer-typed volume grids.",
    "C12": "Rounds 9-10: every sixth configuration followed by a calculation on the same files and array shapes with another (T_MIN, DT) class.",
    "C13": "Rounds 9-10: re-ordered volume blocks in a `python -O` child process (rejected or the same numbers).",
    "C14": "Rounds 9-10: attribute-style names of the pressure base (c11s / c11t) as observed quantities, read isothermal-first.",
    "C15": "Rounds 9-10: one list of output entries shared by both bases.",
    "C17": "Rounds 9-10: a static table read again after the first parsed object was symmetry-filled in place; zone-centre q-points with small frequencies of either sign.",
    "C18": "Rounds 9-10: a static table with the energy file's volume count and end volumes and other volumes in between.",
    "C19": "Rounds 9-10: pressure steps with three decimals; a 13 x 482 table for extract-geotherm.",
}
ADDENDA3 = {
    "C03": "Round 11: pseudo-cubic strain fields, keys with numpy-integer fields as the package hands them out, logger at DEBUG.",
    "C06": "Round 11: overshooting grids listed from the top down; a listed component of 1e-5 GPa.",
    "C07": "Round 11: constants under their four-index attribute names; a 33-point volume grid.",
    "C09": "Round 11: tables listing all 21 components; redundant components disagreeing below the refusal threshold (relation clause only).",
    "C10": "Round 11: the 21 keys carry 21 different hashes.",
    "C11": "Round 11: q-point weights of all sorts (zero among them) do not enter the interpolation.",
    "C12": "Round 11: symmetry flags on sufficient proper subsets; the documented default order left to the packaged defaults for every interpolator on the fewest volumes.",
    "C13": "Round 11: a common weight factor of 1e-10.",
    "C15": "Round 11: file names with braces; a component of 1e-5 GPa; `cij fill` run in-process before writing, volume labels to six decimals; a writer with rules of its own.",
    "C16": "Round 11: enumerations are whole words; grid steps given without their sampling steps.",
    "C18": "Round 11: energies relative to the minimum; decimal pressure grids give exactly NTV rows; tetragonal7 / trigonal7 tables in every run; the Voigt/Reuss contractions exported by C07.tla evaluated on every printed row.",
    "C19": "Round 11: tables and requests at negative pressures.",
    "C20": "Round 11: masses in kilogram and electron masses; mismatch refusals under python -O; mesh-fraction q-coordinates.",
}
for _k, _v in ADDENDA3.items():
    ADDENDA2[_k] = (ADDENDA2[_k] + " " + _v) if _k in ADDENDA2 else _v
for _k, _v in ADDENDA2.items():
    ADDENDA[_k] = (ADDENDA[_k] + " " + _v) if _k in ADDENDA else _v

NOT_YET = {
}

def main():
    props = [json.loads(l) for l in (V / "properties.jsonl").read_text().splitlines() if l.strip()]
    checks = []
    for pid, (cat, tech, text, note, ref) in sorted(CHECKS.items()):
        checks.append({
            "property_id": pid,
            "quick_cmd": f"./check {pid} --tier quick",
            "thorough_cmd": f"./check {pid} --tier thorough",
            "evidence_file": f"/verif/evidence/{pid}.json",
            "replay_cmd_template": f"./check {pid} --replay {{path}}",
            "engine": "tlc+harness",
            "level_claimed": {"category": cat, "text": (text + " " + ADDENDA[pid]) if pid in ADDENDA else text, "design_ref": ref},
            "level_note": note,
            "technique": tech,
        })
    na = []
    for p in props:
        if p["id"] not in CHECKS:
            na.append({"property_id": p["id"],
                       "reason": NOT_YET.get(p["id"], "not claimed yet: the TLA+ model and its conformance binding for this property are not built at this commit (build order in DESIGN.md section 7)")})
    m = {
        "version": 1,
        "setup_cmd": "sh tools/setup.sh",
        "hooks": {
            "guard": "CIJ_VERIF_TRACE",
            "enable": "checks export CIJ_VERIF_TRACE=1 before importing cij (harness/run.py); /repo is an editable install, nothing is rebuilt",
            "baseline_off_cmd": "cd /repo && env -u CIJ_VERIF_TRACE /venv/bin/python -m pytest -ra -q -p no:cacheprovider --timeout=900 --continue-on-collection-errors",
            "source_commits": ["0f4d419"],
            "fix_commits": ["393c885", "6e131f8", "f881cec", "032db5b", "6a649a8", "1074a5f", "986a544", "e799c67", "c6bb171", "921871f", "0b120f4"],
            "add_only": True,
        },
        "engines": [
            {"name": "tlc+harness", "path": "/verif/check", "serves_properties": sorted(CHECKS),
             "kind_free_text": "explicit TLA+ specifications under /verif/spec checked by TLC 1.8; conformance by replaying TLC-exported oracle tables/behaviours into cij and by validating NDJSON traces recorded from cij against Trace_*.tla"},
        ],
        "checks": checks,
        "not_applicable": na,
        "notes": "See DESIGN.md. Exit 0 held / 1 VIOLATION / 2 machinery failure.",
    }
    (V / "MANIFEST.json").write_text(json.dumps(m, indent=1) + "\n")
    print(f"{len(checks)} checks, {len(na)} not claimed")

if __name__ == "__main__":
    main()
