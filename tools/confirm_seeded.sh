#!/bin/sh
# tools/confirm_seeded.sh [dir...] : confirm each seeded change in a scratch worktree of /repo:
#   demo passes on the clean tree, fails with the patch, and the repository's tests still pass with the patch.
WT=/tmp/cijverif.confirm.$$
git -C /repo worktree add -q --detach $WT HEAD || exit 2
cd $WT
[ $# -eq 0 ] && set -- /verif/seeded/*/
for d in "$@"; do
  d=${d%/}
  PYTHONPATH=$WT /venv/bin/python $d/demo.py > /dev/null 2>&1; c=$?
  git apply $d/patch.diff || { echo "$d: PATCH DOES NOT APPLY"; continue; }
  PYTHONPATH=$WT /venv/bin/python $d/demo.py > /dev/null 2>&1; m=$?
  t=$(PYTHONPATH=$WT timeout 1500 /venv/bin/python -m pytest -q -p no:cacheprovider tests 2>&1 | grep -E "^[0-9]+ (passed|failed)|passed" | tail -1)
  git checkout -q -- . ; git clean -fdq examples
  echo "$(basename $d): demo clean=$c patched=$m tests: $t"
done
cd /; git -C /repo worktree remove --force $WT
