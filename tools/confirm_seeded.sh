#!/bin/sh
# tools/confirm_seeded.sh [-j N] [dir...] : confirm each seeded change in its own scratch worktree of /repo:
#   demo passes on the clean tree, fails with the patch, and the repository's tests still pass with the patch.
J=4
if [ "$1" = "-j" ]; then J=$2; shift 2; fi
[ $# -eq 0 ] && set -- /verif/seeded/*/
one() {
  d=${1%/}; name=$(basename $d)
  W=/tmp/cijverif.confirm.$$.$name
  git -C /repo worktree add -q --detach $W HEAD 2>/dev/null || { echo "$name: cannot create worktree"; return; }
  cd $W
  PYTHONPATH=$W /venv/bin/python $d/demo.py > /dev/null 2>&1; c=$?
  if git apply $d/patch.diff 2>/dev/null; then
    PYTHONPATH=$W /venv/bin/python $d/demo.py > /dev/null 2>&1; m=$?
    t=$(PYTHONPATH=$W timeout 1500 /venv/bin/python -m pytest -q -p no:cacheprovider tests 2>&1 | grep -E "^[0-9]+ (passed|failed)|passed" | tail -1)
    echo "$name: demo clean=$c patched=$m tests: $t"
  else
    echo "$name: PATCH DOES NOT APPLY"
  fi
  cd /; git -C /repo worktree remove --force $W 2>/dev/null || rm -rf $W
}
n=0
for d in "$@"; do
  one "$d" &
  n=$((n+1))
  if [ $((n % J)) -eq 0 ]; then wait; fi
done
wait
git -C /repo worktree prune
