#!/bin/sh
# offline setup: parse every specification, byte-compile the harness
set -e
cd "$(dirname "$0")/.."
mkdir -p evidence replays
for f in spec/*.tla; do
  java -cp /opt/veriftools/tla/tla2tools.jar:/opt/veriftools/tla/CommunityModules-deps.jar -DTLA-Library=spec:spec/stubs tla2sany.SANY "$f" > /tmp/cijverif.sany.$$ 2>&1 || { cat /tmp/cijverif.sany.$$; rm -f /tmp/cijverif.sany.$$; echo "SANY failed on $f"; exit 1; }
  if grep -q "Semantic errors\|Parse Error\|Fatal errors" /tmp/cijverif.sany.$$; then cat /tmp/cijverif.sany.$$; rm -f /tmp/cijverif.sany.$$; echo "SANY failed on $f"; exit 1; fi
done
rm -f /tmp/cijverif.sany.$$
/venv/bin/python -m compileall -q harness
echo "setup ok"
