------------------------------ MODULE QuickPlot ------------------------------
(***************************************************************************)
(* Supplementary model X05: `cij plot PATTERNS` (cij/cli/plot.py,          *)
(* cij/plot/quick.py) reads a table that `cij run` wrote and draws one     *)
(* curve per table row.  What the picture shows is decided by the FILE     *)
(* NAME alone: quick.py searches the name with the writer's file-name      *)
(* patterns, in rule order, the first hit names the quantity (axis label,  *)
(* unit) and the two letters of the base name the axes.                    *)
(*                                                                         *)
(* The writer's rules are module Writer's (the frozen documented table);   *)
(* file names are FORMED here exactly as results_writer.py forms them      *)
(* (str.format of the pattern) and SEARCHED exactly as quick.py searches   *)
(* them (re.search of the pattern with {ij} -> one or more digits,         *)
(* {base} -> two letters of v/p/t, '.' -> any character, leftmost match,   *)
(* greedy digits), on TLC's strings (Len, SubSeq, \o).  The property is a  *)
(* round trip between the two modules of the package:                      *)
(*    guess(name(rule, base, ij)) = (rule, base [, ij]).                   *)
(***************************************************************************)
EXTENDS Writer

\* ------------------------------------------------------------------ strings
Char(s, i) == SubSeq(s, i, i)
StartsAt(s, i, lit) == i + Len(lit) - 1 <= Len(s) /\ SubSeq(s, i, i + Len(lit) - 1) = lit
RECURSIVE FindFrom(_, _, _)
FindFrom(s, lit, i) == IF i + Len(lit) - 1 > Len(s) THEN 0 ELSE IF StartsAt(s, i, lit) THEN i ELSE FindFrom(s, lit, i + 1)
\* str.format with one placeholder occurrence at most (every documented pattern has each placeholder at most once)
Fill(s, ph, val) == LET i == FindFrom(s, ph, 1) IN
                    IF i = 0 THEN s ELSE SubSeq(s, 1, i - 1) \o val \o SubSeq(s, i + Len(ph), Len(s))
Digits == {"0", "1", "2", "3", "4", "5", "6", "7", "8", "9"}
BaseLetters == {"v", "p", "t"}

\* the 21 component keys as the writer prints them ("%d%d" of the Voigt pair)
IJ == {"11", "12", "13", "14", "15", "16", "22", "23", "24", "25", "26", "33", "34", "35", "36", "44", "45", "46", "55", "56", "66"}
NameOf(r, b, ij) == Fill(Fill(Rules[r].pat, "{ij}", ij), "{base}", b)

\* ------------------------------------------------------------------ the search
\* tokens of a pattern: literal pieces, IJ (\d+), BASE ([vpt]{2,2})
Tok(r) == LET p == Rules[r].pat
              i == FindFrom(p, "{ij}", 1)
              j == FindFrom(p, "{base}", 1)
          IN  IF i = 0 THEN << <<"lit", SubSeq(p, 1, j - 1)>>, <<"base">>, <<"lit", SubSeq(p, j + 6, Len(p))>> >>
              ELSE << <<"lit", SubSeq(p, 1, i - 1)>>, <<"ij">>, <<"lit", SubSeq(p, i + 4, j - 1)>>, <<"base">>, <<"lit", SubSeq(p, j + 6, Len(p))>> >>
\* a literal piece of a pattern matches character by character, the dot matching anything
RECURSIVE LitAt(_, _, _, _)
LitAt(s, i, lit, k) == IF k > Len(lit) THEN TRUE
                       ELSE /\ i + k - 1 <= Len(s)
                            /\ (Char(lit, k) = "." \/ Char(lit, k) = Char(s, i + k - 1))
                            /\ LitAt(s, i, lit, k + 1)
RECURSIVE DigitRun(_, _)
DigitRun(s, i) == IF i <= Len(s) /\ Char(s, i) \in Digits THEN 1 + DigitRun(s, i + 1) ELSE 0
\* MatchFrom(s, toks, n, i): the captures <<ij, base>> of the (greedy, backtracking) match of tokens n.. at position i, or <<>> if none
RECURSIVE MatchFrom(_, _, _, _, _)
RECURSIVE TryDigits(_, _, _, _, _, _)
MatchFrom(s, toks, n, i, cap) ==
   IF n > Len(toks) THEN <<cap>>
   ELSE LET t == toks[n] IN
        IF t[1] = "lit" THEN IF LitAt(s, i, t[2], 1) THEN MatchFrom(s, toks, n + 1, i + Len(t[2]), cap) ELSE <<>>
        ELSE IF t[1] = "base" THEN
             IF i + 1 <= Len(s) /\ Char(s, i) \in BaseLetters /\ Char(s, i + 1) \in BaseLetters
             THEN MatchFrom(s, toks, n + 1, i + 2, [cap EXCEPT !.base = SubSeq(s, i, i + 1)]) ELSE <<>>
        ELSE TryDigits(s, toks, n, i, cap, DigitRun(s, i))
TryDigits(s, toks, n, i, cap, len) ==
   IF len < 1 THEN <<>>
   ELSE LET m == MatchFrom(s, toks, n + 1, i + len, [cap EXCEPT !.ij = SubSeq(s, i, i + len - 1)])
        IN IF m # <<>> THEN m ELSE TryDigits(s, toks, n, i, cap, len - 1)
NoCap == [ij |-> "", base |-> ""]
RECURSIVE SearchFrom(_, _, _)
SearchFrom(s, r, i) == IF i > Len(s) THEN <<>>
                       ELSE LET m == MatchFrom(s, Tok(r), 1, i, NoCap) IN IF m # <<>> THEN m ELSE SearchFrom(s, r, i + 1)
Search(s, r) == SearchFrom(s, r, 1)
Matching(s) == {r \in RuleIds : Search(s, r) # <<>>}
\* quick._guess_unit: the first rule, in file order, whose pattern is found
GuessIn(s, M) == IF M = {} THEN [rule |-> 0, ij |-> "", base |-> ""]
                 ELSE LET r == CHOOSE x \in M : \A y \in M : x <= y
                          c == Search(s, r)[1]
                      IN [rule |-> r, ij |-> c.ij, base |-> c.base]
Guess(s) == GuessIn(s, Matching(s))

\* ------------------------------------------------------------------ what the picture shows
Axis(c) == IF c = "v" THEN <<"$V$", "A^3">> ELSE IF c = "p" THEN <<"$P$", "GPa">> ELSE <<"$T$", "K">>
\* curves: one per table ROW (first letter of the base: always T), drawn against the COLUMN labels (second letter)
PictureOf(gs) ==
   [xsym |-> Axis(Char(gs.base, 2))[1], xunit |-> Axis(Char(gs.base, 2))[2],
    curvesym |-> Axis(Char(gs.base, 1))[1], curveunit |-> Axis(Char(gs.base, 1))[2],
    zunit |-> Rules[gs.rule].uto]

\* ------------------------------------------------------------------ the walk over every file the writer can produce
Dirs == {"", "out/", "run_tp_1/"}                   \* glob patterns may carry a directory; one of them looks like a base name
VARIABLES ij, dir,                                  \* on top of Writer's kw (the keyword asked for) and base
          name, found, guess, pic                   \* the file written; what the search finds in its name (computed once per state)
qvars == <<kw, base, ij, dir, name, found, guess, pic>>
rule == RuleOf(kw)
\* every (keyword, base, component, directory) is an initial state: the walk is the set of files `cij run` can write
QInit == /\ kw \in Keywords /\ base \in Bases /\ dir \in Dirs
         /\ ij \in (IF Rules[RuleOf(kw)].kind = "ij" THEN IJ ELSE {""})
         /\ name = dir \o NameOf(RuleOf(kw), base, ij)
         /\ found = Matching(name)
         /\ guess = GuessIn(name, found)
         /\ pic = IF guess.rule = 0 THEN [xsym |-> "", xunit |-> "", curvesym |-> "", curveunit |-> "", zunit |-> ""] ELSE PictureOf(guess)
QSpec == QInit /\ [][UNCHANGED qvars]_qvars

\* the name the writer forms has no placeholder left and the length the pattern implies
Formed == FindFrom(name, "{", 1) = 0 /\ Len(name) = Len(dir) + Len(Rules[rule].pat) - 4 - (IF Rules[rule].kind = "ij" THEN 2 ELSE 0)
\* round trip: the quantity and the base are recovered, whatever directory the glob pattern carried
RoundTrip == guess.rule = rule /\ guess.base = base /\ (Rules[rule].kind = "ij" => guess.ij = ij)
\* stronger than first-match: no OTHER rule's pattern is found in the name (so the rule order does not matter)
Unambiguous == found = {rule}
\* the axes: temperature curves against pressure (tp) or volume (tv); the unit of the quantity is the documented one
Axes == /\ pic.curvesym = "$T$" /\ pic.curveunit = "K"
        /\ pic.xsym = (IF base = "tp" THEN "$P$" ELSE "$V$") /\ pic.xunit = (IF base = "tp" THEN "GPa" ELSE "A^3")
        /\ pic.zunit = Rules[rule].uto
\* a name that no rule produced is refused, not guessed
ASSUME Guess("notes.txt").rule = 0 /\ Guess("c11x_tp_gpa.txt").rule = 0 /\ Guess("c11s_tq_gpa.txt").rule = 0
\* export for the replay
EmitPic == PrintT(<<"PIC", name, rule, base, ij, pic.xsym, pic.xunit, pic.curveunit, pic.zunit>>)
=============================================================================
