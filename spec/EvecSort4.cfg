SPECIFICATION SSpec
CONSTANTS
  N = 4
  DomOnly = TRUE
  MaxEntry = 2
INVARIANT DominantRecovered
INVARIANT PermutationUnlessZero
INVARIANT Progress
INVARIANT EmitFinal
