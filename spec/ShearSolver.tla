----------------------------- MODULE ShearSolver -----------------------------
(***************************************************************************)
(* The strain-energy rotation that yields the 15 components carrying a     *)
(* Voigt index 4-6 (cij/core/phonon_contribution/shear.py), as exact       *)
(* tensor algebra over Q(sqrt d).                                          *)
(*                                                                         *)
(* For key K the code builds the fictitious unit strain M_K (0/1,          *)
(* symmetric), diagonalises it, asks for                                   *)
(*   - ModKeys(K): every component hit by M_K x M_K in the crystal frame   *)
(*     except the target,                                                  *)
(*   - RotKeys(K): the longitudinal/off-diagonal components c'_{aabb} in    *)
(*     the eigenframe for the axes with non-zero eigenvalue,               *)
(* and returns 2 (E_rot - E_skip) / (M_ij M_kl) / multiplicity.            *)
(*                                                                         *)
(* Only the projectors P_a = v_a v_a^T enter (never v_a itself), so the    *)
(* result cannot depend on eigenvector sign; order is a relabelling of a.  *)
(***************************************************************************)
EXTENDS Voigt, QuadField, FiniteSetsExt

\* ------------------------------------------------------------------ the fictitious strain
Fict(K) == LET p == V2S[K[1]]  q == V2S[K[2]] IN
  [i \in I3 |-> [j \in I3 |-> IF <<i,j>> \in {p, <<p[2],p[1]>>, q, <<q[2],q[1]>>} THEN 1 ELSE 0]]
NZ(M) == {ij \in I3 \X I3 : M[ij[1]][ij[2]] # 0}

\* bags of keys as total functions Keys -> Nat
ModKeys(K) == LET nz == NZ(Fict(K)) IN
  [k \in Keys |-> IF k = K THEN 0 ELSE Cardinality({pq \in nz \X nz : Canon4(pq[1] \o pq[2]) = k})]
TargetHits(K) == LET nz == NZ(Fict(K)) IN Cardinality({pq \in nz \X nz : Canon4(pq[1] \o pq[2]) = K})

\* ------------------------------------------------------------------ spectra (constants, verified in C03)
\* class of a shear key and the field its spectrum lives in
KClass(K) == IF K[1] >= 4 /\ K[2] >= 4 THEN (IF K[1] = K[2] THEN "A" ELSE "B")
             ELSE IF K[1] \in {V2S[K[2]][1], V2S[K[2]][2]} THEN "C" ELSE "D"
Disc(K) == IF KClass(K) = "C" THEN 5 ELSE 2
Spectrum(K) == CASE KClass(K) = "A" -> << F1, FNeg(F1), F0 >>
                 [] KClass(K) = "B" -> << FRoot, FNeg(FRoot), F0 >>                          \* +-sqrt 2, 0
                 [] KClass(K) = "C" -> << <<RQ(1,2), RQ(1,2)>>, <<RQ(1,2), RQ(-1,2)>>, F0 >>  \* (1 +- sqrt 5)/2, 0
                 [] KClass(K) = "D" -> << F1, F1, FNeg(F1) >>                               \* degenerate pair

\* Frobenius covariant for a simple eigenvalue: prod_{mu # la} (M - mu)/(la - mu) over the DISTINCT eigenvalues
Cov(d, M, la, others) ==
  LET RECURSIVE Go(_,_)
      Go(S, acc) == IF S = {} THEN acc
                    ELSE LET mu == CHOOSE x \in S : TRUE IN
                         Go(S \ {mu}, MScale(d, FInv(d, FSub(la, mu)), MMul(d, acc, MAdd(M, MScale(d, FNeg(mu), MId)))))
  IN Go(others, MId)

\* splits of the degenerate eigenspace of class D: variant 0 is the natural one, 1 and 2 rotate it by rational angles
Variants(K) == IF KClass(K) = "D" THEN {0, 1, 2} ELSE {0}
CosSin(v) == IF v = 1 THEN <<FQ(3,5), FQ(4,5)>> ELSE <<FQ(5,13), FQ(12,13)>>

Proj(K, v) ==
  LET d == Disc(K)   M == MOfInt(Fict(K))   sp == Spectrum(K) IN
  IF KClass(K) # "D"
  THEN [a \in I3 |-> Cov(d, M, sp[a], {sp[b] : b \in I3 \ {a}})]
  ELSE LET Pm == Cov(d, M, FNeg(F1), {F1})                       \* eigenvalue -1 (simple)
           Pp == Cov(d, M, F1, {FNeg(F1)})                       \* eigenvalue +1 (rank 2)
           ax == K[1]                                            \* the longitudinal index of the key
           p  == V2S[K[2]]
           A  == [i \in I3 |-> [j \in I3 |-> IF i = ax /\ j = ax THEN F1 ELSE F0]]
           B  == MAdd(Pp, MScale(d, FNeg(F1), A))
           bv == [i \in I3 |-> IF i \in {p[1], p[2]} THEN <<R0, RQ(1,2)>> ELSE F0]       \* (e_p + e_q)/sqrt 2
           av == [i \in I3 |-> IF i = ax THEN F1 ELSE F0]
           X  == [i \in I3 |-> [j \in I3 |-> FAdd(FMul(d, av[i], bv[j]), FMul(d, bv[i], av[j]))]]
           c  == CosSin(v)[1]    s == CosSin(v)[2]
           cc == FMul(d,c,c)     ss == FMul(d,s,s)    cs == FMul(d,c,s)
       IN IF v = 0 THEN << A, B, Pm >>
          ELSE << MAdd(MAdd(MScale(d,cc,A), MScale(d,ss,B)), MScale(d,cs,X)),
                  MAdd(MAdd(MScale(d,ss,A), MScale(d,cc,B)), MScale(d,FNeg(cs),X)),
                  Pm >>

NZRot(K) == {a \in I3 : Spectrum(K)[a] # F0}
\* rotated-frame requests: bag over (unordered) axis pairs, axes indexed like Spectrum(K)
RotKeys(K) == [k \in {Canon2(a,b) : a \in I3, b \in I3} |->
                 Cardinality({ab \in NZRot(K) \X NZRot(K) : Canon2(ab[1], ab[2]) = k})]

\* ------------------------------------------------------------------ linear forms over the 21 components
LZero == [k \in Keys |-> F0]
LAtom(k0) == [k \in Keys |-> IF k = k0 THEN F1 ELSE F0]
LAdd(x,y) == [k \in Keys |-> FAdd(x[k], y[k])]
LScale(d,c,x) == [k \in Keys |-> FMul(d, c, x[k])]

\* c'_{aabb} = sum_{ijkl} P_a[i,j] P_b[k,l] c_{ijkl}  as a linear form
Crot(d, Pa, Pb) == [k \in Keys |->
   FoldSet(LAMBDA t, acc : FAdd(acc, FMul(d, Pa[t[1]][t[2]], Pb[t[3]][t[4]])), F0, Class(k))]

\* twice the strain energies, exactly as calculate_fictitious_strain_energy accumulates them
E2Rot(K, v) == LET d == Disc(K)  P == Proj(K,v)  sp == Spectrum(K) IN
  FoldSet(LAMBDA ab, acc : LAdd(acc, LScale(d, FMul(d, sp[ab[1]], sp[ab[2]]), Crot(d, P[ab[1]], P[ab[2]]))),
          LZero, NZRot(K) \X NZRot(K))
E2Skip(K) == LET nz == NZ(Fict(K)) IN
  FoldSet(LAMBDA pq, acc : IF Canon4(pq[1] \o pq[2]) = K THEN acc ELSE LAdd(acc, LAtom(Canon4(pq[1] \o pq[2]))),
          LZero, nz \X nz)
Target(K, v) == LET d == Disc(K)  M == Fict(K)  s == Standard(K) IN
  LScale(d, FQ(1, M[s[1]][s[2]] * M[s[3]][s[4]] * MultFormula(K)), LAdd(E2Rot(K,v), LScale(d, FI(-1), E2Skip(K))))

\* axial strain fractions in the eigenframe: diag(T^T diag(e) T)_a = sum_i P_a[i,i] e_i
StrainRot(K, v) == LET P == Proj(K,v) IN [a \in I3 |-> [i \in I3 |-> P[a][i][i]]]
=============================================================================
