----------------------------- MODULE Trace_Units -----------------------------
(***************************************************************************)
(* Trace validation for the unit algebra (supplementary model X03).        *)
(* One NDJSON line per unit conversion the real code performed while a     *)
(* calculation ran, its results were written and `run-static` was called:  *)
(*    {from, to, lg2}                                                      *)
(* `from`/`to` are names of module Units' universe, lg2 = round(2e6 log10  *)
(* of the factor the code multiplied by).  A line is explained iff the two *)
(* units are convertible and the factor has the magnitude of the model's   *)
(* monomial, evaluated in scaled integer logarithms of the atoms           *)
(* (LG = round(1e6 log10 atom); SI-2019 / CODATA-2018 literals).           *)
(***************************************************************************)
EXTENDS Units

Tr == ndJsonDeserialize(IOEnv.TRACE_FILE)
LG == [ten |-> 1000000, a0 |-> -10276399, Ry |-> -17661569, qe |-> -18795290, NA |-> 23779751, two |-> 301030]
\* 2 log10(true factor) * 1e6 = sum of doubled exponents * LG
Lg2(m) == FoldSet(LAMBDA x, acc : acc + m[x] * LG[x], 0, DOMAIN m)
Slack == 40                      \* 2e-5 in log10: CODATA vintages differ in the 9th digit, rounding of the record <= 1

VARIABLE i
TInit == i = 0 /\ Init
Known(e) == e.from \in Range(Names) /\ e.to \in Range(Names)
Explains(e) == /\ Known(e)
               /\ Convertible(Unit(e.from), Unit(e.to))
               /\ LET d == Lg2(Factor(Unit(e.from), Unit(e.to))) - e.lg2 IN d <= Slack /\ -d <= Slack
Step == i < Len(Tr) /\ Explains(Tr[i+1]) /\ i' = i + 1 /\ UNCHANGED vars
TraceSpec == TInit /\ [][Step]_<<i, vars>>
Accepted == TLCGet("stats").diameter - 1 = Len(Tr)
=============================================================================
