SPECIFICATION ESpec
INVARIANT NearestIsNearest
INVARIANT OwnVariable
INVARIANT Orientation
INVARIANT Emit
