SPECIFICATION Spec11
INVARIANT NodesOK
INVARIANT NodeCount
INVARIANT PowerLawExact
INVARIANT DefaultAdmissible
