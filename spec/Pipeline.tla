------------------------------ MODULE Pipeline ------------------------------
(***************************************************************************)
(* The calculation pipeline of `cij run` (cij/core/calculator.py) as a     *)
(* staged state machine that tracks, for every quantity it produces, the   *)
(* set of INPUT classes the quantity may depend on (its provenance).       *)
(*                                                                         *)
(* Input classes (what the three files contain):                           *)
(*   tgrid    T_MIN, DT, NT                  pgrid   P_MIN, DELTA_P         *)
(*   vgrid    NTV, volume_ratio              eosord  qha order              *)
(*   interp   mode_gamma interpolator/order  symm    symmetry settings      *)
(*   volumes  the sampled volumes            energy  static energies        *)
(*   freq     mode frequencies               weights q-point weights        *)
(*   natoms   na / np / nm                   table   static moduli (GPa)    *)
(*   lattice  lattice block                  mass    cell mass              *)
(* Each stage action adds quantities whose provenance is the union of the  *)
(* provenances of what the stage reads - written next to the code it       *)
(* mirrors.  The property's two non-interference clauses are invariants;   *)
(* the full dependency relation is exported for the taint conformance.     *)
(***************************************************************************)
EXTENDS Integers, Sequences, FiniteSets, TLC

Inputs == {"tgrid", "pgrid", "vgrid", "eosord", "interp", "symm", "volumes", "energy", "freq", "weights",
           "natoms", "table", "lattice", "mass", "vref"}
\* (vref: the reference volume printed in the header of the static table; nothing may depend on it)

VARIABLES stage, prov,        \* prov: quantity name -> set of input classes;  stage: name of the last stage run
          ran                 \* set of stages that have run (a stage runs once; its inputs must exist: partial order)
pvars == <<stage, prov, ran>>
Of(q) == prov[q]
With(f, q, s) == [x \in (DOMAIN f) \cup {q} |-> IF x = q THEN s ELSE f[x]]

PInit == stage = "start" /\ prov = [x \in {} |-> {}] /\ ran = {}
Can(name, needs) == name \notin ran /\ needs \subseteq DOMAIN prov /\ stage' = name /\ ran' = ran \cup {name}

\* _load: QHA grid  (v_array from the sampled volumes, NTV, volume_ratio; t_array from the temperature settings)
Load == Can("loaded", {})
        /\ prov' = With(With(With(prov, "v_array", {"volumes", "vgrid", "pgrid"}),
                              "t_array", {"tgrid"}),
                              "p_array", {"pgrid", "vgrid"})
\* (v_array: QHA's refine_grid places the NTV volumes using the desired pressure range as well)
\* _apply_elastic_constants_symmetry: the table is filled BEFORE anything is fitted to it
Fill == Can("filled", {"v_array"})
        /\ prov' = With(prov, "filled_table", {"table", "symm"})
\* _interpolate_modes: frequencies and Grueneisen parameters on v_array
Interp == Can("interpolated", {"v_array"})
        /\ prov' = With(With(prov, "freq_array", {"freq", "volumes", "interp"} \cup Of("v_array")),
                               "mode_gamma", {"freq", "volumes", "interp"} \cup Of("v_array"))
\* QHA layer: F(T,V), P(T,V), C_V  (dependency; everything it reads)
Qha == Can("qha", {"v_array", "t_array"})
        /\ LET s == {"volumes", "energy", "freq", "weights", "natoms", "eosord"} \cup Of("v_array") \cup Of("t_array") IN
           prov' = With(With(prov, "p_total", s), "c_v", s)
\* _calculate_pressure_static
PStatic == Can("pstatic", {"v_array"})
        /\ prov' = With(prov, "p_static", {"volumes", "energy"} \cup Of("v_array"))
\* FullThermalElasticModulus: strains, phonon part (tasks), static part, sum
Strains == Can("strains", {"v_array"})
        /\ prov' = With(prov, "strains", {"lattice", "volumes"} \cup Of("v_array"))     \* volumes: the table's own volume column
Phonon == Can("phonon", {"freq_array", "mode_gamma", "strains", "p_total", "p_static", "c_v"})
        /\ LET s == Of("freq_array") \cup Of("mode_gamma") \cup {"weights", "natoms"} \cup Of("t_array") \cup Of("v_array")
                    \cup Of("strains") \cup Of("p_total") \cup Of("p_static") \cup Of("c_v") IN
           prov' = With(With(prov, "phonon_iso", s), "phonon_adi", s)
Static == Can("static", {"filled_table", "v_array"})
        /\ prov' = With(prov, "static", Of("filled_table") \cup {"volumes"} \cup Of("v_array"))
Sum == Can("summed", {"static", "phonon_iso", "phonon_adi"})
        /\ prov' = With(With(prov, "modulus_iso", Of("static") \cup Of("phonon_iso")),
                               "modulus_adi", Of("static") \cup Of("phonon_adi"))
\* _calculate_compliances, averages, velocities; pressure base
Derived == Can("done", {"modulus_adi", "modulus_iso", "p_total", "p_array"})
        /\ prov' = With(With(With(prov, "compliance", Of("modulus_adi")),
                              "velocities", Of("modulus_adi") \cup {"mass"} \cup Of("v_array")),
                              "tp_moduli", Of("modulus_adi") \cup Of("modulus_iso") \cup Of("p_total") \cup Of("p_array"))
PNext == Load \/ Fill \/ Interp \/ Qha \/ PStatic \/ Strains \/ Phonon \/ Static \/ Sum \/ Derived
PSpec == PInit /\ [][PNext]_pvars /\ WF_pvars(PNext)

Has(q) == q \in DOMAIN prov
\* the phonon part does not depend on the tabulated static values (nor on the symmetry settings or the cell mass)
PhononIgnoresTable == Has("phonon_iso") => Of("phonon_iso") \cap {"table", "symm", "mass"} = {} /\ Of("phonon_adi") \cap {"table", "symm", "mass"} = {}
\* the static part does not depend on temperature, on the spectrum, on the weights or on the energies
StaticIgnoresT == Has("static") => Of("static") \cap {"tgrid", "freq", "weights", "energy", "natoms", "interp", "eosord", "lattice", "mass"} = {}
\* filling is applied to the table before it is interpolated
FillFirst == Has("static") => Has("filled_table") /\ Of("filled_table") \subseteq Of("static")
\* the mode Grueneisen parameters do not depend on the temperature grid or on the energies
GammaLocal == Has("mode_gamma") => Of("mode_gamma") \cap {"tgrid", "energy", "weights", "table", "lattice"} = {}
\* the header reference volume of the static table is documentation only
VrefUnused == \A qn \in DOMAIN prov : "vref" \notin prov[qn]
Completes == <>("done" \in ran)

Emit == "done" \notin ran \/ PrintT(<<"PROV", prov>>)
AllStages == {"loaded", "filled", "interpolated", "qha", "pstatic", "strains", "phonon", "static", "summed", "done"}
=============================================================================
