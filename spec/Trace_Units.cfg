SPECIFICATION TraceSpec
POSTCONDITION Accepted
CHECK_DEADLOCK FALSE
