SPECIFICATION SSpec
INVARIANT ColumnsOK
INVARIANT Emit
