SPECIFICATION SSpec
INVARIANT ColumnsOK
INVARIANT RowsOK
INVARIANT Emit
