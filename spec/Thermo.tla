------------------------------- MODULE Thermo -------------------------------
(***************************************************************************)
(* Quasi-harmonic phonon thermodynamics as exact polynomial algebra.       *)
(*                                                                         *)
(* Per mode (suffix s distinguishes modes), atoms:                         *)
(*    Q = hbar*omega/(k T)    n = 1/(e^Q - 1)    L = ln(1 - e^-Q)          *)
(*    g = gamma = -dln(omega)/dlnV        kp = V dgamma/dV                 *)
(* global atoms: k T V ei ej Cv Pin.                                       *)
(*                                                                         *)
(* The ONLY analysis assumed is the four differentiation rules below       *)
(* (d ln(1-e^-Q) = n dQ, dn = -n(n+1) dQ, dQ/dV = -g Q/V, dQ/dT = -Q/T,    *)
(* dg/dV = kp/V).  Everything else is decided by TLC as equality of        *)
(* normal forms, i.e. for ALL real values of the atoms at once.            *)
(*                                                                         *)
(* `Impl*` transcribe cij/core/phonon_contribution/nonshear.py literally   *)
(* (prefactors tuple, mode_gamma tuple, Q1, Q2, the sums).                 *)
(***************************************************************************)
EXTENDS Poly, TLC

\* atom names ------------------------------------------------------------------
QA(s) == "Q" \o s
NA(s) == "n" \o s
LA(s) == "L" \o s
GA(s) == "g" \o s
KA(s) == "kp" \o s

pk == PAtom("k")    pT == PAtom("T")    pV == PAtom("V")   pVi == PAtomPow("V", -1)
pQ(s) == PAtom(QA(s))   pn(s) == PAtom(NA(s))   pL(s) == PAtom(LA(s))
pg(s) == PAtom(GA(s))   pkp(s) == PAtom(KA(s))

\* the two derivations ------------------------------------------------------------
gQoverV(s) == PMul(PMul(pg(s), pQ(s)), pVi)
NN1(s) == PAdd(PMul(pn(s), pn(s)), pn(s))                       \* n(n+1)
QoverT(s) == PMul(pQ(s), PAtomPow("T", -1))

DVatoms(S) == {"V"} \cup {QA(s) : s \in S} \cup {NA(s) : s \in S} \cup {LA(s) : s \in S} \cup {GA(s) : s \in S}
DV(S) == [x \in DVatoms(S) |->
            IF x = "V" THEN POne
            ELSE LET s == CHOOSE t \in S : x \in {QA(t), NA(t), LA(t), GA(t)} IN
                 IF x = QA(s) THEN PNeg(gQoverV(s))                       \* dQ/dV = -g Q / V
                 ELSE IF x = NA(s) THEN PMul(NN1(s), gQoverV(s))          \* dn/dV = -n(n+1) dQ/dV
                 ELSE IF x = LA(s) THEN PNeg(PMul(pn(s), gQoverV(s)))     \* dL/dV = n dQ/dV
                 ELSE PMul(pkp(s), pVi)]                                   \* dg/dV = kp / V

DTatoms(S) == {"T"} \cup {QA(s) : s \in S} \cup {NA(s) : s \in S} \cup {LA(s) : s \in S}
DT(S) == [x \in DTatoms(S) |->
            IF x = "T" THEN POne
            ELSE LET s == CHOOSE t \in S : x \in {QA(t), NA(t), LA(t)} IN
                 IF x = QA(s) THEN PNeg(QoverT(s))                         \* dQ/dT = -Q / T
                 ELSE IF x = NA(s) THEN PMul(NN1(s), QoverT(s))
                 ELSE PNeg(PMul(pn(s), QoverT(s))) ]

\* the property's definitions --------------------------------------------------------
Fzp(s) == PScale(RQ(1,2), PMul(PMul(pk, pT), pQ(s)))        \* hbar*omega/2 = k T Q / 2
Fth(s) == PMul(PMul(pk, pT), pL(s))                         \* k T ln(1 - e^-Q)

Pof(F,S) == PNeg(Deriv(F, DV(S)))                           \* P = -dF/dV
Aof(F,S) == PSub(PMul(pV, Deriv(Deriv(F, DV(S)), DV(S))), Pof(F,S))   \* A = V F'' - P
Inv5ee == PTerm(RQ(1,5), AtomPow("ei", -2))
Inv3e  == PTerm(RQ(1,3), AtomPow("ei", -1))
Inv15eiej == PTerm(RQ(1,15), MonoMul(AtomPow("ei",-1), AtomPow("ej",-1)))
CLong(F,S) == PAdd(PMul(Inv5ee, Aof(F,S)), PMul(Inv3e, Pof(F,S)))      \* A/(5 e^2) + P/(3 e)
COffA(F,S) == PMul(Inv15eiej, Aof(F,S))                                  \* A/(15 ei ej)
COff(F,S)  == PAdd(COffA(F,S), Pof(F,S))                                 \* ... + P_ph
dPdT(F,S)  == Deriv(Pof(F,S), DT(S))

\* literal transcription of nonshear.py --------------------------------------------------
\* prefactors = (1/5/prod(e), (1/3/e[0], 1/3/e[1]), 1/5/prod(e));  off-diagonal: 1/15
Pref(c) == << PTerm(RQ(1,c), MonoMul(AtomPow("ei",-1), AtomPow("ej",-1))),
              << PTerm(RQ(1,3), AtomPow("ei",-1)), PTerm(RQ(1,3), AtomPow("ej",-1)) >>,
              PTerm(RQ(1,c), MonoMul(AtomPow("ei",-1), AtomPow("ej",-1))) >>
\* calculator.mode_gamma = [V dgamma/dV, gamma, gamma^2]
CalcModeGamma(s) == << pkp(s), pg(s), PMul(pg(s), pg(s)) >>
ModeGamma(c,s) == << PMul(Pref(c)[1], CalcModeGamma(s)[1]),
                     << PMul(Pref(c)[2][1], CalcModeGamma(s)[2]), PMul(Pref(c)[2][2], CalcModeGamma(s)[2]) >>,
                     PMul(Pref(c)[3], CalcModeGamma(s)[3]) >>
Q1(s) == PMul(pQ(s), pn(s))                                  \* Q/(e^Q - 1)
Q2(s) == PMul(PMul(pQ(s), pQ(s)), NN1(s))                    \* Q^2 e^Q/(e^Q - 1)^2 = Q^2 n(n+1)
HalfHOmega(s) == PScale(RQ(1,2), PMul(PMul(pk, pT), pQ(s)))  \* h/2 * freq  (per mode; h*freq = k T Q)

ImplLongZp(s) == PMul(PMul(HalfHOmega(s), pVi),
                   PAdd(PSub(ModeGamma(5,s)[3], ModeGamma(5,s)[1]), ModeGamma(5,s)[2][1]))
ImplLongTh(s) == PMul(PMul(PMul(pk, pT), pVi),
                   PAdd(PNeg(PMul(Q2(s), ModeGamma(5,s)[3])),
                        PMul(Q1(s), PAdd(PSub(ModeGamma(5,s)[3], ModeGamma(5,s)[1]), ModeGamma(5,s)[2][1]))))
ImplOffZp(s)  == PMul(PMul(HalfHOmega(s), pVi), PSub(ModeGamma(15,s)[3], ModeGamma(15,s)[1]))
ImplOffTh(s)  == PMul(PMul(PMul(pk, pT), pVi),
                   PAdd(PNeg(PMul(Q2(s), ModeGamma(15,s)[3])),
                        PMul(Q1(s), PSub(ModeGamma(15,s)[3], ModeGamma(15,s)[1]))))
\* value_isothermal of the off-diagonal class adds the SUPPLIED pressure difference (atom Pin)
ImplOffIso(s) == PAdd(PAdd(ImplOffZp(s), ImplOffTh(s)), PAtom("Pin"))

\* longitudinal: both strain fractions are the same atom
EjToEi(p) == LET q == PMul(p, PAtomPow("ej", 2)) IN PMul(Subst(q, "ej", PAtom("ei")), PAtomPow("ei", -2))

\* isothermal_to_adiabatic: T/V/Cv * S1 * S2, S_a = sum_modes k Q2 (gamma/(3 e_a))
\* (the code's average*3N*k is the mode sum times k; see the aggregation theorem in Aggregate)
ImplEntropyStrain(a, S) == PSum({PMul(pk, PMul(Q2(s), ModeGamma(5,s)[2][a])) : s \in S})
ImplGap(S) == PMul(PMul(PMul(pT, pVi), PAtomPow("Cv", -1)), PMul(ImplEntropyStrain(1,S), ImplEntropyStrain(2,S)))
\* the property: T V (dP/dT)^2 / (9 ei ej Cv) with dP/dT of the whole spectrum
SumdPdT(S) == PSum({dPdT(PAdd(Fzp(s), Fth(s)), S) : s \in S})
SpecGap(S) == PMul(PMul(PMul(pT, pV), PTerm(RQ(1,9), MonoMul(MonoMul(AtomPow("ei",-1), AtomPow("ej",-1)), AtomPow("Cv",-1)))),
                   PMul(SumdPdT(S), SumdPdT(S)))

\* every monomial of p contains one of the Bose atoms n_s with positive exponent
\* (=> p -> 0 as T -> 0 because Q^a n -> 0; the code implements this as the T = 0 mask)
VanishesAtZeroT(p, S) == \A m \in DOMAIN p : \E s \in S : Exp(m, NA(s)) >= 1
=============================================================================
