SPECIFICATION RelaxedSpec
CONSTANTS
  Pool = {}
  MaxReq = 21
  Faithful = TRUE
INVARIANT EdgesSound
INVARIANT DepsFirst
POSTCONDITION Accepted
CHECK_DEADLOCK FALSE
