-------------------------------- MODULE Units --------------------------------
(***************************************************************************)
(* Supplementary model X03: the unit algebra behind cij/util/units.py.     *)
(*                                                                         *)
(* A unit is a pair  [dim, sc]:                                            *)
(*   dim : base dimension -> Int    over {"m","kg","s","mol","K"}           *)
(*   sc  : atom -> Int              its size in SI base units as a Laurent *)
(*         monomial over the atoms                                         *)
(*           "ten" (the number 10), "a0" (Bohr radius / m),                *)
(*           "Ry" (Rydberg energy / J), "qe" (electron volt / J),          *)
(*           "NA" (Avogadro number)                                        *)
(* ALL exponents are stored DOUBLED, so that the square root the velocity  *)
(* conversion takes stays inside the integers.  Both components are sparse *)
(* normal forms (Poly's monomials), so TLC value equality is equality of   *)
(* units, and a conversion factor is again a monomial: exact, whatever the *)
(* CODATA vintage of the atoms.                                            *)
(*                                                                         *)
(* The state machine at the bottom walks over all ordered triples of the   *)
(* unit universe `U` (the units the package converts between, the units    *)
(* the writer documents and the overrides a user may plausibly ask for)    *)
(* and checks that conversion is a groupoid: reflexive, inverse, and       *)
(* compositional exactly on the convertible pairs.  The ASSUME-theorems    *)
(* state what the package relies on: every converter of units.py is        *)
(* dimensionally consistent, `_to_x` and `_from_x` are mutually inverse,   *)
(* sqrt(GPa / (g/cm^3)) IS km/s (factor exactly one), and the velocity     *)
(* chain of calculator.py equals the SI formula.                           *)
(***************************************************************************)
EXTENDS Poly, Json, IOUtils, TLC

\* ---------------------------------------------------------------- monomial helpers (doubled exponents)
MInv(m) == [x \in DOMAIN m |-> -m[x]]
MDiv(a,b) == MonoMul(a, MInv(b))
MScale(m,k) == IF k = 0 THEN MonoOne ELSE [x \in DOMAIN m |-> k * m[x]]      \* m^k
MHalf(m) == [x \in DOMAIN m |-> m[x] \div 2]                                \* only when every exponent is a multiple of 4 (i.e. true exponent even)
AllEven(m) == \A x \in DOMAIN m : m[x] % 2 = 0
AllMult4(m) == \A x \in DOMAIN m : m[x] % 4 = 0

\* ---------------------------------------------------------------- units
U_(d, s) == [dim |-> d, sc |-> s]
One == U_(MonoOne, MonoOne)
UMul(u,v) == U_(MonoMul(u.dim, v.dim), MonoMul(u.sc, v.sc))
UInv(u) == U_(MInv(u.dim), MInv(u.sc))
UDiv(u,v) == UMul(u, UInv(v))
UPow(u,k) == U_(MScale(u.dim, k), MScale(u.sc, k))
USqrt(u) == U_(MHalf(u.dim), MHalf(u.sc))            \* defined when AllMult4 of both - every use below is guarded by an ASSUME
Pow10(k) == AtomPow("ten", 2 * k)
Scaled(u, k) == U_(u.dim, MonoMul(u.sc, Pow10(k)))   \* 10^k u

\* base and named units (true exponent e is stored as 2e)
Base(x) == U_(AtomPow(x, 2), MonoOne)
Meter == Base("m")   Kilogram == Base("kg")   Second == Base("s")   Mole == Base("mol")   Kelvin == Base("K")
Centimeter == Scaled(Meter, -2)
Kilometer == Scaled(Meter, 3)
Angstrom == Scaled(Meter, -10)
Bohr == U_(Meter.dim, AtomPow("a0", 2))
Gram == Scaled(Kilogram, -3)
Joule == UDiv(UMul(Kilogram, UPow(Meter, 2)), UPow(Second, 2))
ElectronVolt == U_(Joule.dim, AtomPow("qe", 2))
Rydberg == U_(Joule.dim, AtomPow("Ry", 2))
Hartree == U_(Joule.dim, MonoMul(AtomPow("Ry", 2), AtomPow("two", 2)))       \* 2 Ry; "two" is an atom so that factors stay monomials
Pascal == UDiv(Joule, UPow(Meter, 3))
GPa == Scaled(Pascal, 9)
MPa == Scaled(Pascal, 6)
Kbar == Scaled(Pascal, 8)
Particle == U_(Mole.dim, AtomPow("NA", -2))                                 \* pint: particle = 1 / N_A  (N_A = NA / mol)

Bohr3 == UPow(Bohr, 3)
Ang3 == UPow(Angstrom, 3)
Cm3 == UPow(Centimeter, 3)
M3 == UPow(Meter, 3)
RyBohr3 == UDiv(Rydberg, Bohr3)
EvAng3 == UDiv(ElectronVolt, Ang3)
Gcm3 == UDiv(Gram, Cm3)
KgM3 == UDiv(Kilogram, M3)
AuDensity == UDiv(UDiv(Gram, Mole), UDiv(Bohr3, Particle))                  \* (g/mol) / (bohr^3 / particle), units.py
Kms == UDiv(Kilometer, Second)
Ms == UDiv(Meter, Second)
SqrtGPaGcm3 == USqrt(UDiv(GPa, Gcm3))                                        \* units.py _to_kms: (GPa / (g / cm^3)) ** (1/2)
KgKm2S2 == UDiv(UMul(Kilogram, UPow(Kilometer, 2)), UPow(Second, 2))          \* calculator.py: energy unit of the velocity formula
\* the thermal constants of nonshear.py
JmKperEv == UDiv(UMul(UMul(Joule, Meter), Kelvin), ElectronVolt)              \* (hc [J m]) / (k [eV/K])
CmK == UMul(Centimeter, Kelvin)
Jm == UMul(Joule, Meter)
RyCm == UMul(Rydberg, Centimeter)
EvPerK == UDiv(ElectronVolt, Kelvin)
RyPerK == UDiv(Rydberg, Kelvin)

\* ---------------------------------------------------------------- conversion
Convertible(u,v) == u.dim = v.dim
Factor(u,v) == MDiv(u.sc, v.sc)            \* x [u] = x * Factor(u,v) [v]   (doubled exponents: the true factor is its square root)
FactorIsReal(u,v) == AllEven(Factor(u,v))  \* no irreducible square root is left over

\* name -> unit : the universe the walk covers, and the pint spelling the harness uses for the same unit
Names == << "m", "cm", "km", "angstrom", "bohr", "g", "kg", "J", "eV", "Ry", "hartree", "Pa", "GPa", "MPa", "kbar",
            "bohr3", "ang3", "cm3", "m3", "Ry/bohr3", "eV/ang3", "g/cm3", "kg/m3", "audensity", "km/s", "m/s", "sqrt(GPa/gcm3)",
            "mol", "particle", "s", "one", "K", "kg*km2/s2", "J*m*K/eV", "cm*K", "J*m", "Ry*cm", "eV/K", "Ry/K" >>
Unit(n) == CASE n = "m" -> Meter [] n = "cm" -> Centimeter [] n = "km" -> Kilometer [] n = "angstrom" -> Angstrom [] n = "bohr" -> Bohr
             [] n = "g" -> Gram [] n = "kg" -> Kilogram [] n = "J" -> Joule [] n = "eV" -> ElectronVolt [] n = "Ry" -> Rydberg
             [] n = "hartree" -> Hartree [] n = "Pa" -> Pascal [] n = "GPa" -> GPa [] n = "MPa" -> MPa [] n = "kbar" -> Kbar
             [] n = "bohr3" -> Bohr3 [] n = "ang3" -> Ang3 [] n = "cm3" -> Cm3 [] n = "m3" -> M3 [] n = "Ry/bohr3" -> RyBohr3
             [] n = "eV/ang3" -> EvAng3 [] n = "g/cm3" -> Gcm3 [] n = "kg/m3" -> KgM3 [] n = "audensity" -> AuDensity
             [] n = "km/s" -> Kms [] n = "m/s" -> Ms [] n = "sqrt(GPa/gcm3)" -> SqrtGPaGcm3
             [] n = "mol" -> Mole [] n = "particle" -> Particle [] n = "s" -> Second [] n = "one" -> One
             [] n = "K" -> Kelvin [] n = "kg*km2/s2" -> KgKm2S2 [] n = "J*m*K/eV" -> JmKperEv [] n = "cm*K" -> CmK [] n = "J*m" -> Jm
             [] n = "Ry*cm" -> RyCm [] n = "eV/K" -> EvPerK [] n = "Ry/K" -> RyPerK
NN == Len(Names)

\* ---------------------------------------------------------------- the converters of cij/util/units.py, as (from, to)
Converters == [ to_gpa |-> <<"Ry/bohr3", "GPa">>,   from_gpa |-> <<"GPa", "Ry/bohr3">>,
                to_ang3 |-> <<"bohr3", "ang3">>,    from_ang3 |-> <<"ang3", "bohr3">>,
                to_ev |-> <<"Ry", "eV">>,           from_ev |-> <<"eV", "Ry">>,
                to_gcm3 |-> <<"audensity", "g/cm3">>, from_gcm3 |-> <<"g/cm3", "audensity">>,
                to_kms |-> <<"sqrt(GPa/gcm3)", "km/s">>,
                \* conversions written out in place (calculator.py velocities, nonshear.py constants)
                vel_energy |-> <<"Ry", "kg*km2/s2">>, h_div_k |-> <<"J*m*K/eV", "cm*K">>, hc |-> <<"J*m", "Ry*cm">>, kb |-> <<"eV/K", "Ry/K">> ]
CF(c) == Factor(Unit(Converters[c][1]), Unit(Converters[c][2]))

\* T1: every converter relates two units of the same dimension
ASSUME T_ConvertersConsistent == \A c \in DOMAIN Converters : Convertible(Unit(Converters[c][1]), Unit(Converters[c][2]))
\* T2: to_x after from_x is the identity
ASSUME T_Inverse == /\ MonoMul(CF("to_gpa"), CF("from_gpa")) = MonoOne
                    /\ MonoMul(CF("to_ang3"), CF("from_ang3")) = MonoOne
                    /\ MonoMul(CF("to_ev"), CF("from_ev")) = MonoOne
                    /\ MonoMul(CF("to_gcm3"), CF("from_gcm3")) = MonoOne
\* T3: the square root in _to_kms is taken of a perfect square, and (GPa / (g/cm^3))^(1/2) IS km/s: factor exactly 1
ASSUME T_SqrtDefined == AllMult4(UDiv(GPa, Gcm3).dim) /\ AllMult4(UDiv(GPa, Gcm3).sc)
ASSUME T_KmsExact == Convertible(SqrtGPaGcm3, Kms) /\ CF("to_kms") = MonoOne
\* T4: the closed forms of the factors (what a reader expects)
ASSUME T_Closed == /\ CF("to_gpa") = MonoMul(AtomPow("Ry", 2), MonoMul(AtomPow("a0", -6), Pow10(-9)))      \* Ry / a0^3 / 1e9
                   /\ CF("to_ang3") = MonoMul(AtomPow("a0", 6), Pow10(30))                                 \* (a0 1e10)^3
                   /\ CF("to_ev") = MonoMul(AtomPow("Ry", 2), AtomPow("qe", -2))                           \* Ry / e
                   /\ CF("to_gcm3") = MonoMul(AtomPow("NA", -2), MonoMul(AtomPow("a0", -6), Pow10(-6)))    \* 1 / (NA a0^3 1e6)
\* T5: velocity chain of calculator.py: v = to_kms( sqrt( to_gpa(c) / to_gcm3(rho) ) ) equals sqrt(c_SI / rho_SI) in km/s, where
\* c is in Ry/bohr^3 and rho in (g/mol)/(bohr^3/particle).  In factors:  sqrt(F(c->GPa) / F(rho->g/cm3)) * F(sqrt->km/s)
\* must equal  sqrt(F(c->Pa) / F(rho->kg/m3)) * F(m/s -> km/s).  With doubled exponents sqrt(m) is MHalf(m) after doubling m once
\* more, so the comparison is made between the squares.
ChainPkg == MonoMul(MDiv(CF("to_gpa"), CF("to_gcm3")), MScale(CF("to_kms"), 2))
ChainSI == MonoMul(MDiv(Factor(RyBohr3, Pascal), Factor(AuDensity, KgM3)), MScale(Factor(Ms, Kms), 2))
ASSUME T_VelocityChain == ChainPkg = ChainSI
\* T5b: the velocity formula of calculator.py: v^2 = (M V [Ry] -> kg km^2/s^2) / (mass [kg]) is the SI  M V [J] / mass [kg]  in (km/s)^2
ASSUME T_VelocityCalc == CF("vel_energy") = MonoMul(Factor(Rydberg, Joule), MScale(Factor(Ms, Kms), 2))
\* T5c: thermal constants: Q = (hc/k)[cm K] w[1/cm] / T[K] is dimensionless; hc[Ry cm] w[1/cm] and k[Ry/K] T[K] are energies in Ry
ASSUME T_Thermal == /\ CF("h_div_k") = MonoMul(AtomPow("qe", -2), Pow10(2))
                    /\ CF("hc") = MonoMul(AtomPow("Ry", -2), Pow10(2))
                    /\ CF("kb") = MonoMul(AtomPow("qe", 2), AtomPow("Ry", -2))
                    /\ UDiv(UDiv(CmK, Centimeter), Kelvin).dim = MonoOne
                    /\ Convertible(UDiv(RyCm, Centimeter), Rydberg) /\ Convertible(UMul(RyPerK, Kelvin), Rydberg)
                    /\ MDiv(CF("hc"), CF("kb")) = MDiv(CF("h_div_k"), MonoOne)        \* hc/k in (Ry cm)/(Ry/K) is the same number as h_div_k
\* T6: density = mass / volume: (g/mol) / (bohr^3/particle) converted to g/cm^3 is  M[g/mol] / (NA V[cm^3])
ASSUME T_Density == Factor(AuDensity, Gcm3) = MDiv(MInv(AtomPow("NA", 2)), Factor(Bohr3, Cm3))

\* ---------------------------------------------------------------- export for the binding
Row(a,b) == [from |-> Names[a], to |-> Names[b], conv |-> Convertible(Unit(Names[a]), Unit(Names[b])),
             f |-> IF Convertible(Unit(Names[a]), Unit(Names[b]))
                   THEN {<<x, Factor(Unit(Names[a]), Unit(Names[b]))[x]>> : x \in DOMAIN Factor(Unit(Names[a]), Unit(Names[b]))} ELSE {}]
ASSUME JsonSerialize(IOEnv.OUTD \o "/units_table.json",
          [ pairs |-> {Row(a,b) : a \in 1..NN, b \in 1..NN},
            converters |-> [c \in DOMAIN Converters |-> [from |-> Converters[c][1], to |-> Converters[c][2],
                              f |-> {<<x, CF(c)[x]>> : x \in DOMAIN CF(c)}]] ])

\* ---------------------------------------------------------------- groupoid walk over all triples
VARIABLES a, b, c
vars == <<a, b, c>>
Init == a = 1 /\ b = 1 /\ c = 1
Next == \/ c < NN /\ c' = c + 1 /\ UNCHANGED <<a, b>>
        \/ c = NN /\ b < NN /\ b' = b + 1 /\ c' = 1 /\ UNCHANGED a
        \/ c = NN /\ b = NN /\ a < NN /\ a' = a + 1 /\ b' = 1 /\ c' = 1
Spec == Init /\ [][Next]_vars
ua == Unit(Names[a])   ub == Unit(Names[b])   uc == Unit(Names[c])
Reflexive == Convertible(ua, ua) /\ Factor(ua, ua) = MonoOne
Symmetric == Convertible(ua, ub) <=> Convertible(ub, ua)
InverseLaw == Convertible(ua, ub) => MonoMul(Factor(ua, ub), Factor(ub, ua)) = MonoOne
Transitive == Convertible(ua, ub) /\ Convertible(ub, uc) => Convertible(ua, uc)
Cocycle == Convertible(ua, ub) /\ Convertible(ub, uc) => MonoMul(Factor(ua, ub), Factor(ub, uc)) = Factor(ua, uc)
RealFactors == Convertible(ua, ub) => FactorIsReal(ua, ub)
\* distinct names are distinct units (the universe has no accidental duplicates), and equal factor 1 only between equal units
Faithful == (a # b /\ Convertible(ua, ub)) => Factor(ua, ub) # MonoOne \/ {Names[a], Names[b]} = {"km/s", "sqrt(GPa/gcm3)"}
=============================================================================
