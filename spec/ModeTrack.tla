------------------------------- MODULE ModeTrack -------------------------------
(***************************************************************************)
(* Supplementary model (outside the listed properties): mode tracking      *)
(* across volumes, cij/misc/eig_sort_freqs.py: regen_freq.                  *)
(*                                                                         *)
(* Every volume's eigenvector file lists the normal modes of a q-point in  *)
(* its own order.  files[v][c] is the TRUE label of the mode at position c *)
(* of volume v's file (the labels are what the eigenvectors identify: the  *)
(* overlap of two modes of neighbouring volumes is dominant iff the labels *)
(* agree - that is EvecSort's DominantRecovered).  regen_freq walks the    *)
(* volumes in order; volume 1 keeps its file order and defines the order   *)
(* of all others; volume v > 1 is sorted against the SORTED vectors of     *)
(* volume v - 1.  Variant "file" models the tempting wrong chain (sorting  *)
(* against the previous volume's file order): TLC refutes Tracked for it.  *)
(***************************************************************************)
EXTENDS Integers, Sequences, FiniteSets, TLC

CONSTANTS NP, NV, Variant          \* Variant \in {"sorted", "file"}
Idx == 1..NP
Perms == {p \in [Idx -> Idx] : \A a, b \in Idx : a # b => p[a] # p[b]}

VARIABLES files,   \* [1..NV -> Perms]
          v,       \* volumes processed so far
          ref,     \* labels of the reference vectors, position by position
          out      \* out[n][l] = label of the mode placed at position l of volume n
mvars == <<files, v, ref, out>>

MInit == files \in [1..NV -> Perms] /\ v = 0 /\ ref = <<>> /\ out = <<>>
\* evec_sort(items of file f, their vectors, reference vectors): position l receives the item whose label is ref[l]
SortAgainst(f, r) == [l \in Idx |-> f[CHOOSE c \in Idx : f[c] = r[l]]]
Step == /\ v < NV /\ v' = v + 1 /\ UNCHANGED files
        /\ LET f == files[v + 1] IN
             IF v = 0 THEN out' = Append(out, f) /\ ref' = f
             ELSE LET s == SortAgainst(f, ref) IN
                    /\ out' = Append(out, s)
                    /\ ref' = IF Variant = "sorted" THEN s ELSE f
MSpec == MInit /\ [][Step]_mvars

\* every volume comes out in the order of the first volume's file: position l carries the same physical mode at all volumes
Tracked == \A n \in 1..Len(out) : out[n] = files[1]
\* every volume's output is a permutation of its file
Permuted == \A n \in 1..Len(out) : {out[n][l] : l \in Idx} = Idx
EmitTrack == v < NV \/ PrintT(<<"TRACK", files>>)
=============================================================================
