----------------------------- MODULE Presentation -----------------------------
(***************************************************************************)
(* The same physical data can be written down in many ways.  A             *)
(* PRESENTATION is the order-dependent content of the three files; its     *)
(* DENOTATION is the order-free physical content:                          *)
(*   phonons : for every q-point (identified by its coordinate) the        *)
(*             normalised weight and the BAG of mode branches, a branch    *)
(*             being the function volume -> frequency;                     *)
(*   statics : the function (volume, canonical key) -> value, and          *)
(*             volume -> lattice parameters.                               *)
(* Re-presentation actions must leave the denotation unchanged; tempting   *)
(* wrong ones (listed at the end) must change it - a sanity check of the   *)
(* model itself.  Small concrete instance: 2 volumes, 3 q-points (the      *)
(* first is Gamma, with 1 "acoustic" slot), 3 modes, 2 static columns.     *)
(***************************************************************************)
EXTENDS Integers, Sequences, FiniteSets, Bags, TLC

Perms(n) == {p \in [1..n -> 1..n] : \A i, j \in 1..n : i # j => p[i] # p[j]}
NV == 2   NQ == 3   NM == 3   NC == 2   NACOUSTIC == 1
\* presentation variables
VARIABLES vorder,   \* order of the volume blocks in the phonon file           (perm of 1..NV)
          qorder,   \* order of the q-points (position 1 is Gamma)             (perm of 1..NQ fixing 1)
          morder,   \* per q-point, order of the modes (same at every volume)  ([1..NQ -> Perms(NM)])
          wscale,   \* common factor on all weights
          corder,   \* order of the static-table columns
          upper,    \* column names in upper case
          rorder,   \* order of the static-table rows (with the lattice rows)
          hist      \* names of the actions taken (observation)
pvars == <<vorder, qorder, morder, wscale, corder, upper, rorder, hist>>

\* ---- the physical content (fixed, arbitrary distinct numbers) --------------------------------------------------
Vol(i) == 100 - 10 * i
Freq(i, q, m) == IF q = 1 /\ m <= NACOUSTIC THEN 0 ELSE 1000 * i + 100 * q + m     \* volume i, physical q, physical branch m
Weight(q) == q + 1
Coord(q) == q * 7
Stat(i, c) == 50 * i + c
Name(c) == IF upper THEN <<"C", c>> ELSE <<"c", c>>
Canon(nm) == nm[2]                                 \* the key, whatever the case of the letter

\* ---- what the files contain, in file order ---------------------------------------------------------------------
PhononFile == [a \in 1..NV |-> LET i == vorder[a] IN
                 [v |-> Vol(i), q |-> [b \in 1..NQ |-> LET qq == qorder[b] IN
                     [coord |-> Coord(qq), modes |-> [k \in 1..NM |-> Freq(i, qq, morder[qq][k])]]]]]
WeightList == [b \in 1..NQ |-> [coord |-> Coord(qorder[b]), w |-> wscale * Weight(qorder[b])]]
StaticFile == [cols |-> [k \in 1..NC |-> Name(corder[k])],
               rows |-> [a \in 1..NV |-> [v |-> Vol(rorder[a]), vals |-> [k \in 1..NC |-> Stat(rorder[a], corder[k])]]]]

\* ---- denotation: computed FROM THE FILE CONTENT, by position, the way a reader has to -----------------------------
SumW == LET RECURSIVE S(_) S(b) == IF b = 0 THEN 0 ELSE S(b-1) + WeightList[b].w IN S(NQ)
VolIndexSorted == [r \in 1..NV |-> CHOOSE a \in 1..NV : Cardinality({b \in 1..NV : PhononFile[b].v > PhononFile[a].v}) = r - 1]
DenPhonon == { [coord |-> PhononFile[1].q[b].coord,
                w |-> <<WeightList[b].w, SumW>>,               \* normalised weight as a fraction (compared cross-multiplied below)
                acoustic_first |-> (b = 1),
                branches |-> LET br(k) == [r \in 1..NV |-> PhononFile[VolIndexSorted[r]].q[b].modes[k]] IN
                             SetToBag({<<k, br(k)>> : k \in 1..NM}) ] : b \in 1..NQ }
\* bag of branches irrespective of slot; weights as reduced comparisons
BranchBag(d) == LET S == BagToSet(d.branches) IN {s[2] : s \in S}
DenP == { [coord |-> d.coord, w |-> (d.w[1] * 1000) \div d.w[2], branches |-> BranchBag(d),
           acoustic |-> IF d.acoustic_first THEN {(CHOOSE s \in BagToSet(d.branches) : s[1] = k)[2] : k \in 1..NACOUSTIC} ELSE {}] : d \in DenPhonon }
DenS == { <<StaticFile.rows[a].v, Canon(StaticFile.cols[k]), StaticFile.rows[a].vals[k]>> : a \in 1..NV, k \in 1..NC }
Den == <<DenP, DenS>>

Id(n) == [i \in 1..n |-> i]
PInit == /\ vorder = Id(NV) /\ qorder = Id(NQ) /\ morder = [q \in 1..NQ |-> Id(NM)] /\ wscale = 1
         /\ corder = Id(NC) /\ upper = FALSE /\ rorder = Id(NV) /\ hist = <<>>


\* ---- admissible re-presentations -------------------------------------------------------------------------------
PermQ == \E p \in Perms(NQ) : p[1] = 1 /\ p # qorder /\ qorder' = p /\ hist' = Append(hist, <<"PermQ", p>>)
         /\ UNCHANGED <<vorder, morder, wscale, corder, upper, rorder>>
\* modes within a q-point, consistently at every volume; at Gamma only among the non-acoustic slots
PermM == \E q \in 1..NQ : \E p \in Perms(NM) : (q = 1 => \A k \in 1..NACOUSTIC : p[k] = k) /\ p # morder[q]
         /\ morder' = [morder EXCEPT ![q] = p] /\ hist' = Append(hist, <<"PermM", q, p>>)
         /\ UNCHANGED <<vorder, qorder, wscale, corder, upper, rorder>>
ScaleW == \E c \in {2, 5} : wscale = 1 /\ wscale' = c /\ hist' = Append(hist, <<"ScaleW", c>>)
         /\ UNCHANGED <<vorder, qorder, morder, corder, upper, rorder>>
PermCol == \E p \in Perms(NC) : p # corder /\ corder' = p /\ hist' = Append(hist, <<"PermCol", p>>)
         /\ UNCHANGED <<vorder, qorder, morder, wscale, upper, rorder>>
Upper == ~upper /\ upper' = TRUE /\ hist' = Append(hist, <<"Upper">>)
         /\ UNCHANGED <<vorder, qorder, morder, wscale, corder, rorder>>
PermRow == \E p \in Perms(NV) : p # rorder /\ rorder' = p /\ hist' = Append(hist, <<"PermRow", p>>)
         /\ UNCHANGED <<vorder, qorder, morder, wscale, corder, upper>>
\* volume blocks of the phonon file in another order: same denotation; an implementation may also REJECT such a file
ReorderVol == \E p \in Perms(NV) : p # vorder /\ vorder' = p /\ hist' = Append(hist, <<"ReorderVol", p>>)
         /\ UNCHANGED <<qorder, morder, wscale, corder, upper, rorder>>
PNext == PermQ \/ PermM \/ ScaleW \/ PermCol \/ Upper \/ PermRow \/ ReorderVol
PSpec == PInit /\ [][PNext]_pvars
PView == <<vorder, qorder, morder, wscale, corder, upper, rorder>>

\* the denotation never changes
DenInvariant == [][Den' = Den]_pvars
MaxActs == 4
Bound == Len(hist) <= MaxActs
EmitHist == Len(hist) < MaxActs \/ PrintT(<<"HIST", hist>>)

\* ---- model sanity: tempting WRONG re-presentations change the denotation --------------------------------------------
\* (a) permuting the modes at ONE volume only  (b) permuting q-points without their weights  (c) moving Gamma
WrongChanges ==
  LET F1 == [a \in 1..NV |-> [v |-> Vol(a), modes |-> [k \in 1..NM |-> Freq(a, 2, IF a = 1 THEN (IF k = 1 THEN 2 ELSE IF k = 2 THEN 1 ELSE k) ELSE k)]]]
      F0 == [a \in 1..NV |-> [v |-> Vol(a), modes |-> [k \in 1..NM |-> Freq(a, 2, k)]]]
      Br(F) == {[r \in 1..NV |-> F[r].modes[k]] : k \in 1..NM}
  IN Br(F1) # Br(F0)
ASSUME WrongChanges
=============================================================================
