SPECIFICATION QSpec
INVARIANT OneRule
INVARIANT Formed
INVARIANT RoundTrip
INVARIANT Unambiguous
INVARIANT Axes
INVARIANT EmitPic
