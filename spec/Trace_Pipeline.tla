---------------------------- MODULE Trace_Pipeline ----------------------------
(* The order in which a real Calculator construction runs its stages must be  *)
(* a behaviour of Pipeline (each stage once, only after what it reads exists; *)
(* in particular the symmetry fill before the static interpolation).          *)
(* One NDJSON record per stage: {stage}.  "Reset" starts a new calculation.   *)
EXTENDS Pipeline, Json, IOUtils
Tr == ndJsonDeserialize(IOEnv.TRACE_FILE)
VARIABLE i
Is(n) == i < Len(Tr) /\ Tr[i+1].stage = n /\ i' = i + 1
St(n, A) == Is(n) /\ A
TNext == \/ St("loaded", Load) \/ St("filled", Fill) \/ St("interpolated", Interp) \/ St("qha", Qha)
         \/ St("pstatic", PStatic) \/ St("strains", Strains) \/ St("phonon", Phonon) \/ St("static", Static)
         \/ St("summed", Sum) \/ St("done", Derived)
         \/ (Is("Reset") /\ "done" \in ran /\ stage' = "start" /\ prov' = [x \in {} |-> {}] /\ ran' = {})
TraceSpec == PInit /\ i = 0 /\ [][TNext]_<<pvars, i>>
Accepted == TLCGet("stats").diameter - 1 = Len(Tr)
=============================================================================
