SPECIFICATION SpecC03
INVARIANT SpectrumOK
INVARIANT CountIsMult
INVARIANT TargetNotRequested
INVARIANT TargetExact
INVARIANT RotSym
INVARIANT TracePreserved
INVARIANT DepsShallow
