-------------------------------- MODULE Formats --------------------------------
(***************************************************************************)
(* Line-oriented readers as state machines (cij/io/traditional):           *)
(*   input01  (read_energy / write_energy)                                 *)
(*   elast.dat (read_elast_data)                                           *)
(* A document is a sequence of typed lines; payload integers encode where  *)
(* they came from, so that an off-by-one, a dropped last item or a         *)
(* mis-paired weight shows in the parsed value.  TLC feeds every small     *)
(* document line by line through the reader machine and checks that the    *)
(* final parse is the document that was written (Read(Write(d)) = d).      *)
(***************************************************************************)
EXTENDS Integers, Sequences, FiniteSets, TLC, Json, IOUtils

\* ---------------------------------------------------------------- input01
\* abstract data set: counts and payloads P(i), V(i), E(i), coordinate C(i,q), frequency F(i,q,m), weight W(q)
PV(i) == 100 + i     VV(i) == 200 + i     EV(i) == 300 + i
CQ(q) == 400 + q     FQ(i,q,m) == 1000 * i + 10 * q + m     WQ(q) == 500 + q
WriteInput01(nv, nq, np, preamble, gaps) ==
  LET head == [k \in 1..preamble |-> <<"text">>] \o << <<"counts", nv, nq, np>> >>
      Vol(i) == [k \in 1..gaps |-> <<"blank">>] \o << <<"pve", PV(i), VV(i), EV(i)>> >>
                \o LET RECURSIVE Q(_) Q(q) == IF q > nq THEN <<>> ELSE
                         << <<"coord", CQ(q)>> >> \o [m \in 1..np |-> <<"mode", FQ(i,q,m)>>] \o Q(q+1) IN Q(1)
      RECURSIVE Vols(_) Vols(i) == IF i > nv THEN <<>> ELSE Vol(i) \o Vols(i+1)
  IN head \o Vols(1) \o << <<"blank">>, <<"weighthdr">> >> \o [q \in 1..nq |-> <<"weight", CQ(q), WQ(q)>>]

VARIABLES doc,      \* the lines being read
          pos,      \* next line
          phase,    \* "seek_counts" | "volumes" | "seek_weights" | "weights" | "done" | "error"
          cnt,      \* <<nv, nq, np>> once known
          iv, iq, im,   \* progress inside the volume blocks (what is expected next)
          parsed    \* accumulated result
fvars == <<doc, pos, phase, cnt, iv, iq, im, parsed>>
Line == doc[pos]
Empty == [vols |-> <<>>, weights |-> <<>>]

SpecDocs == {WriteInput01(nv, nq, np, pre, g) : nv \in 1..2, nq \in 1..2, np \in {1, 2}, pre \in {0, 2}, g \in {0, 1}}
\* documents under test: the specification's own, or (conformance) files produced by the real writer, tokenised by the harness
DocFile == JsonDeserialize(IOEnv.DOCFILE)
Docs == IF "DOCFILE" \in DOMAIN IOEnv THEN {DocFile[n] : n \in 1..Len(DocFile)} ELSE SpecDocs
FInit == doc \in Docs /\ pos = 1 /\ phase = "seek_counts" /\ cnt = <<0,0,0>> /\ iv = 1 /\ iq = 0 /\ im = 0 /\ parsed = Empty
More == pos <= Len(doc)
Adv == pos' = pos + 1 /\ UNCHANGED doc

\* skip lines until the five-integer counts line
SeekCounts == /\ phase = "seek_counts" /\ More /\ Adv
              /\ IF Line[1] = "counts" THEN phase' = "volumes" /\ cnt' = <<Line[2], Line[3], Line[4]>>
                 ELSE UNCHANGED <<phase, cnt>>
              /\ UNCHANGED <<iv, iq, im, parsed>>
\* volume blocks: blank lines before P/V/E are skipped; then nq x (coordinate + np modes)
NextExpect == IF iq = 0 THEN "pve" ELSE IF im = 0 THEN "coord" ELSE "mode"
ReadVolumes ==
  /\ phase = "volumes" /\ More /\ Adv /\ UNCHANGED cnt
  /\ CASE NextExpect = "pve" /\ Line[1] = "blank" -> UNCHANGED <<phase, iv, iq, im, parsed>>
       [] NextExpect = "pve" /\ Line[1] = "pve" ->
            /\ parsed' = [parsed EXCEPT !.vols = Append(@, [p |-> Line[2], v |-> Line[3], e |-> Line[4], q |-> <<>>])]
            /\ iq' = 1 /\ im' = 0 /\ UNCHANGED <<phase, iv>>
       [] NextExpect = "coord" /\ Line[1] = "coord" ->
            /\ parsed' = [parsed EXCEPT !.vols[iv].q = Append(@, [coord |-> Line[2], modes |-> <<>>])]
            /\ im' = 1 /\ UNCHANGED <<phase, iv, iq>>
       [] NextExpect = "mode" /\ Line[1] = "mode" ->
            /\ parsed' = [parsed EXCEPT !.vols[iv].q[iq].modes = Append(@, Line[2])]
            /\ IF im < cnt[3] THEN im' = im + 1 /\ UNCHANGED <<phase, iv, iq>>
               ELSE IF iq < cnt[2] THEN iq' = iq + 1 /\ im' = 0 /\ UNCHANGED <<phase, iv>>
               ELSE IF iv < cnt[1] THEN iv' = iv + 1 /\ iq' = 0 /\ im' = 0 /\ UNCHANGED phase
               ELSE phase' = "seek_weights" /\ UNCHANGED <<iv, iq, im>>
       [] OTHER -> phase' = "error" /\ UNCHANGED <<iv, iq, im, parsed>>
SeekWeights == /\ phase = "seek_weights" /\ More /\ Adv
               /\ phase' = IF Line[1] = "weighthdr" THEN "weights" ELSE phase
               /\ UNCHANGED <<cnt, iv, iq, im, parsed>>
ReadWeights == /\ phase = "weights" /\ More /\ Adv
               /\ IF Line[1] = "weight"
                  THEN /\ parsed' = [parsed EXCEPT !.weights = Append(@, <<Line[2], Line[3]>>)]
                       /\ phase' = IF Len(parsed.weights) + 1 = cnt[2] THEN "done" ELSE phase
                  ELSE phase' = "error" /\ UNCHANGED parsed
               /\ UNCHANGED <<cnt, iv, iq, im>>
FNext == SeekCounts \/ ReadVolumes \/ SeekWeights \/ ReadWeights
FSpec == FInit /\ [][FNext]_fvars /\ WF_fvars(FNext)

\* the expected parse of the document under consideration (recovered from its counts line)
Counts(d) == LET k == CHOOSE n \in 1..Len(d) : d[n][1] = "counts" IN <<d[k][2], d[k][3], d[k][4]>>
Expected(d) == LET c == Counts(d) IN
  [vols |-> [i \in 1..c[1] |-> [p |-> PV(i), v |-> VV(i), e |-> EV(i),
                                q |-> [q \in 1..c[2] |-> [coord |-> CQ(q), modes |-> [m \in 1..c[3] |-> FQ(i,q,m)]]]]],
   weights |-> [q \in 1..c[2] |-> <<CQ(q), WQ(q)>>]]
RoundTrip == phase = "done" => parsed = Expected(doc) /\ cnt = Counts(doc)
NoError == phase # "error"
\* weights stay paired with the q-point coordinates of the volume blocks
WeightsPaired == phase = "done" => \A q \in 1..cnt[2] : parsed.weights[q][1] = parsed.vols[1].q[q].coord
Finishes == <>(phase = "done")

\* ---------------------------------------------------------------- elast.dat (static table): pure function on documents
\* lines: comment, head(vref, nv, mass), names, nv rows, [lattice header, nv lattice rows]
ElastDoc(nv, ncol, lat) == << <<"comment">>, <<"head", 900, nv, 77>>, <<"names", ncol>> >>
     \o [i \in 1..nv |-> <<"row", VV(i), [c \in 1..ncol |-> 10 * i + c]>>]
     \o (IF lat THEN << <<"lathdr">> >> \o [i \in 1..nv |-> <<"lat", 600 + i>>] ELSE <<>>)
ParseElast(d) == LET nv == d[2][3] IN
  [vref |-> d[2][2], nv |-> nv, mass |-> d[2][4], ncol |-> d[3][2],
   rows |-> [i \in 1..nv |-> <<d[3+i][2], d[3+i][3]>>],
   lattice |-> IF Len(d) > 3 + nv /\ d[4+nv][1] # "blank" THEN [i \in 1..nv |-> d[4+nv+i][2]] ELSE <<>>]
ASSUME \A nv \in 1..3, ncol \in 1..3, lat \in BOOLEAN :
   LET p == ParseElast(ElastDoc(nv, ncol, lat)) IN
     /\ p.vref = 900 /\ p.nv = nv /\ p.mass = 77
     /\ \A i \in 1..nv : p.rows[i] = <<VV(i), [c \in 1..ncol |-> 10 * i + c]>>
     /\ p.lattice = (IF lat THEN [i \in 1..nv |-> 600 + i] ELSE <<>>)
=============================================================================
