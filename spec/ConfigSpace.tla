------------------------------ MODULE ConfigSpace ------------------------------
(***************************************************************************)
(* The space of valid configurations C12 quantifies over: interpolator x   *)
(* admissible order (Interp!Adm) x crystal system (or none, with mixed     *)
(* shear components) x temperature-grid class x lattice block.  One state  *)
(* per configuration; the simulator samples it, the exhaustive run         *)
(* enumerates it.                                                          *)
(***************************************************************************)
EXTENDS Interp

NVs == {5, 8, 12}                             \* number of sampled volumes of the generated data sets
SystemsOrNone == {"none", "triclinic", "monoclinic", "orthorhombic", "tetragonal7", "tetragonal6", "trigonal7", "trigonal6", "hexagonal", "cubic"}
TMins == {"0", "0.5", "1", "300"}             \* (strings: the values are used by the harness, not by TLC arithmetic)
DTs == {"0.5", "5", "100", "500"}
\* secondary settings (every combination with every configuration below is valid; the harness draws them per configuration
\* instead of TLC multiplying the enumeration by 27): number of temperatures, order of the QHA equation-of-state fit,
\* volume-range expansion ratio
NTs == {1, 2, 6}
QOrders == {3, 4, 5}
VRatios == {"1.05", "1.2", "1.45"}
\* a settings file may leave the interpolator and/or the order to the packaged defaults; a configuration whose value equals the
\* default may therefore be WRITTEN without it (same effective configuration, another file)
DefaultModeGamma == [interp |-> "lsq_poly", order |-> 3]
ASSUME PrintT(<<"AUX", NTs, QOrders, VRatios, DefaultModeGamma>>)
VARIABLES cfg
Configs == [interp : Methods, order : 1..11, nv : NVs, system : SystemsOrNone, tmin : TMins, dt : DTs, lattice : BOOLEAN]
ValidCfg(c) == Adm(c.interp, c.order, c.nv)
CInit == cfg \in {c \in Configs : ValidCfg(c)}
CNext == UNCHANGED cfg
SpecCS == CInit /\ [][CNext]_cfg
Emit == PrintT(<<"CFG", cfg>>)
AlwaysValid == ValidCfg(cfg)
=============================================================================
