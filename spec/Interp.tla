-------------------------------- MODULE Interp --------------------------------
(***************************************************************************)
(* Mode interpolation (cij/core/mode_gamma.py): for every (q,m) column the *)
(* sampled ln(omega) versus x = ln V is replaced by ONE interpolant p(x)    *)
(* and the triple  (omega, gamma, V dgamma/dV) = (e^p, -p', -p'')  is       *)
(* returned on the finer volume grid.                                       *)
(*  - Adm(method, order, nv): the documented admissible orders;             *)
(*  - Nodes(method, order, nv): which sampled volumes the node-based        *)
(*    methods use (every interval-th volume, interval = ceil(nv/order));    *)
(*  - Triple(p): the triple as polynomial normal forms (module Poly) for a  *)
(*    polynomial p, i.e. in-class exactness;                                *)
(*  - PlotQuantity(n): what the diagnostic plot draws for n = 0,1,2.        *)
(***************************************************************************)
EXTENDS Poly, TLC

Methods == {"spline", "lsq_poly", "lagrange", "krogh", "pchip", "hermite", "akima"}
NodeBased == {"lagrange", "krogh", "pchip", "hermite", "akima"}
CeilDiv(a, b) == (a + b - 1) \div b
Interval(order, nv) == CeilDiv(nv, order)
Nodes(order, nv) == {n \in 1..nv : (n - 1) % Interval(order, nv) = 0}        \* mode_volumes[::interval], 1-based
Adm(method, order, nv) ==
  CASE method = "spline"   -> order \in 2..5 /\ order < nv
    [] method = "lsq_poly" -> order \in 1..5 /\ order < nv
    [] method \in NodeBased -> order >= 2 /\ order < nv /\ Cardinality(Nodes(order, nv)) >= 2
                               /\ (method = "akima" => Cardinality(Nodes(order, nv)) >= 3)    \* Akima needs three points
\* the interpolant is exact for ln(omega) polynomial in ln V of this degree (on the whole extrapolated grid)
ExactDegree(method, order, nv) ==
  CASE method = "lsq_poly" -> order
    [] method = "lagrange" -> Cardinality(Nodes(order, nv)) - 1
    [] method = "krogh"    -> Cardinality(Nodes(order, nv)) - 1
    [] method = "spline"   -> 1          \* smoothing spline: reproduces straight lines
    [] OTHER               -> 1          \* piecewise cubic Hermite families: straight lines

\* p(x) = sum c_i x^i with rational coefficients given as a sequence <<c0, c1, ...>>
PolyOf(cs) == PSumSeq([i \in 1..Len(cs) |-> PTerm(cs[i], AtomPow("x", i - 1))])
DX == [a \in {"x"} |-> POne]
Triple(cs) == LET p == PolyOf(cs) IN [lnw |-> p, gamma |-> PNeg(Deriv(p, DX)), vdgdv |-> PNeg(Deriv(Deriv(p, DX), DX))]

PlotQuantity(n) == CASE n = 0 -> "omega" [] n = 1 -> "gamma" [] n = 2 -> "vdgdv"
=============================================================================
