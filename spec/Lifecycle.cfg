SPECIFICATION LSpec
VIEW LView
CONSTRAINT Bound
INVARIANT ObsLaw
INVARIANT CliLaw
PROPERTY SharedFrozen
PROPERTY WdFrozen
PROPERTY CalcsStable
