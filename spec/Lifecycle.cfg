SPECIFICATION LSpec
VIEW LView
CONSTRAINT Bound
INVARIANT ObsLaw
PROPERTY SharedFrozen
PROPERTY WdFrozen
PROPERTY CalcsStable
