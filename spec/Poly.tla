-------------------------------- MODULE Poly --------------------------------
(***************************************************************************)
(* Sparse Laurent polynomials with rational coefficients over named atoms. *)
(*   monomial   : function atom -> non-zero Int  (only atoms that occur)   *)
(*   polynomial : function monomial -> non-zero Rat                        *)
(* Both are normal forms, so TLC value equality is equality of polynomials *)
(* (for all real values of the atoms).  Deriv(p, D) is the derivation that *)
(* maps atom x to the polynomial D[x] (atoms outside DOMAIN D: constants). *)
(***************************************************************************)
EXTENDS Rat, FiniteSets, FiniteSetsExt, Sequences

MonoOne == [x \in {} |-> 0]
Atom(x) == [y \in {x} |-> 1]
AtomPow(x,n) == IF n = 0 THEN MonoOne ELSE [y \in {x} |-> n]
Exp(m,x) == IF x \in DOMAIN m THEN m[x] ELSE 0
MonoMul(a,b) == LET D == {x \in (DOMAIN a) \cup (DOMAIN b) : Exp(a,x) + Exp(b,x) # 0}
                IN [x \in D |-> Exp(a,x) + Exp(b,x)]

PZero == [m \in {} |-> R0]
PTerm(c,m) == IF c = R0 THEN PZero ELSE [mm \in {m} |-> c]
PConst(n,d) == PTerm(RQ(n,d), MonoOne)
POne == PConst(1,1)
PAtom(x) == PTerm(R1, Atom(x))
PAtomPow(x,n) == PTerm(R1, AtomPow(x,n))
Coef(p,m) == IF m \in DOMAIN p THEN p[m] ELSE R0
PAdd(p,q) == LET D == {m \in (DOMAIN p) \cup (DOMAIN q) : RAdd(Coef(p,m), Coef(q,m)) # R0}
             IN [m \in D |-> RAdd(Coef(p,m), Coef(q,m))]
PNeg(p) == [m \in DOMAIN p |-> RNeg(p[m])]
PSub(p,q) == PAdd(p, PNeg(q))
PScale(c,p) == IF c = R0 THEN PZero ELSE [m \in DOMAIN p |-> RMul(c, p[m])]
\* product with one term: monomial multiplication is injective, so this is a re-keying
PMulTerm(c,mm,p) == IF c = R0 THEN PZero ELSE
   LET S == {<<MonoMul(mm,m), RMul(c,p[m])>> : m \in DOMAIN p}
   IN [m2 \in {s[1] : s \in S} |-> (CHOOSE s \in S : s[1] = m2)[2]]
PMul(p,q) == FoldSet(LAMBDA m, acc : PAdd(acc, PMulTerm(p[m], m, q)), PZero, DOMAIN p)
RECURSIVE PPow(_,_)
PPow(p,n) == IF n = 0 THEN POne ELSE PMul(p, PPow(p, n-1))
PSum(S) == FoldSet(LAMBDA p, acc : PAdd(acc, p), PZero, S)      \* S: a set of polynomials (duplicates collapse!)
PSumSeq(s) == LET RECURSIVE F(_) F(i) == IF i = 0 THEN PZero ELSE PAdd(F(i-1), s[i]) IN F(Len(s))

Deriv(p,D) == FoldSet(LAMBDA m, acc :
                FoldSet(LAMBDA x, acc2 :
                   IF x \in DOMAIN D
                   THEN PAdd(acc2, PMulTerm(RMul(p[m], RI(m[x])), MonoMul(m, AtomPow(x,-1)), D[x]))
                   ELSE acc2, acc, DOMAIN m),
              PZero, DOMAIN p)

\* substitute atom x by polynomial r (x must occur with non-negative exponents only)
Subst(p,x,r) == FoldSet(LAMBDA m, acc :
                  LET e == Exp(m,x)
                      rest == [y \in (DOMAIN m) \ {x} |-> m[y]]
                  IN PAdd(acc, PMulTerm(p[m], rest, PPow(r, e))), PZero, DOMAIN p)

\* JSON-friendly rendering: set of [c |-> <<n,d>>, m |-> set of <<atom, exp>>]
PExport(p) == {[c |-> p[m], m |-> {<<x, m[x]>> : x \in DOMAIN m}] : m \in DOMAIN p}
=============================================================================
