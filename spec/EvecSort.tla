-------------------------------- MODULE EvecSort --------------------------------
(***************************************************************************)
(* Greedy assignment of cij/misc/evec_sort.py: m[r][c] = |<base_r|target_c>|;*)
(* n times: pick the row-major-first maximum of m, zero its row and column, *)
(* put item c at position r.  TLC runs the machine on every small integer   *)
(* matrix and checks: (1) if the overlaps are a dominant permutation the     *)
(* result is that permutation; (2) if no pick ever faces an all-zero        *)
(* remainder the result is a permutation of the items.                      *)
(* Also: the line structure of a matdyn eigenvector file (evec_load).       *)
(***************************************************************************)
EXTENDS Integers, Sequences, FiniteSets, TLC, Json, IOUtils

CONSTANTS N, MaxEntry
Idx == 1..N
Mats == [Idx -> [Idx -> 0..MaxEntry]]
Perms == {p \in [Idx -> Idx] : \A i, j \in Idx : i # j => p[i] # p[j]}

VARIABLES m0, m, out, k, zeroFaced
svars == <<m0, m, out, k, zeroFaced>>
MaxOf(a) == CHOOSE x \in {a[r][c] : r \in Idx, c \in Idx} : \A r \in Idx, c \in Idx : a[r][c] <= x
\* numpy.argmax on the flattened array: first maximum in row-major order
FirstMax(a) == LET mx == MaxOf(a)
                   pos == {<<r, c>> \in Idx \X Idx : a[r][c] = mx}
               IN CHOOSE p \in pos : \A q \in pos : p[1] < q[1] \/ (p[1] = q[1] /\ p[2] <= q[2])
\* DomOnly: restrict the initial matrices to the dominant-permutation class (entry MaxEntry on a permutation, smaller elsewhere)
CONSTANT DomOnly
DomMat(s, o) == [r \in Idx |-> [c \in Idx |-> IF c = s[r] THEN MaxEntry ELSE o[r][c]]]
SInit == /\ IF DomOnly THEN \E s \in Perms : \E o \in [Idx -> [Idx -> 0..(MaxEntry - 1)]] : m0 = DomMat(s, o) ELSE m0 \in Mats
         /\ m = m0 /\ out = [r \in Idx |-> 0] /\ k = 0 /\ zeroFaced = FALSE
Pick == /\ k < N
        /\ LET p == FirstMax(m) IN
             /\ zeroFaced' = (zeroFaced \/ m[p[1]][p[2]] = 0)
             /\ m' = [r \in Idx |-> [c \in Idx |-> IF r = p[1] \/ c = p[2] THEN 0 ELSE m[r][c]]]
             /\ out' = [out EXCEPT ![p[1]] = p[2]]
        /\ k' = k + 1 /\ UNCHANGED m0
SSpec == SInit /\ [][Pick]_svars

Dominant(a, s) == \A r \in Idx : /\ \A c \in Idx \ {s[r]} : a[r][c] < a[r][s[r]]
                                 /\ \A r2 \in Idx \ {r} : a[r2][s[r]] < a[r][s[r]]
\* (1) dominant permutation recovered
DominantRecovered == k = N => \A s \in Perms : Dominant(m0, s) => out = s
\* (2) a permutation whenever no pick faced an all-zero remainder
PermutationUnlessZero == (k = N /\ ~zeroFaced) => out \in Perms
\* every pick removes one row and one column from play
Progress == \A r \in Idx : (out[r] # 0) => \A c \in Idx : m[r][c] = 0
DomPerm == IF \E s \in Perms : Dominant(m0, s) THEN CHOOSE s \in Perms : Dominant(m0, s) ELSE <<>>
EmitFinal == k < N \/ PrintT(<<"SORT", m0, out, zeroFaced, DomPerm>>)

\* ---------------------------------------------------------------- matdyn eigenvector file layout (evec_load)
\* per q-point: 2 lines, the q line, 1 line, then np x (frequency line + np/3 vector lines), then 1 line
EigFile(nq, np) == LET Block(q) == << <<"rule">>, <<"blank">>, <<"q", q>>, <<"rule">> >>
                                  \o LET RECURSIVE Md(_) Md(l) == IF l > np THEN <<>> ELSE
                                           << <<"freq", q, l>> >> \o [a \in 1..(np \div 3) |-> <<"vec", q, l, a>>] \o Md(l+1) IN Md(1)
                                  \o << <<"rule">> >>
                       RECURSIVE Bl(_) Bl(q) == IF q > nq THEN <<>> ELSE Block(q) \o Bl(q+1)
                   IN Bl(1)
ASSUME \A nq \in 1..2, np \in {3, 6} : Len(EigFile(nq, np)) = nq * (5 + np * (1 + np \div 3))
ASSUME "OUTD" \in DOMAIN IOEnv => JsonSerialize(IOEnv.OUTD \o "/c20_eig.json", [files |-> {[nq |-> a, np |-> b, lines |-> EigFile(a, b)] : a \in 1..2, b \in {3, 6}}])
=============================================================================
