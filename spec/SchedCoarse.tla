------------------------------ MODULE SchedCoarse ------------------------------
(***************************************************************************)
(* Coarse model of the phonon-task assembly: the state is the SET of       *)
(* requested components; requesting one more adds the dependency closure   *)
(* of its root task.  Every subset of the pool is a reachable state (2^21  *)
(* for the full pool), and the invariants say what the fine-grained        *)
(* work-list machine (TaskScheduler, invariant Final) must end with:       *)
(*   tasks = closure of the requested roots - whatever the order of        *)
(*   requests - and the closure of a component does not depend on what     *)
(*   else is requested.  Instance: the literal data module SchedData.      *)
(***************************************************************************)
EXTENDS Integers, FiniteSets, Bags, TLC, SchedData
CONSTANT PoolC
DepSet(t) == DOMAIN DepBagOf[t]
RECURSIVE ClosureOf(_)
ClosureOf(S) == LET N == S \cup UNION {DepSet(t) : t \in S} IN IF N = S THEN S ELSE ClosureOf(N)
\* closure of every single root, evaluated once
ClosureTab == TLCEval([k \in AllKeyStrs |-> ClosureOf({RootOf[k]})])

VARIABLES requested, tasks
cv == <<requested, tasks>>
CInit == requested = {} /\ tasks = {}
Request(k) == k \notin requested /\ requested' = requested \cup {k} /\ tasks' = tasks \cup ClosureTab[k]
CNext == \E k \in PoolC : Request(k)
CSpec == CInit /\ [][CNext]_cv

\* what resolve() must end with, for this request set (TaskScheduler!Final refines this)
ClosureExact == tasks = ClosureOf({RootOf[k] : k \in requested})
\* every requested component has its root task, and everything a present task depends on is present
CompleteC == {RootOf[k] : k \in requested} \subseteq tasks /\ \A t \in tasks : DepSet(t) \subseteq tasks
\* the tasks a component needs do not depend on the other requests
RequestIndependentC == \A k \in requested : ClosureTab[k] \subseteq tasks /\ ClosureTab[k] = ClosureOf({RootOf[k]})
\* the dependency relation on the whole task universe is acyclic with chains of at most two edges
ASSUME \A t \in AllTasks : t \notin DepSet(t)
ASSUME \A a \in AllTasks : \A b \in DepSet(a) : \A c \in DepSet(b) : DepSet(c) = {}
=============================================================================
