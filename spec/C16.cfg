SPECIFICATION Spec16
INVARIANT UserLeavesKept
INVARIANT DefaultsFill
INVARIANT NoStrayKeys
INVARIANT Idempotent
INVARIANT Identities
INVARIANT NestLaw
