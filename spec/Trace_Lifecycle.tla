--------------------------- MODULE Trace_Lifecycle ---------------------------
(***************************************************************************)
(* Validation of process histories recorded from real interpreter          *)
(* processes.  The trace starts with Ref events (digests of one fresh      *)
(* reference run per configuration), followed by processes: a Start event  *)
(* (environment, shared-state digest) and the actions with the digest each *)
(* one observed, the digest of the shared module state afterwards and the  *)
(* digests of every OTHER live calculator's cached results.                *)
(***************************************************************************)
EXTENDS Integers, Sequences, FiniteSets, Json, IOUtils, TLC

Tr == ndJsonDeserialize(IOEnv.TRACE_FILE)
VARIABLES i, ref, sharedRef, live, sharedNow, disk
tvars == <<i, ref, sharedRef, live, sharedNow, disk>>
E == Tr[i+1]
Is(ev) == i < Len(Tr) /\ E.ev = ev /\ i' = i + 1
Key(c, q) == <<c, q>>

Paths == {"A", "B", "C"}
TInit == i = 0 /\ ref = [k \in {} |-> ""] /\ sharedRef = "" /\ live = [k \in {} |-> ""] /\ sharedNow = "" /\ disk = [c \in Paths |-> c]
\* inside a process every event is logged with the process's working directory: it must still be the one it started in
Home == E.wd = "start"
\* reference observations (fresh process, seed 0, empty working directory)
TRef == Is("Ref") /\ Key(E.cfg, E.q) \notin DOMAIN ref
        /\ ref' = [k \in (DOMAIN ref) \cup {Key(E.cfg, E.q)} |-> IF k = Key(E.cfg, E.q) THEN E.digest ELSE ref[k]]
        /\ sharedRef' = (IF sharedRef = "" THEN E.shared ELSE sharedRef) /\ (sharedRef # "" => E.shared = sharedRef)
        /\ UNCHANGED <<live, sharedNow, disk>>
\* a new process starts: no calculators, the shared state is the reference one whatever the seed / directory
TStart == Is("Start") /\ E.shared = sharedRef /\ live' = [k \in {} |-> ""] /\ sharedNow' = E.shared /\ disk' = [c \in Paths |-> c]
          /\ UNCHANGED <<ref, sharedRef>>
\* the calculator constructed from path E.cfg is the data set that path holds now (Lifecycle!Construct); "A2" / "C2" name the second
\* settings file in the directory of A / C: the same input files (whatever that directory holds now) under the variant settings
IsAlt(c) == c \in {"A2", "C2"}
Dir(c) == IF c = "A2" THEN "A" ELSE IF c = "C2" THEN "C" ELSE c
Held(c) == IF IsAlt(c) THEN disk[Dir(c)] \o "2" ELSE disk[c]
TConstruct == Is("Construct") /\ E.id \notin DOMAIN live /\ Home
              /\ live' = [k \in (DOMAIN live) \cup {E.id} |-> IF k = E.id THEN Held(E.cfg) ELSE live[k]]
              /\ E.shared = sharedNow /\ UNCHANGED <<ref, sharedRef, sharedNow, disk>>
TRewrite == Is("Rewrite") /\ Home /\ disk' = [disk EXCEPT ![E.path] = E.data] /\ E.shared = sharedNow
            /\ UNCHANGED <<ref, sharedRef, live, sharedNow>>
\* any observation equals the reference observation of the calculator's configuration; shared state untouched
TObserve == Is("Observe") /\ E.id \in DOMAIN live /\ Home
            /\ Key(live[E.id], E.q) \in DOMAIN ref /\ E.digest = ref[Key(live[E.id], E.q)]
            /\ E.shared = sharedNow
            /\ UNCHANGED <<ref, sharedRef, live, sharedNow, disk>>
TNext == TRef \/ TStart \/ TConstruct \/ TRewrite \/ TObserve
TraceSpec == TInit /\ [][TNext]_tvars
Accepted == TLCGet("stats").diameter - 1 = Len(Tr)
=============================================================================
