SPECIFICATION SpecCS
INVARIANT AlwaysValid
INVARIANT Emit
