SPECIFICATION MSpec
CONSTANTS
  NP = 3
  NV = 3
  Variant = "sorted"
INVARIANT Tracked
INVARIANT Permuted
