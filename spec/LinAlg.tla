------------------------------- MODULE LinAlg -------------------------------
(* Exact linear algebra over the rationals (module Rat): matrices are        *)
(* sequences of rows, rows are sequences of Rat of equal length.             *)
EXTENDS Rat, Sequences, FiniteSets, TLC
\* NB: TLC builds function values lazily and re-evaluates them at every application; every vector/matrix that is used
\* more than once is therefore forced with TLCEval (without it the elimination is exponential in the depth).

RowScale(c, r) == TLCEval([j \in DOMAIN r |-> RMul(c, r[j])])
RowAxpy(c, r, s) == TLCEval([j \in DOMAIN r |-> RAdd(s[j], RMul(c, r[j]))])      \* s + c r
RowZero(r) == \A j \in DOMAIN r : r[j] = R0
Dot(r, x) == LET RECURSIVE D(_) D(j) == IF j = 0 THEN R0 ELSE RAdd(D(j-1), RMul(r[j], x[j])) IN D(Len(r))

\* reduced row echelon form: returns [rows |-> sequence of non-zero rows, piv |-> sequence of pivot columns]
RECURSIVE RrefFrom(_,_,_,_,_)
RrefFrom(rows, c, n, done, piv) ==
  IF c > n \/ rows = <<>> THEN [rows |-> done, piv |-> piv]
  ELSE LET idx == {i \in 1..Len(rows) : rows[i][c] # R0} IN
       IF idx = {} THEN RrefFrom(rows, c+1, n, done, piv)
       ELSE LET p  == CHOOSE i \in idx : \A k \in idx : i <= k
                pr == RowScale(RInv(rows[p][c]), rows[p])
                rest == TLCEval([i \in 1..(Len(rows)-1) |-> LET r == rows[IF i < p THEN i ELSE i+1] IN RowAxpy(RNeg(r[c]), pr, r)])
                keep == SelectSeq(rest, LAMBDA r : ~RowZero(r))
                done2 == TLCEval([i \in 1..Len(done) |-> RowAxpy(RNeg(done[i][c]), pr, done[i])])
            IN RrefFrom(keep, c+1, n, Append(done2, pr), Append(piv, c))
Rref(rows, n) == RrefFrom(SelectSeq(rows, LAMBDA r : ~RowZero(r)), 1, n, <<>>, <<>>)
Rank(rows, n) == Len(Rref(rows, n).rows)

\* basis of the null space {x : rows x = 0}: one vector per free column
NullBasis(rows, n) ==
  LET E == TLCEval(Rref(rows, n))
      pivs == {E.piv[i] : i \in 1..Len(E.piv)}
      free == {c \in 1..n : c \notin pivs}
      Vec(f) == TLCEval([j \in 1..n |-> IF j = f THEN R1
                                ELSE IF j \in pivs THEN RNeg(E.rows[CHOOSE i \in 1..Len(E.piv) : E.piv[i] = j][f])
                                ELSE R0])
  IN {Vec(f) : f \in free}

\* ---------------------------------------------------------------------------------------------------------------
\* Integer matrices: fraction-free elimination on a SET of integer rows of length n (rank only).  Rows are made
\* primitive (divided by their gcd) after every step: TLC integers are 32 bit and TLC aborts on overflow.
RECURSIVE GcdRow(_,_)
GcdRow(r, j) == IF j = 0 THEN 0 ELSE Gcd(Abs(r[j]), GcdRow(r, j-1))
Prim(r) == LET g == GcdRow(r, Len(r)) IN IF g = 0 THEN r ELSE TLCEval([j \in 1..Len(r) |-> r[j] \div g])
RECURSIVE IRankFrom(_,_,_)
IRankFrom(rows, c, n) ==
  IF c > n \/ rows = {} THEN 0
  ELSE LET piv == {r \in rows : r[c] # 0} IN
       IF piv = {} THEN IRankFrom(rows, c+1, n)
       ELSE LET p == CHOOSE r \in piv : TRUE
                rest == {Prim([j \in 1..n |-> p[c]*r[j] - r[c]*p[j]]) : r \in rows \ {p}}
            IN 1 + IRankFrom({r \in rest : \E j \in 1..n : r[j] # 0}, c+1, n)
IRank(rows, n) == IRankFrom({Prim(r) : r \in {rr \in rows : \E j \in 1..n : rr[j] # 0}}, 1, n)
\* a rational row times the least common multiple of its denominators
IntRow(r) == LET RECURSIVE L(_) L(j) == IF j = 0 THEN 1 ELSE LET l == L(j-1) IN (l \div Gcd(l, r[j][2])) * r[j][2]
                 m == L(Len(r))
             IN TLCEval([j \in 1..Len(r) |-> r[j][1] * (m \div r[j][2])])
=============================================================================
