-------------------------------- MODULE C17 --------------------------------
(* C17: export of the specification's documents with their expected parse,   *)
(* for replay through the real reader.                                        *)
EXTENDS Formats
ASSUME JsonSerialize(IOEnv.OUTD \o "/c17_docs.json", [docs |-> {[doc |-> d, expected |-> Expected(d), counts |-> Counts(d)] : d \in SpecDocs}])
=============================================================================
