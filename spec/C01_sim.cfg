SPECIFICATION ObjSpec
CONSTRAINT EmitBehaviour
INVARIANT CachedRight
