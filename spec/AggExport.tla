------------------------------ MODULE AggExport ------------------------------
(* Exports SpecAgg for the shapes listed in the generated module AggShapes     *)
(* (written by the harness: Shapes == {<<nq, nat>>, ...}) and re-checks the    *)
(* aggregation theorem on each of them.                                         *)
EXTENDS Aggregate, AggShapes, Json, IOUtils
ASSUME \A s \in Shapes : AggTheorem(s[1], s[2])
ASSUME JsonSerialize(IOEnv.OUTD \o "/agg.json",
          [shapes |-> {[nq |-> s[1], nat |-> s[2], poly |-> PExport(SpecAgg(s[1], 3*s[2]))] : s \in Shapes}])
=============================================================================
