------------------------------ MODULE FloatClass ------------------------------
(***************************************************************************)
(* IEEE-754 value classes and the class transfer of the arithmetic the     *)
(* Bose factors use (nonshear.Q1, Q2).  Classes: "zero", "fin" (finite,    *)
(* non-zero, |x| < 709 where it matters), "huge" (finite, > 709: exp       *)
(* overflows), "inf", "nan".  Two transcriptions: `New` (the code as it    *)
(* is: expm1 / exp(-Q) forms) and `Old` (exp(Q) forms); the property is    *)
(* that every unmasked input class yields a finite class.                  *)
(***************************************************************************)
EXTENDS TLC

QClasses == {"zero", "fin", "huge", "inf"}         \* Q = hbar omega / k T  >= 0
Masked(q) == q \in {"zero", "inf"}                 \* Gamma acoustic (omega = 0: cleared) and T = 0 (row zeroed)
Finite(c) == c \in {"zero", "fin", "huge"}

Exp(q)    == CASE q = "zero" -> "fin" [] q = "fin" -> "fin" [] q = "huge" -> "inf" [] q = "inf" -> "inf"
ExpNeg(q) == CASE q = "zero" -> "fin" [] q = "fin" -> "fin" [] q = "huge" -> "zero" [] q = "inf" -> "zero"
Expm1(q)  == CASE q = "zero" -> "zero" [] q = "fin" -> "fin" [] q = "huge" -> "inf" [] q = "inf" -> "inf"
Expm1Neg(q) == CASE q = "zero" -> "zero" [] OTHER -> "fin"          \* e^-Q - 1 in [-1, 0)
MinusOne(c) == CASE c = "inf" -> "inf" [] c = "fin" -> "fin" [] OTHER -> c     \* (e^Q - 1): fin stays fin except at Q = 0 (handled by Expm1)
Sq(c) == CASE c = "huge" -> "huge" [] OTHER -> c
Mul(a, b) == CASE a = "nan" \/ b = "nan" -> "nan"
               [] (a = "zero" /\ b = "inf") \/ (a = "inf" /\ b = "zero") -> "nan"
               [] a = "zero" \/ b = "zero" -> "zero"
               [] a = "inf" \/ b = "inf" -> "inf"
               [] a = "huge" \/ b = "huge" -> "huge"
               [] OTHER -> "fin"
Div(a, b) == CASE a = "nan" \/ b = "nan" -> "nan"
               [] (a = "zero" /\ b = "zero") \/ (a = "inf" /\ b = "inf") -> "nan"
               [] b = "zero" -> "inf"
               [] b = "inf" -> "zero"
               [] a = "zero" -> "zero"
               [] a = "inf" -> "inf"
               [] a = "huge" -> "huge"
               [] OTHER -> "fin"

Q1New(q) == Div(q, Expm1(q))                                   \* Q / expm1(Q)
Q2New(q) == Div(Mul(Sq(q), ExpNeg(q)), Sq(Expm1Neg(q)))        \* Q^2 e^-Q / expm1(-Q)^2
ExpM1Old(q) == IF q = "zero" THEN "zero" ELSE Exp(q)           \* exp(Q) - 1
Q1Old(q) == Div(q, ExpM1Old(q))
Q2Old(q) == Div(Mul(Sq(q), Exp(q)), Sq(ExpM1Old(q)))           \* Q^2 e^Q / (e^Q - 1)^2

VARIABLE q
Init == q = "fin"
Next == q' \in QClasses
SpecFC == Init /\ [][Next]_q
BoseFinite == ~Masked(q) => Finite(Q1New(q)) /\ Finite(Q2New(q))
\* the formulation the code used before the low-temperature repair does NOT have the property (model sanity)
ASSUME \E c \in QClasses : ~Masked(c) /\ ~Finite(Q2Old(c))
Emit == PrintT(<<"BOSE", q, Q1New(q), Q2New(q)>>)
=============================================================================
