SPECIFICATION SpecC10
INVARIANT Accepted
INVARIANT InKeys
INVARIANT EqIffOrbit
INVARIANT KindAgnostic
INVARIANT RoundTrip
INVARIANT MultIsClassSize
