--------------------------- MODULE Trace_ShearAdi ---------------------------
(***************************************************************************)
(* C02, scheduler level: every evaluation of a shear-type task recorded    *)
(* from PhononContributionTaskList.calculate() must (a) read each of its   *)
(* dependencies from the ISOTHERMAL result store and (b) store an          *)
(* adiabatic value identical to the isothermal one.  Non-shear tasks read  *)
(* nothing.  One NDJSON record per evaluated task:                         *)
(*   {task, shear, reads: [[dep, store], ...], same}                       *)
(***************************************************************************)
EXTENDS Sequences, Integers, Json, IOUtils, TLC

Tr == ndJsonDeserialize(IOEnv.TRACE_FILE)
VARIABLES i, done
SeqSet(sq) == {sq[n] : n \in 1..Len(sq)}
Init == i = 0 /\ done = {}
Ok(e) == /\ e.shear => (\A r \in SeqSet(e.reads) : r[2] = "iso" /\ r[1] \in done) /\ e.same /\ Len(e.reads) > 0
         /\ ~e.shear => Len(e.reads) = 0
EvalTask == i < Len(Tr) /\ Ok(Tr[i+1]) /\ i' = i + 1 /\ done' = done \cup {Tr[i+1].task}
Next == EvalTask
TraceSpec == Init /\ [][Next]_<<i, done>>
Accepted == TLCGet("stats").diameter - 1 = Len(Tr)
=============================================================================
