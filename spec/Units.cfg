SPECIFICATION Spec
INVARIANT Reflexive
INVARIANT Symmetric
INVARIANT InverseLaw
INVARIANT Transitive
INVARIANT Cocycle
INVARIANT RealFactors
INVARIANT Faithful
