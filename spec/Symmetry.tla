------------------------------ MODULE Symmetry ------------------------------
(***************************************************************************)
(* Laue classes of the nine supported crystal systems in the standard      *)
(* setting (principal axis z, two-fold axis x where present, unique axis y *)
(* for monoclinic), as groups of proper rotations with entries in          *)
(* Q(sqrt 3), and their action on the 21-dimensional space of elastic      *)
(* tensors.  (Inversion acts trivially on a fourth-rank tensor, so the     *)
(* proper rotations of the Laue class suffice.)  This module is            *)
(* crystallography; it knows nothing about the code.                       *)
(***************************************************************************)
EXTENDS Voigt, FiniteSetsExt

\* Entries of the rotations are (a + b sqrt 3)/2 with integers a, b: stored DOUBLED as <<a, b>> (pure integer
\* arithmetic: TLC's interpreter is two orders of magnitude faster on it than on normalised rationals).
ZZ(a,b) == <<a, b>>
ZAdd(x,y) == <<x[1] + y[1], x[2] + y[2]>>
ZMul(x,y) == <<x[1]*y[1] + 3*x[2]*y[2], x[1]*y[2] + x[2]*y[1]>>
ZScale(n,x) == <<n*x[1], n*x[2]>>
Z0 == ZZ(0,0)   Z1 == ZZ(2,0)   Zm1 == ZZ(-2,0)        \* 0, 1, -1
Zh == ZZ(1,0)   Zmh == ZZ(-1,0)                         \* 1/2, -1/2
Zs == ZZ(0,1)   Zms == ZZ(0,-1)                         \* sqrt(3)/2, -sqrt(3)/2

Mat(a,b,c, d,e,f, g,h,i) == << <<a,b,c>>, <<d,e,f>>, <<g,h,i>> >>
MIdD == Mat(Z1,Z0,Z0, Z0,Z1,Z0, Z0,Z0,Z1)
Rot2y == Mat(Zm1,Z0,Z0,  Z0,Z1,Z0,  Z0,Z0,Zm1)
Rot2z == Mat(Zm1,Z0,Z0,  Z0,Zm1,Z0, Z0,Z0,Z1)
Rot2x == Mat(Z1,Z0,Z0,   Z0,Zm1,Z0, Z0,Z0,Zm1)
Rot4z == Mat(Z0,Zm1,Z0,  Z1,Z0,Z0,  Z0,Z0,Z1)
Rot3z == Mat(Zmh,Zms,Z0, Zs,Zmh,Z0, Z0,Z0,Z1)
Rot6z == Mat(Zh,Zms,Z0,  Zs,Zh,Z0,  Z0,Z0,Z1)
Rot3d == Mat(Z0,Z0,Z1,   Z1,Z0,Z0,  Z0,Z1,Z0)      \* three-fold axis along [111]

\* product of doubled matrices, doubled again: sum_k A_ik B_kj is 4x the entry, so halve (exact for these groups)
MMulD(A,B) == [i \in I3 |-> [j \in I3 |->
   LET t == ZAdd(ZAdd(ZMul(A[i][1],B[1][j]), ZMul(A[i][2],B[2][j])), ZMul(A[i][3],B[3][j]))
   IN <<t[1] \div 2, t[2] \div 2>>]]
HalvesExactly(A,B) == \A i \in I3, j \in I3 :
   LET t == ZAdd(ZAdd(ZMul(A[i][1],B[1][j]), ZMul(A[i][2],B[2][j])), ZMul(A[i][3],B[3][j])) IN t[1] % 2 = 0 /\ t[2] % 2 = 0

Systems == {"triclinic", "monoclinic", "orthorhombic", "tetragonal7", "tetragonal6",
            "trigonal7", "trigonal6", "hexagonal", "cubic"}
Gens(sys) == CASE sys = "triclinic"    -> {}
               [] sys = "monoclinic"   -> {Rot2y}
               [] sys = "orthorhombic" -> {Rot2z, Rot2x}
               [] sys = "tetragonal7"  -> {Rot4z}
               [] sys = "tetragonal6"  -> {Rot4z, Rot2x}
               [] sys = "trigonal7"    -> {Rot3z}
               [] sys = "trigonal6"    -> {Rot3z, Rot2x}
               [] sys = "hexagonal"    -> {Rot6z, Rot2x}
               [] sys = "cubic"        -> {Rot4z, Rot3d}
Order(sys) == CASE sys = "triclinic" -> 1 [] sys = "monoclinic" -> 2 [] sys = "orthorhombic" -> 4
                [] sys = "tetragonal7" -> 4 [] sys = "tetragonal6" -> 8 [] sys = "trigonal7" -> 3
                [] sys = "trigonal6" -> 6 [] sys = "hexagonal" -> 12 [] sys = "cubic" -> 24
Dim(sys) == CASE sys = "triclinic" -> 21 [] sys = "monoclinic" -> 13 [] sys = "orthorhombic" -> 9
              [] sys = "tetragonal7" -> 7 [] sys = "tetragonal6" -> 6 [] sys = "trigonal7" -> 7
              [] sys = "trigonal6" -> 6 [] sys = "hexagonal" -> 5 [] sys = "cubic" -> 3

RECURSIVE Close(_)
Close(G) == LET H == G \cup {MMulD(a, b) : a \in G, b \in G} IN IF H = G THEN G ELSE Close(H)
Group(sys) == Close(Gens(sys) \cup {MIdD})
IsRotation(R) == LET Rt == [i \in I3 |-> [j \in I3 |-> R[j][i]]] IN HalvesExactly(R, Rt) /\ MMulD(R, Rt) = MIdD

\* the 21 components in the order the code uses (c11, c12, ..., c16, c22, ..., c66)
KeySeq == [n \in 1..21 |-> CHOOSE k \in Keys : Cardinality({kk \in Keys : kk[1] < k[1] \/ (kk[1] = k[1] /\ kk[2] < k[2])}) = n - 1]
KeyIdx(k) == ((k[1] - 1) * (14 - k[1])) \div 2 + (k[2] - k[1]) + 1
ASSUME \A n \in 1..21 : KeyIdx(KeySeq[n]) = n

\* matrix of the action of R on tensors, scaled by 16 (four doubled entries per term):
\*   16 (R.C)_{rep(k)} = sum_k' Act16(R)[k][k'] C_k'
Act16(R) == TLCEval([k \in Keys |-> LET s == Standard(k) IN
           [kp \in Keys |-> FoldSet(LAMBDA u, acc :
                               ZAdd(acc, ZMul(ZMul(R[s[1]][u[1]], R[s[2]][u[2]]), ZMul(R[s[3]][u[3]], R[s[4]][u[4]]))),
                            Z0, ClassOf[kp])]])
\* x: Keys -> Int (an integer tensor);  result: 16 (R.x) as Keys -> <<a,b>> with value a + b sqrt 3 (NOT doubled)
Apply16(A, x) == [k \in Keys |-> FoldSet(LAMBDA kp, acc : ZAdd(acc, ZScale(x[kp], A[k][kp])), Z0, Keys)]
InvariantUnder(A, x) == \A k \in Keys : Apply16(A, x)[k] = <<16 * x[k], 0>>
=============================================================================
