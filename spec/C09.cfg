SPECIFICATION Spec09
INVARIANT Extremes
INVARIANT Agree
PROPERTY Monotone
