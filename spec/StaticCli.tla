------------------------------- MODULE StaticCli -------------------------------
(***************************************************************************)
(* `cij run-static INPUT01 [INPUT02] -I {none,volume,pressure}`: what the   *)
(* printed table must contain in every mode / option combination.          *)
(* One state per invocation (mode, hasTable, system?, cellmass?, ntv).     *)
(***************************************************************************)
EXTENDS Integers, Sequences, FiniteSets, TLC

Modes == {"none", "volume", "pressure"}
NTVs == {11, 51, 201}
VARIABLES mode, hasTable, withSystem, withMass, ntv
cvars == <<mode, hasTable, withSystem, withMass, ntv>>
SInit == mode = "none" /\ hasTable = FALSE /\ withSystem = FALSE /\ withMass = FALSE /\ ntv = 11
Invoke == mode' \in Modes /\ hasTable' \in BOOLEAN /\ withSystem' \in BOOLEAN /\ withMass' \in BOOLEAN /\ ntv' \in NTVs
          /\ (withSystem' => hasTable')                  \* a crystal system only makes sense with a static table
SSpec == SInit /\ [][Invoke]_cvars

EosCols == <<"V", "F", "P">>
AvgCols == <<"bm_V", "bm_R", "bm_VRH", "G_V", "G_R", "G_VRH", "v_p", "v_s", "v_phi">>
\* density is printed when a mass is known: from the table's header or from --cellmass
HasDensity == hasTable \/ withMass
\* rows: the input volumes (none) or ntv grid rows (volume / pressure)
RowRule == IF mode = "none" THEN "input_volumes" ELSE "ntv"
\* where the rows sit
RowPosition == CASE mode = "none" -> "at the input volumes"
                 [] mode = "volume" -> "ntv equally spaced volumes from min/ratio to max*ratio"
                 [] mode = "pressure" -> "at p_min + j * delta_p, j < ntv"
Units == [V |-> "angstrom^3", F |-> "eV", P |-> "GPa", density |-> "g/cm^3", moduli |-> "GPa", velocities |-> "km/s"]
\* every invocation prints the EoS columns; elastic columns exactly when a table is given
ColumnsOK == /\ Len(EosCols) = 3
             /\ (hasTable => HasDensity)
Emit == PrintT(<<"STATIC", mode, hasTable, withSystem, withMass, ntv, HasDensity, RowRule>>)
=============================================================================
