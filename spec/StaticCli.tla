------------------------------- MODULE StaticCli -------------------------------
(***************************************************************************)
(* `cij run-static INPUT01 [INPUT02] -I {none,volume,pressure}`: what the   *)
(* printed table must contain in every mode / option combination.          *)
(* One state per invocation (mode, hasTable, system?, cellmass?, ntv,       *)
(* sample = requested sampling stride --delta-p-sample / --delta-p, 0 when  *)
(* the option is not given).                                                *)
(***************************************************************************)
EXTENDS Integers, Sequences, FiniteSets, TLC

Modes == {"none", "volume", "pressure"}
NTVs == {11, 51, 201, 401}
Strides == {0, 1, 2, 3, 7}
VARIABLES mode, hasTable, withSystem, withMass, ntv, sample
cvars == <<mode, hasTable, withSystem, withMass, ntv, sample>>
SInit == mode = "none" /\ hasTable = FALSE /\ withSystem = FALSE /\ withMass = FALSE /\ ntv = 11 /\ sample = 0
Invoke == mode' \in Modes /\ hasTable' \in BOOLEAN /\ withSystem' \in BOOLEAN /\ withMass' \in BOOLEAN /\ ntv' \in NTVs
          /\ sample' \in Strides
          /\ (withSystem' => hasTable')                  \* a crystal system only makes sense with a static table
SSpec == SInit /\ [][Invoke]_cvars

EosCols == <<"V", "F", "P">>
AvgCols == <<"bm_V", "bm_R", "bm_VRH", "G_V", "G_R", "G_VRH", "v_p", "v_s", "v_phi">>
\* density is printed when a mass is known: from the table's header or from --cellmass
HasDensity == hasTable \/ withMass
\* rows: the input volumes (none) or ntv grid rows (volume / pressure)
RowRule == IF mode = "none" THEN "input_volumes" ELSE "ntv"
\* sampling applies to the pressure mode only: every sample-th row of the ntv-point pressure grid, starting with the first
Stride == IF mode = "pressure" /\ sample > 0 THEN sample ELSE 1
NRows == IF mode = "none" THEN -1 ELSE (ntv + Stride - 1) \div Stride
RowsOK == mode # "none" => /\ NRows >= 1 /\ (NRows - 1) * Stride <= ntv - 1 /\ NRows * Stride > ntv - 1
\* where the rows sit
RowPosition == CASE mode = "none" -> "at the input volumes"
                 [] mode = "volume" -> "ntv equally spaced volumes from min/ratio to max*ratio"
                 [] mode = "pressure" -> "at p_min + j * Stride * delta_p, j < NRows"
Units == [V |-> "angstrom^3", F |-> "eV", P |-> "GPa", density |-> "g/cm^3", moduli |-> "GPa", velocities |-> "km/s"]
\* every invocation prints the EoS columns; elastic columns exactly when a table is given
ColumnsOK == /\ Len(EosCols) = 3
             /\ (hasTable => HasDensity)
Emit == PrintT(<<"STATIC", mode, hasTable, withSystem, withMass, ntv, HasDensity, RowRule, sample, Stride, NRows>>)
=============================================================================
