SPECIFICATION Spec08
INVARIANT GroupOK
INVARIANT RelInInv
INVARIANT InvInRel
INVARIANT DimOK
