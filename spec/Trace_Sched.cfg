SPECIFICATION TraceSpec
CONSTANTS
  Pool = {}
  MaxReq = 21
  Faithful = TRUE
INVARIANT TypeOK
INVARIANT EdgesSound
INVARIANT Final
INVARIANT DepsFirst
POSTCONDITION Accepted
CHECK_DEADLOCK FALSE
