--------------------------------- MODULE V2P ---------------------------------
(***************************************************************************)
(* (T,V) -> (T,P) conversion (CijPressureBaseInterface.v2p, QHA's V(T,P),  *)
(* and the range check QHACalculator.desired_pressure_status).             *)
(*                                                                         *)
(* Part 1: relations every isotherm record must satisfy (used by           *)
(*         Trace_V2P): the converted value at requested pressure Pj lies   *)
(*         between the volume-base values at the two grid volumes whose    *)
(*         pressures bracket Pj, up to a curvature allowance.              *)
(* Part 2: the rejection decision as a small state machine over integer    *)
(*         grids: Reject <=> the largest requested pressure exceeds the    *)
(*         pressure reachable at the smallest grid volume at SOME          *)
(*         temperature.                                                    *)
(***************************************************************************)
EXTENDS Integers, Sequences, FiniteSets, TLC

Abs(x) == IF x < 0 THEN -x ELSE x
MinI(a,b) == IF a <= b THEN a ELSE b
MaxI(a,b) == IF a <= b THEN b ELSE a
Between(x, a, b, sl) == MinI(a,b) - sl <= x /\ x <= MaxI(a,b) + sl

\* ---------------------------------------------------------------- Part 1
Brackets(Pv, p, k) == k \in 1..(Len(Pv)-1) /\ Between(p, Pv[k], Pv[k+1], 1)
D2(Fv, k) == IF k <= 1 \/ k >= Len(Fv) THEN 0 ELSE Abs(Fv[k-1] - 2*Fv[k] + Fv[k+1])
Curv(Fv, k) == 2 * MaxI(MaxI(D2(Fv, k-1), D2(Fv, k)), MaxI(D2(Fv, k+1), D2(Fv, k+2))) + 2
\* the converted value is the isotherm's value at the bracketing volumes, to interpolation accuracy
Converted(Pv, Fv, p, r) == \E k \in 1..(Len(Pv)-1) : Brackets(Pv, p, k) /\ Between(r, Fv[k], Fv[k+1], Curv(Fv, k))
\* converting the pressure field itself returns the requested pressures
Identity(p, r) == Abs(p - r) <= 2
\* V(T,P): P(T, V(T,P)) = P, i.e. V lies in the grid interval whose end-point pressures bracket P.  The reported volume comes
\* from a four-point interpolation of the isotherm, so close to a grid node it may leave the interval by the interpolation error;
\* the allowance is the largest neighbouring THIRD difference of the grid volumes (far below the second-difference allowance
\* of fields; zero for an equally spaced grid)
D3(Fv, k) == IF k <= 1 \/ k + 2 > Len(Fv) THEN 0 ELSE Abs(Fv[k-1] - 3*Fv[k] + 3*Fv[k+1] - Fv[k+2])
Curv3(Fv, k) == MaxI(MaxI(D3(Fv, k-1), D3(Fv, k)), MaxI(D3(Fv, k+1), D3(Fv, k+2))) + 1
VolumeOK(Pv, Vv, p, r) == \E k \in 1..(Len(Pv)-1) : Brackets(Pv, p, k) /\ Between(r, Vv[k], Vv[k+1], Curv3(Vv, k))
Decreasing(s) == \A j \in 1..(Len(s)-1) : s[j+1] < s[j]

\* ---------------------------------------------------------------- Part 2
CONSTANTS Temps, Reach, PMins, Steps, Counts       \* small integer sets (model checking)
VARIABLES reach, pmin, step, count, verdict
rvars == <<reach, pmin, step, count, verdict>>
Decide(rc, p0, dp, n) == IF p0 + dp * (n - 1) > CHOOSE m \in {rc[t] : t \in Temps} : \A t \in Temps : m <= rc[t]
                         THEN "reject" ELSE "accept"
RInit == reach \in [Temps -> Reach] /\ pmin \in PMins /\ step \in Steps /\ count \in Counts /\ verdict = "none"
Check == verdict = "none" /\ verdict' = Decide(reach, pmin, step, count) /\ UNCHANGED <<reach, pmin, step, count>>
RSpec == RInit /\ [][Check]_rvars
\* rejected exactly when some temperature cannot reach the largest requested pressure
RejectIff == verdict # "none" => ((verdict = "reject") <=> (\E t \in Temps : pmin + step * (count - 1) > reach[t]))
\* monotone: enlarging the request never turns a rejection into an acceptance (checked as an invariant over the enumeration)
Emit == verdict = "none" \/ PrintT(<<"V2P", [t \in Temps |-> reach[t]], pmin, step, count, verdict>>)
=============================================================================
