------------------------------ MODULE Trace_V2P ------------------------------
(* Validation of isotherm records produced from real Calculator runs.  One   *)
(* NDJSON record per (quantity, temperature):                                *)
(*   {kind: "field"|"pressures"|"volumes", name, Pv, Fv, Pj, Rj}  (scaled    *)
(*   integers; Pv, Fv along the volume grid, Pj requested, Rj reported).     *)
EXTENDS V2P, Json, IOUtils

Tr == ndJsonDeserialize(IOEnv.TRACE_FILE)
VARIABLE i
Ok(e) == /\ Len(e.Pj) = Len(e.Rj) /\ Len(e.Pv) = Len(e.Fv)
         /\ \A j \in 1..Len(e.Pj) :
              CASE e.kind = "field"     -> Converted(e.Pv, e.Fv, e.Pj[j], e.Rj[j])
                [] e.kind = "pressures" -> Identity(e.Pj[j], e.Rj[j])
                [] e.kind = "volumes"   -> VolumeOK(e.Pv, e.Fv, e.Pj[j], e.Rj[j])
         /\ e.kind = "volumes" => Decreasing(e.Rj)
TInit == i = 0 /\ reach = [t \in Temps |-> 0] /\ pmin = 0 /\ step = 0 /\ count = 0 /\ verdict = "trace"
Rec == i < Len(Tr) /\ Ok(Tr[i+1]) /\ i' = i + 1 /\ UNCHANGED rvars
TraceSpec == TInit /\ [][Rec]_<<i, rvars>>
Accepted == TLCGet("stats").diameter - 1 = Len(Tr)
=============================================================================
