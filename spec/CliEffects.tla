------------------------------ MODULE CliEffects ------------------------------
(***************************************************************************)
(* Supplementary model (outside the listed properties): what the command   *)
(* line tools do to the working directory.                                  *)
(*                                                                         *)
(* The directory holds INPUT files (settings, phonon file, static table,   *)
(* geotherm) and whatever the commands create.  A created file is named    *)
(* structurally here - <<"table", rule id, base, component>> for the       *)
(* tables `cij run` writes (rule ids and availability from Writer.tla),    *)
(* <<"png", stem>> for pictures - the harness renders the names with the    *)
(* documented patterns (whose correctness is C15's business).              *)
(*                                                                         *)
(*   run            creates exactly the tables its output section asks for *)
(*   run-static, fill, extract, extract-geotherm   print; create nothing   *)
(*   plot PATTERN   creates one picture per existing table that matches    *)
(*   modes -o NAME  creates NAME                                            *)
(* No command removes or modifies an input file; repeating a command does   *)
(* not change the set of files.                                             *)
(***************************************************************************)
EXTENDS Integers, Sequences, FiniteSets, SequencesExt, TLC
W == INSTANCE Writer WITH kw <- "cij", base <- "tp"       \* the rule table only; Writer's own variables are not used here
Rules == W!Rules
RuleOf(k) == W!RuleOf(k)
Available(r, b) == W!Available(r, b)

Comps == {"11", "12", "44"}          \* components of the data set
\* output sections explored: [tp |-> keywords of the pressure base, tv |-> keywords of the volume base], in the listed order
OutputChoices == {[tp |-> <<"cij", "vs">>, tv |-> <<"p">>], [tp |-> <<"bm_VRH", "v", "p">>, tv |-> <<>>], [tp |-> <<>>, tv |-> <<"cij_t", "v">>]}

Inputs == {<<"input", "settings">>, <<"input", "phonon">>, <<"input", "static">>, <<"input", "geotherm">>}
\* What the code can write (modelled as it is, not as documented): the pressure base also answers the keyword for pressures
\* (a table of the requested pressures themselves, although the documentation lists pressures for the volume base only);
\* the volume base has no volumes attribute, so asking it for `v` makes the run FAIL at that keyword - after everything listed
\* before it (pressure base first, then volume base, each in the listed order) has already been written.
CodeAvailable(r, b) == Rules[r].prop = "volumes" => b = "tp"
TablesFor(r, b) == IF Rules[r].kind = "ij" THEN {<<"table", r, b, c>> : c \in Comps} ELSE {<<"table", r, b, "-">>}
Requests(out) == [n \in 1..Len(out.tp) |-> <<out.tp[n], "tp">>] \o [n \in 1..Len(out.tv) |-> <<out.tv[n], "tv">>]
RECURSIVE Walk(_, _)
Walk(sq, acc) == IF sq = <<>> THEN [files |-> acc, ok |-> TRUE]
                 ELSE LET r == RuleOf(Head(sq)[1])  b == Head(sq)[2] IN
                        IF ~CodeAvailable(r, b) THEN [files |-> acc, ok |-> FALSE]
                        ELSE Walk(Tail(sq), acc \cup TablesFor(r, b))
RunResult(out) == Walk(Requests(out), {})
TablesOf(out) == RunResult(out).files
Pictures(dir, which) == {<<"png", f>> : f \in {g \in dir : g[1] = "table" /\ which[g]}}

Commands == [name : {"run"}, out : OutputChoices]
       \cup [name : {"run-static", "fill", "extract", "geotherm"}]
       \cup [name : {"plot"}, sel : {"all", "moduli", "none"}]
       \cup [name : {"modes"}, n : 0..2]

VARIABLES dir, hist, intact
evars == <<dir, hist, intact>>
EInit == dir = Inputs /\ hist = <<>> /\ intact = TRUE

Matches(sel, g) == CASE sel = "all" -> TRUE [] sel = "moduli" -> Rules[g[2]].kind = "ij" [] sel = "none" -> FALSE
\* extract / extract-geotherm read the pressure-base tables of the variables they are asked for: enabled only when they exist
\* (they look for ANY file named <variable>_tp_*: once `plot` has put a picture next to a table, that may be the picture, and the
\*  command then fails on it - an observed weakness of the package, outside the listed properties.  The model therefore lets them
\*  run only on a variable whose table has no picture yet.)
Enabled(c) == CASE c.name \in {"extract", "geotherm"} -> \E g \in dir : g[1] = "table" /\ g[3] = "tp" /\ <<"png", g>> \notin dir
                [] OTHER -> TRUE
Creates(c) == CASE c.name = "run"   -> TablesOf(c.out)
                [] c.name = "plot"  -> {<<"png", g>> : g \in {h \in dir : h[1] = "table" /\ Matches(c.sel, h)}}
                [] c.name = "modes" -> {<<"modes", c.n>>}
                [] OTHER -> {}
Do(c) == /\ Len(hist) < 3 /\ Enabled(c)
         /\ dir' = dir \cup Creates(c)
         /\ hist' = Append(hist, c)
         /\ intact' = intact                  \* no command writes to an input file
ENext == \E c \in Commands : Do(c)
ESpec == EInit /\ [][ENext]_evars

InputsKept == Inputs \subseteq dir /\ intact
\* printing commands leave the directory alone; repeating any command changes nothing
Quiet == [][\A c \in Commands : (c.name \in {"run-static", "fill", "extract", "geotherm"} /\ hist' = Append(hist, c)) => dir' = dir]_evars
Idempotent == [][(hist # <<>> /\ hist' = Append(hist, Last(hist))) => dir' = dir]_evars
\* volumes are never written for the volume base
NoCrossBase == \A g \in dir : g[1] = "table" => CodeAvailable(g[2], g[3])
\* a run fails exactly when its output section asks the volume base for volumes
Fails(c) == c.name = "run" /\ ~RunResult(c.out).ok
ASSUME \E o \in OutputChoices : ~RunResult(o).ok
ASSUME \E o \in OutputChoices : RunResult(o).ok
EmitEffects == Len(hist) < 3 \/ PrintT(<<"FX", hist, dir, [n \in 1..Len(hist) |-> Fails(hist[n])]>>)
=============================================================================
