SPECIFICATION LSpec
CONSTRAINT Bound
INVARIANT EmitHist
