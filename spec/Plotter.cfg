SPECIFICATION PSpec
INVARIANT AgreesWithExtract
INVARIANT Source
INVARIANT Units
INVARIANT EmitPlot
