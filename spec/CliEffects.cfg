SPECIFICATION ESpec
INVARIANT InputsKept
INVARIANT NoCrossBase
PROPERTY Quiet
PROPERTY Idempotent
