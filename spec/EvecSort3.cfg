SPECIFICATION SSpec
CONSTANTS
  N = 3
  DomOnly = FALSE
  MaxEntry = 2
INVARIANT DominantRecovered
INVARIANT PermutationUnlessZero
INVARIANT Progress
INVARIANT EmitFinal
