----------------------------- MODULE Trace_Voigt -----------------------------
(***************************************************************************)
(* Trace validation for the index algebra: every recorded top-level call   *)
(* of cij.util.c_ / e_ made by the real code (readers, shear solver,       *)
(* attribute look-ups) must be a `Spell` step of module Voigt.             *)
(* One NDJSON line per call: {kind, d, rej, v}.                            *)
(***************************************************************************)
EXTENDS Voigt, Json, IOUtils, TLC

Tr == ndJsonDeserialize(IOEnv.TRACE_FILE)

VARIABLE i
Init == i = 0
Ok(e) == LET s == [kind |-> e.kind, d |-> e.d] IN
         IF e.rej THEN Spell(s) = Rejected ELSE Spell(s) = e.v
SpellStep == i < Len(Tr) /\ Ok(Tr[i+1]) /\ i' = i + 1
Next == SpellStep
TraceSpec == Init /\ [][Next]_i
Accepted == TLCGet("stats").diameter - 1 = Len(Tr)
=============================================================================
