SPECIFICATION PSpec
VIEW PView
CONSTRAINT Bound
PROPERTY DenInvariant
