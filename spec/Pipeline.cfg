SPECIFICATION PSpec
INVARIANT PhononIgnoresTable
INVARIANT StaticIgnoresT
INVARIANT FillFirst
INVARIANT GammaLocal
INVARIANT VrefUnused
INVARIANT Emit
PROPERTY Completes
