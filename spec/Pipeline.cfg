SPECIFICATION PSpec
INVARIANT PhononIgnoresTable
INVARIANT StaticIgnoresT
INVARIANT FillFirst
INVARIANT GammaLocal
INVARIANT Emit
PROPERTY Completes
