SPECIFICATION MSpec
CONSTANTS
  NP = 4
  NV = 4
  Variant = "sorted"
INVARIANT Tracked
INVARIANT EmitTrack
