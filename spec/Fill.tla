--------------------------------- MODULE Fill ---------------------------------
(***************************************************************************)
(* Symmetry filling of a static elastic table (cij/util/fill.py) as exact  *)
(* linear algebra.  RelRows(sys) are the packaged relations, regenerated   *)
(* on every run from /repo/cij/data/constraints/<sys> by an independent    *)
(* tokenizer into the data module RelData (rows of 21 rationals, columns   *)
(* in the order c11, c12, ..., c66).                                       *)
(***************************************************************************)
EXTENDS LinAlg, RelData

NSym == 21
IUnit(n) == [j \in 1..NSym |-> IF j = n THEN 1 ELSE 0]
\* integer relation rows (each row scaled by the lcm of its denominators), as a set
IntRel(sys) == {IntRow(RelRows[sys][i]) : i \in 1..Len(RelRows[sys])}
\* the code's test: rank of [unit rows of the supplied symbols ; relations] = 21
DeterminedByStack(sys, S) == IRank(IntRel(sys) \cup {IUnit(n) : n \in S}, NSym) = NSym

\* equivalent formulation on the invariant subspace: N = null space basis of the relations (as a sequence),
\* supplied symbols determine the tensor iff the rows S of N have full column rank
NullSeq(sys) == LET B == TLCEval(NullBasis(RelRows[sys], NSym))
                    RECURSIVE ToSeq(_)
                    ToSeq(T) == IF T = {} THEN <<>> ELSE LET v == CHOOSE x \in T : \A y \in T : \* lexicographic minimum: deterministic
                                       (LET F(a,b) == \E j \in 1..NSym : (\A i \in 1..(j-1) : a[i] = b[i]) /\ RLt(a[j], b[j]) IN x = y \/ F(x,y))
                                  IN <<v>> \o ToSeq(T \ {v})
                IN TLCEval(ToSeq(B))
\* constant-level tables: TLC evaluates them once
AllSystems == DOMAIN RelRows
NullTab == TLCEval([s \in AllSystems |-> NullSeq(s)])
\* symbols that vanish identically on the invariant subspace
Vanishing(sys) == LET N == NullTab[sys] IN {n \in 1..NSym : \A i \in 1..Len(N) : N[i][n] = R0}
VanTab == TLCEval([s \in AllSystems |-> Vanishing(s)])
=============================================================================
