-------------------------------- MODULE Config --------------------------------
(***************************************************************************)
(* Configuration handling (cij/io/config): the effective configuration is  *)
(* the user's settings merged over the packaged defaults, and validation   *)
(* against the documented fields.                                          *)
(*                                                                         *)
(* Trees: a leaf <<"L", n>> or a dictionary <<"D", f>> with f a function   *)
(* from a subset of {"a","b"} to trees; depth <= 2.                        *)
(***************************************************************************)
EXTENDS Integers, Sequences, FiniteSets, TLC

KeysAB == {"a", "b"}
Leaf(n) == <<"L", n>>
Dict(f) == <<"D", f>>
IsDict(t) == t[1] = "D"
Leaves == {Leaf(0), Leaf(2)}        \* 0 is a falsy value in the implementation language: a merge must not confuse it with 'absent'
DictsOver(T) == {Dict(f) : f \in UNION {[K -> T] : K \in SUBSET KeysAB}}
D1 == DictsOver(Leaves)
T1 == Leaves \cup D1
D2 == DictsOver(T1)                         \* 144 dictionary-rooted trees of depth <= 2

\* user settings over defaults: both dictionaries -> key-wise; otherwise the user's value wins (at any depth)
RECURSIVE Merge(_,_)
Merge(u, d) ==
  IF IsDict(u) /\ IsDict(d)
  THEN Dict([k \in (DOMAIN u[2]) \cup (DOMAIN d[2]) |->
              IF k \notin DOMAIN u[2] THEN d[2][k]
              ELSE IF k \notin DOMAIN d[2] THEN u[2][k]
              ELSE Merge(u[2][k], d[2][k])])
  ELSE u

\* leaves with their paths
RECURSIVE LeafPaths(_,_)
LeafPaths(t, path) == IF ~IsDict(t) THEN {<<path, t[2]>>}
                      ELSE UNION {LeafPaths(t[2][k], Append(path, k)) : k \in DOMAIN t[2]}
RECURSIVE Paths(_,_)
Paths(t, path) == {path} \cup (IF IsDict(t) THEN UNION {Paths(t[2][k], Append(path, k)) : k \in DOMAIN t[2]} ELSE {})
\* p is specified by tree t (p is a node of t)
IsPrefix(p, q) == Len(p) <= Len(q) /\ \A n \in 1..Len(p) : p[n] = q[n]
=============================================================================
