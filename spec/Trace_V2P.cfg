SPECIFICATION TraceSpec
CONSTANTS
  Temps = {1}
  Reach = {0}
  PMins = {0}
  Steps = {0}
  Counts = {0}
POSTCONDITION Accepted
CHECK_DEADLOCK FALSE
