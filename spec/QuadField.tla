------------------------------ MODULE QuadField ------------------------------
(* The real quadratic field Q(sqrt d): elements <<a,b>> = a + b*sqrt(d) with *)
(* a, b exact rationals (module Rat).  d is passed explicitly (2 or 5 here).  *)
EXTENDS Rat

F0 == <<R0, R0>>
F1 == <<R1, R0>>
FI(n) == <<RI(n), R0>>
FQ(n,m) == <<RQ(n,m), R0>>
FRoot == <<R0, R1>>                                    \* sqrt(d)
FAdd(x,y) == <<RAdd(x[1],y[1]), RAdd(x[2],y[2])>>
FNeg(x)   == <<RNeg(x[1]), RNeg(x[2])>>
FSub(x,y) == FAdd(x, FNeg(y))
FMul(d,x,y) == <<RAdd(RMul(x[1],y[1]), RMul(RI(d), RMul(x[2],y[2]))), RAdd(RMul(x[1],y[2]), RMul(x[2],y[1]))>>
FConj(x) == <<x[1], RNeg(x[2])>>
FNormQ(d,x) == RSub(RMul(x[1],x[1]), RMul(RI(d), RMul(x[2],x[2])))   \* x * conj(x), rational, non-zero for x # 0
FInv(d,x) == LET n == RInv(FNormQ(d,x)) IN <<RMul(x[1], n), RMul(RNeg(x[2]), n)>>
FDiv(d,x,y) == FMul(d, x, FInv(d,y))
FScaleR(r,x) == <<RMul(r,x[1]), RMul(r,x[2])>>

\* 3x3 matrices over the field: sequences of rows
I3x == 1..3
MZero == [i \in I3x |-> [j \in I3x |-> F0]]
MId   == [i \in I3x |-> [j \in I3x |-> IF i = j THEN F1 ELSE F0]]
MOfInt(M) == [i \in I3x |-> [j \in I3x |-> FI(M[i][j])]]
MAdd(A,B) == [i \in I3x |-> [j \in I3x |-> FAdd(A[i][j], B[i][j])]]
MScale(d,c,A) == [i \in I3x |-> [j \in I3x |-> FMul(d, c, A[i][j])]]
MMul(d,A,B) == [i \in I3x |-> [j \in I3x |->
                 FAdd(FAdd(FMul(d,A[i][1],B[1][j]), FMul(d,A[i][2],B[2][j])), FMul(d,A[i][3],B[3][j]))]]
MTrace(A) == FAdd(FAdd(A[1][1], A[2][2]), A[3][3])
MTransposeEq(A) == \A i \in I3x, j \in I3x : A[i][j] = A[j][i]
=============================================================================
