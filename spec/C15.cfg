SPECIFICATION WSpec
INVARIANT OneRule
INVARIANT NoCollision
INVARIANT SvsT
