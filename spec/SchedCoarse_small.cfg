SPECIFICATION CSpec
CONSTANTS
  PoolC = {"11", "12", "44", "45", "14", "15", "66", "23", "56"}
INVARIANT ClosureExact
INVARIANT CompleteC
INVARIANT RequestIndependentC
