---- MODULE AggShapes ----
\* stub used only by tools/setup.sh; real shapes are written by harness/cv/thermo_oracle.py
EXTENDS Integers
Shapes == {<<1,1>>}
====
