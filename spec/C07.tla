-------------------------------- MODULE C07 --------------------------------
(* C07 model level: the 6x6 formulas of the code are the contractions of    *)
(* the full fourth-rank tensors (identities of linear forms, hence for all  *)
(* tensors).  The linear forms are exported for the replay.                 *)
EXTENDS Averages, Json, IOUtils
ASSUME T_KV == KVoigt = ImplKV
ASSUME T_GV == GVoigt = ImplGV
ASSUME T_KR == KReussDen = ImplKRDen
ASSUME T_GR == GReussDen = ImplGRDen
ASSUME JsonSerialize(IOEnv.OUTD \o "/c07_forms.json",
   [kv |-> PExport(KVoigt), gv |-> PExport(GVoigt), kr_den |-> PExport(KReussDen), gr_den |-> PExport(GReussDen)])
=============================================================================
