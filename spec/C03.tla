-------------------------------- MODULE C03 --------------------------------
(***************************************************************************)
(* C03: shear components obtained by strain-energy rotation are exact      *)
(* tensor algebra.  State = the key being solved (and, for the keys with a *)
(* degenerate eigenvalue, which orthonormal split of the eigenspace the    *)
(* eigen-solver happened to return).  `Solve` moves to any key/split; the  *)
(* invariants are evaluated in each of the 15 + 6 states.  TargetExact is  *)
(* an identity of linear forms over the 21 components: it holds for every  *)
(* real symmetric fourth-rank tensor at once.                              *)
(***************************************************************************)
EXTENDS ShearSolver, TLC, Json, IOUtils

VARIABLES key, var
vars == <<key, var>>
Init == key = <<4,4>> /\ var = 0
Solve == \E K \in ShearKeys : \E v \in Variants(K) : key' = K /\ var' = v
Next == Solve
SpecC03 == Init /\ [][Next]_vars

d == Disc(key)
M == MOfInt(Fict(key))
P == Proj(key, var)
sp == Spectrum(key)

\* the claimed spectrum/projectors really diagonalise M_K: orthogonal rank-one symmetric idempotents, M P_a = la_a P_a
SpectrumOK ==
  /\ \A a \in I3 : MMul(d, M, P[a]) = MScale(d, sp[a], P[a])
  /\ \A a \in I3, b \in I3 : MMul(d, P[a], P[b]) = IF a = b THEN P[a] ELSE MZero
  /\ MAdd(MAdd(P[1], P[2]), P[3]) = MId
  /\ \A a \in I3 : MTransposeEq(P[a]) /\ MTrace(P[a]) = F1
\* dividing by the multiplicity is right because exactly Mult(K) index pairs of M x M hit the target
CountIsMult == TargetHits(key) = Mult(key) /\ MultFormula(key) = Mult(key)
\* the solver never asks for the target itself
TargetNotRequested == ModKeys(key)[key] = 0
\* exactness for all tensors
TargetExact == Target(key, var) = LAtom(key)
\* c'_{aabb} is symmetric in (a,b): one value per canonical rotated key is enough
RotSym == \A a \in I3, b \in I3 : Crot(d, P[a], P[b]) = Crot(d, P[b], P[a])
\* rotated axial strains: non-negative weights P_a[i,i] summing to one over a (trace preserved) and over i
TracePreserved ==
  /\ \A i \in I3 : FAdd(FAdd(StrainRot(key,var)[1][i], StrainRot(key,var)[2][i]), StrainRot(key,var)[3][i]) = F1
  /\ \A a \in I3 : FAdd(FAdd(StrainRot(key,var)[a][1], StrainRot(key,var)[a][2]), StrainRot(key,var)[a][3]) = F1
\* structure used by the scheduler (C04): rotated requests are non-shear, own-frame shear requests are one level deep
DepsShallow ==
  /\ \A k \in DOMAIN RotKeys(key) : k[1] <= 3 /\ k[2] <= 3
  /\ \A k \in Keys : (ModKeys(key)[k] > 0 /\ IsShear(k)) => (\A k2 \in Keys : ModKeys(k)[k2] > 0 => ~IsShear(k2))

\* ------------------------------------------------------------------ export for the replay
Fld(x) == [a |-> x[1], b |-> x[2]]           \* a + b sqrt(d), a and b as <<num, den>>
BagSeq(bag) == {[key |-> k, n |-> bag[k]] : k \in {kk \in DOMAIN bag : bag[kk] > 0}}
KeyRow(K) ==
  [ key |-> K, class |-> KClass(K), disc |-> Disc(K), mult |-> Mult(K),
    fict |-> Fict(K),
    spectrum |-> [a \in I3 |-> Fld(Spectrum(K)[a])],
    modkeys |-> BagSeq(ModKeys(K)),
    rotkeys |-> BagSeq(RotKeys(K)),
    strainrot |-> [a \in I3 |-> [i \in I3 |-> Fld(StrainRot(K,0)[a][i])]] ]
    \* (the target linear form is not exported: invariant TargetExact, checked in the same run, says it is the atom K)
ASSUME JsonSerialize(IOEnv.OUTD \o "/c03_keys.json", [rows |-> {KeyRow(K) : K \in ShearKeys}])
=============================================================================
