SPECIFICATION RSpec
CONSTANTS
  Temps = {1, 2, 3}
  Reach = {20, 24, 30}
  PMins = {0, 5}
  Steps = {2, 5}
  Counts = {3, 5, 6}
INVARIANT RejectIff
INVARIANT Emit
