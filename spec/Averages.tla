------------------------------ MODULE Averages ------------------------------
(***************************************************************************)
(* Voigt / Reuss / Hill averages of the full fourth-rank tensors.          *)
(* C_ijkl = c[Canon(ijkl)];  S_ijkl = s[Canon(ijkl)] * w(I) w(J) with      *)
(* w = 1 for Voigt index <= 3 and 1/2 otherwise (engineering shear strains).*)
(* All four averages are linear forms (or reciprocals of linear forms) over *)
(* the 21 stiffness atoms cIJ / the 21 compliance atoms sIJ (module Poly).  *)
(***************************************************************************)
EXTENDS Voigt, Poly

CA(k) == "c" \o ToString(k[1]) \o ToString(k[2])
SA(k) == "s" \o ToString(k[1]) \o ToString(k[2])
W(I) == IF I <= 3 THEN RQ(1,1) ELSE RQ(1,2)
Cfull(t) == PAtom(CA(Canon4(t)))
Sfull(t) == LET k == <<S2V(t[1],t[2]), S2V(t[3],t[4])>> IN PTerm(RMul(W(k[1]), W(k[2])), Atom(SA(Canon4(t))))

SumOver(T, F(_)) == FoldSet(LAMBDA t, acc : PAdd(acc, F(t)), PZero, T)
Tiijj == {<<i,i,j,j>> : i \in I3, j \in I3}
Tijij == {<<i,j,i,j>> : i \in I3, j \in I3}
C_iijj == SumOver(Tiijj, Cfull)     C_ijij == SumOver(Tijij, Cfull)
S_iijj == SumOver(Tiijj, Sfull)     S_ijij == SumOver(Tijij, Sfull)

\* the property's definitions
KVoigt == PScale(RQ(1,9), C_iijj)
GVoigt == PScale(RQ(1,30), PSub(PScale(RI(3), C_ijij), C_iijj))
KReussDen == S_iijj                                         \* K_R = 1 / S_iijj
GReussDen == PScale(RQ(1,15), PSub(PScale(RI(6), S_ijij), PScale(RI(2), S_iijj)))    \* G_R = 1 / this  (= 15/(6 S_ijij - 2 S_iijj))

\* literal transcription of calculator.py (6x6 Voigt formulas)
c(I,J) == PAtom(CA(<<I,J>>))     s(I,J) == PAtom(SA(<<I,J>>))
Sum3(a,b,cc) == PAdd(PAdd(a,b),cc)
ImplKV == PScale(RQ(1,9), PAdd(Sum3(c(1,1),c(2,2),c(3,3)), PScale(RI(2), Sum3(c(1,2),c(2,3),c(1,3)))))
ImplKRDen == PAdd(Sum3(s(1,1),s(2,2),s(3,3)), PScale(RI(2), Sum3(s(1,2),s(2,3),s(1,3))))
ImplGV == PScale(RQ(1,15), PAdd(PSub(Sum3(c(1,1),c(2,2),c(3,3)), Sum3(c(1,2),c(2,3),c(1,3))), PScale(RI(3), Sum3(c(4,4),c(5,5),c(6,6)))))
ImplGRDen == PScale(RQ(1,15), PAdd(PSub(PScale(RI(4), Sum3(s(1,1),s(2,2),s(3,3))), PScale(RI(4), Sum3(s(1,2),s(2,3),s(1,3)))),
                                    PScale(RI(3), Sum3(s(4,4),s(5,5),s(6,6)))))
=============================================================================
