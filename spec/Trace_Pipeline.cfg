SPECIFICATION TraceSpec
INVARIANT PhononIgnoresTable
INVARIANT StaticIgnoresT
INVARIANT FillFirst
POSTCONDITION Accepted
CHECK_DEADLOCK FALSE
