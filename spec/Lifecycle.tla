------------------------------ MODULE Lifecycle ------------------------------
(***************************************************************************)
(* Determinism and isolation of calculations within one interpreter        *)
(* process (C14).  A process has an environment (hash seed, working        *)
(* directory content), a module-level shared state (unit registry, writer  *)
(* rules), and any number of Calculator objects, each with lazily cached   *)
(* results.  The specification says: every observation is a function of    *)
(* the calculator's configuration alone - not of the environment, not of   *)
(* what was constructed, read or written before - and no action changes    *)
(* the shared state or another calculator.                                 *)
(*                                                                         *)
(* Ref[c][q] is the observation of a single fresh run with configuration c *)
(* (abstractly: the pair <<c, q>>).                                        *)
(***************************************************************************)
EXTENDS Integers, Sequences, FiniteSets, TLC

Ids == {1, 2}
Cfgs == {"A", "B", "C"}          \* C has the same array shapes as A (grids, q-points, modes) but different data
\* The files of A and of C can also be calculated under a second settings file of the same directory (variant "2": the same input
\* files, grid sizes and interpolation, another volume_ratio): a configuration is the pair (data the path holds, settings variant),
\* written as the string  data \o variant.
Variants == {"", "2"}
HasVariant(c, v) == v = "" \/ c \in {"A", "C"}
Quantities == {"modulus_adiabatic", "modulus_isothermal", "tp_modulus_adiabatic", "tp_modulus_isothermal", "tp_bulk_vrh", "tp_vp", "tp_volumes", "compliances",
               "tp_attr_adiabatic", "tp_attr_isothermal"}      \* attribute-style names (c11s / c11t) of the pressure base
Writes == {<<"tp", "cij">>, <<"tp", "bm_VRH">>, <<"tv", "p">>}
Seeds == {"0", "1", "2", "random"}
Cwds == {"empty", "junk", "dir_named_like_system", "shadow_data"}   \* shadow_data: entries named like the package's own data files

VARIABLES env,      \* [seed, cwd] of the process
          wd,       \* the process's current working directory ("start" = where it was started)
          disk,     \* settings path (named after its original data set) -> data set its files hold NOW
          calcs,    \* id -> configuration (the data set read at construction), or "none"
          shared,   \* version counter of the module-level state
          obs,      \* last observation <<kind, value>>
          hist      \* actions taken (observation only)
lvars == <<env, wd, disk, calcs, shared, obs, hist>>
Ref(c, q) == <<c, q>>

LInit == /\ env \in [seed : Seeds, cwd : Cwds] /\ calcs = [i \in Ids |-> "none"] /\ shared = 0
         /\ wd = "start" /\ disk = [c \in Cfgs |-> c]
         /\ obs = <<"none", <<>>>> /\ hist = <<>>
\* a calculator is what the files at its settings path hold WHEN it is constructed
Construct(i, c, v) == /\ calcs[i] = "none" /\ HasVariant(c, v) /\ HasVariant(disk[c], v)
                      /\ calcs' = [calcs EXCEPT ![i] = disk[c] \o v]
                      /\ obs' = <<"constructed", disk[c] \o v>> /\ hist' = Append(hist, <<"Construct", i, c \o v>>)
                      /\ UNCHANGED <<env, wd, disk, shared>>
\* the user replaces the files at path c by those of data set d (same file names, other content); calculators that exist keep
\* what they read, calculators constructed afterwards see the new content (nothing may remember a path's old content)
Rewrite(c, d) == /\ disk[c] # d /\ disk' = [disk EXCEPT ![c] = d]
                 /\ hist' = Append(hist, <<"Rewrite", c, d>>) /\ obs' = <<"rewritten", c>>
                 /\ UNCHANGED <<env, wd, calcs, shared>>
Read(i, q) == /\ calcs[i] # "none" /\ obs' = <<"value", Ref(calcs[i], q)>>
              /\ hist' = Append(hist, <<"Read", i, q>>) /\ UNCHANGED <<env, wd, disk, calcs, shared>>
Write(i, w) == /\ calcs[i] # "none" /\ obs' = <<"files", Ref(calcs[i], w)>>
               /\ hist' = Append(hist, <<"Write", i, w[1], w[2]>>) /\ UNCHANGED <<env, wd, disk, calcs, shared>>
WriteOutput(i) == /\ calcs[i] # "none" /\ obs' = <<"files", Ref(calcs[i], "write_output")>>
                  /\ hist' = Append(hist, <<"WriteOutput", i>>) /\ UNCHANGED <<env, wd, disk, calcs, shared>>
\* symmetry filling applied again to the calculator's (already filled) static table: nothing changes
Refill(i) == /\ calcs[i] # "none" /\ obs' = <<"table", Ref(calcs[i], "static_table")>>
             /\ hist' = Append(hist, <<"Refill", i>>) /\ UNCHANGED <<env, wd, disk, calcs, shared>>
\* the command line: `cij run SETTINGS` / `cij fill -s SYSTEM TABLE` on the files a path holds now, in a child process started by this
\* one (it inherits the hash seed and the working-directory kind).  What it writes / prints is a function of those files alone, and
\* nothing in this process changes.
Cli(cmd, c) == /\ obs' = <<"clifiles", Ref(disk[c], cmd)>> /\ hist' = Append(hist, <<cmd, c>>)
               /\ UNCHANGED <<env, wd, disk, calcs, shared>>
LNext == \/ \E i \in Ids, c \in Cfgs, v \in Variants : Construct(i, c, v)
         \/ \E c \in {"A", "C"}, cmd \in {"CliRun", "CliFill"} : Cli(cmd, c)
         \/ \E c \in {"A", "C"}, d \in {"A", "C"} : Rewrite(c, d)
         \/ \E i \in Ids, q \in Quantities : Read(i, q)
         \/ \E i \in Ids, w \in Writes : Write(i, w)
         \/ \E i \in Ids : WriteOutput(i) \/ Refill(i)
LSpec == LInit /\ [][LNext]_lvars
LView == <<env, wd, disk, calcs, shared, obs>>

\* observations depend on the calculator's configuration only
ObsLaw == obs[1] \in {"value", "files", "table"} => \E i \in Ids : calcs[i] # "none" /\ obs[2][1] = calcs[i]
CliLaw == obs[1] = "clifiles" => obs[2][1] \in {disk[c] : c \in Cfgs}
\* no action touches the module-level state; calculators never change configuration once constructed
SharedFrozen == [][shared' = shared]_lvars
\* no action moves the process to another working directory
WdFrozen == [][wd' = wd]_lvars
CalcsStable == [][\A i \in Ids : calcs[i] # "none" => calcs'[i] = calcs[i]]_lvars
MaxLen == 6
Bound == Len(hist) <= MaxLen
EmitHist == Len(hist) < MaxLen \/ PrintT(<<"LIFE", env, hist>>)
=============================================================================
