------------------------------ MODULE Lifecycle ------------------------------
(***************************************************************************)
(* Determinism and isolation of calculations within one interpreter        *)
(* process (C14).  A process has an environment (hash seed, working        *)
(* directory content), a module-level shared state (unit registry, writer  *)
(* rules), and any number of Calculator objects, each with lazily cached   *)
(* results.  The specification says: every observation is a function of    *)
(* the calculator's configuration alone - not of the environment, not of   *)
(* what was constructed, read or written before - and no action changes    *)
(* the shared state or another calculator.                                 *)
(*                                                                         *)
(* Ref[c][q] is the observation of a single fresh run with configuration c *)
(* (abstractly: the pair <<c, q>>).                                        *)
(***************************************************************************)
EXTENDS Integers, Sequences, FiniteSets, TLC

Ids == {1, 2}
Cfgs == {"A", "B", "C"}          \* C has the same array shapes as A (grids, q-points, modes) but different data
Quantities == {"modulus_adiabatic", "modulus_isothermal", "tp_bulk_vrh", "tp_vp", "tp_volumes", "compliances"}
Writes == {<<"tp", "cij">>, <<"tp", "bm_VRH">>, <<"tv", "p">>}
Seeds == {"0", "1", "2", "random"}
Cwds == {"empty", "junk", "dir_named_like_system"}

VARIABLES env,      \* [seed, cwd] of the process
          calcs,    \* id -> configuration, or "none"
          shared,   \* version counter of the module-level state
          obs,      \* last observation <<kind, value>>
          hist      \* actions taken (observation only)
lvars == <<env, calcs, shared, obs, hist>>
Ref(c, q) == <<c, q>>

LInit == /\ env \in [seed : Seeds, cwd : Cwds] /\ calcs = [i \in Ids |-> "none"] /\ shared = 0
         /\ obs = <<"none", <<>>>> /\ hist = <<>>
Construct(i, c) == /\ calcs[i] = "none" /\ calcs' = [calcs EXCEPT ![i] = c]
                   /\ obs' = <<"constructed", c>> /\ hist' = Append(hist, <<"Construct", i, c>>)
                   /\ UNCHANGED <<env, shared>>
Read(i, q) == /\ calcs[i] # "none" /\ obs' = <<"value", Ref(calcs[i], q)>>
              /\ hist' = Append(hist, <<"Read", i, q>>) /\ UNCHANGED <<env, calcs, shared>>
Write(i, w) == /\ calcs[i] # "none" /\ obs' = <<"files", Ref(calcs[i], w)>>
               /\ hist' = Append(hist, <<"Write", i, w[1], w[2]>>) /\ UNCHANGED <<env, calcs, shared>>
WriteOutput(i) == /\ calcs[i] # "none" /\ obs' = <<"files", Ref(calcs[i], "write_output")>>
                  /\ hist' = Append(hist, <<"WriteOutput", i>>) /\ UNCHANGED <<env, calcs, shared>>
\* symmetry filling applied again to the calculator's (already filled) static table: nothing changes
Refill(i) == /\ calcs[i] # "none" /\ obs' = <<"table", Ref(calcs[i], "static_table")>>
             /\ hist' = Append(hist, <<"Refill", i>>) /\ UNCHANGED <<env, calcs, shared>>
LNext == \/ \E i \in Ids, c \in Cfgs : Construct(i, c)
         \/ \E i \in Ids, q \in Quantities : Read(i, q)
         \/ \E i \in Ids, w \in Writes : Write(i, w)
         \/ \E i \in Ids : WriteOutput(i) \/ Refill(i)
LSpec == LInit /\ [][LNext]_lvars
LView == <<env, calcs, shared, obs>>

\* observations depend on the calculator's configuration only
ObsLaw == obs[1] \in {"value", "files", "table"} => \E i \in Ids : calcs[i] # "none" /\ obs[2][1] = calcs[i]
\* no action touches the module-level state; calculators never change configuration once constructed
SharedFrozen == [][shared' = shared]_lvars
CalcsStable == [][\A i \in Ids : calcs[i] # "none" => calcs'[i] = calcs[i]]_lvars
MaxLen == 6
Bound == Len(hist) <= MaxLen
EmitHist == Len(hist) < MaxLen \/ PrintT(<<"LIFE", env, hist>>)
=============================================================================
