SPECIFICATION PSpec
CONSTRAINT Bound
INVARIANT EmitHist
