-------------------------------- MODULE C16 --------------------------------
(***************************************************************************)
(* C16: effective configuration = user settings over packaged defaults;    *)
(* invalid configurations are rejected.                                    *)
(* Part 1: all 144 x 144 ordered pairs of dictionary trees are states      *)
(*         (shift walk); the merge laws are invariants.                    *)
(* Part 2: the documented fields with their value classes; every single-   *)
(*         field perturbation of three valid base configurations gets a    *)
(*         verdict, exported for replay through read_config/validate.      *)
(***************************************************************************)
EXTENDS Config, Json, IOUtils

VARIABLES u, d
vars == <<u, d>>
Init == u = Dict(<<>>) /\ d = Dict(<<>>)
Shift == u' = d /\ d' \in D2
Spec16 == Init /\ [][Shift]_vars

m == Merge(u, d)
\* every user-specified leaf survives, at its path
UserLeavesKept == LeafPaths(u, <<>>) \subseteq LeafPaths(m, <<>>)
\* every other leaf comes from the defaults, at a path the user did not specify (no user node is a prefix-or-equal
\* leaf/dict that shadows it)
DefaultsFill == \A lp \in LeafPaths(m, <<>>) \ LeafPaths(u, <<>>) :
                   /\ lp \in LeafPaths(d, <<>>)
                   /\ lp[1] \notin Paths(u, <<>>)
NoStrayKeys == Paths(m, <<>>) \subseteq Paths(u, <<>>) \cup Paths(d, <<>>)
Idempotent == Merge(m, d) = m
Identities == Merge(u, Dict(<<>>)) = u /\ Merge(Dict(<<>>), d) = d
\* the merge commutes with nesting (under a shared key, and next to an unrelated sibling that only one side has): by induction the
\* laws above hold for trees of any depth - real configurations reach depth four (elast.settings.mode_gamma.order)
Nest(k, t) == Dict([x \in {k} |-> t])
NestLaw == /\ Merge(Nest("a", u), Nest("a", d)) = Nest("a", m)
           /\ Merge(Dict([x \in {"a"} |-> u]), Dict([x \in {"a", "b"} |-> IF x = "a" THEN d ELSE Leaf(2)]))
                = Dict([x \in {"a", "b"} |-> IF x = "a" THEN m ELSE Leaf(2)])
ASSUME Cardinality(D2) = 144

\* ------------------------------------------------------------------ export of the merge table
Plain(t) == t            \* tagged form <<"L",n>> / <<"D",f>> is kept; the harness converts
ASSUME JsonSerialize(IOEnv.OUTD \o "/c16_merge.json",
   [ trees |-> [n \in 1..Cardinality(D2) |-> TRUE],
     pairs |-> {[u |-> x, d |-> y, m |-> Merge(x, y)] : x \in D2, y \in D2} ])

\* ------------------------------------------------------------------ Part 2: documented fields and value classes
NumFields == { [path |-> <<"qha","settings","NT">>,             int |-> TRUE,  min |-> <<1>>],
               [path |-> <<"qha","settings","NTV">>,            int |-> TRUE,  min |-> <<1>>],
               [path |-> <<"qha","settings","DT">>,             int |-> FALSE, min |-> <<>>],
               [path |-> <<"qha","settings","T_MIN">>,          int |-> FALSE, min |-> <<0>>],
               [path |-> <<"qha","settings","P_MIN">>,          int |-> FALSE, min |-> <<>>],
               [path |-> <<"qha","settings","DELTA_P">>,        int |-> FALSE, min |-> <<>>],
               [path |-> <<"qha","settings","DELTA_P_SAMPLE">>, int |-> FALSE, min |-> <<>>],
               [path |-> <<"qha","settings","volume_ratio">>,   int |-> FALSE, min |-> <<1>>],
               [path |-> <<"qha","settings","order">>,          int |-> FALSE, min |-> <<2>>],
               [path |-> <<"elast","settings","mode_gamma","order">>, int |-> TRUE, min |-> <<1>>],
               [path |-> <<"elast","settings","symmetry","drop_atol">>, int |-> FALSE, min |-> <<>>],
               [path |-> <<"elast","settings","symmetry","residual_atol">>, int |-> FALSE, min |-> <<>>] }
Interpolators == {"lsq_poly", "lagrange", "spline", "krogh", "pchip", "hermite", "akima"}
CrystalSystems == {"triclinic", "monoclinic", "hexagonal", "trigonal6", "trigonal7", "orthorhombic", "tetragonal6", "tetragonal7", "cubic"}

\* value classes of a numeric field and the documented verdict
NumClasses(f) == {"int_ok", "string", "boolean", "null"}
                 \cup (IF f.int THEN {"fractional"} ELSE {"float_ok"})
                 \cup (IF f.min # <<>> THEN {"below_min"} ELSE {})
NumVerdict(f, c) == c \in {"int_ok", "float_ok"}

Perturbations ==
     {[kind |-> "num", path |-> f.path, class |-> c, min |-> f.min, valid |-> NumVerdict(f, c)] : f \in NumFields, c \in UNION {NumClasses(g) : g \in NumFields}}
\cup {[kind |-> "enum", path |-> <<"elast","settings","mode_gamma","interpolator">>, value |-> v, valid |-> TRUE] : v \in Interpolators}
\cup {[kind |-> "enum", path |-> <<"elast","settings","mode_gamma","interpolator">>, value |-> "cubic_spline", valid |-> FALSE]}
\cup {[kind |-> "enum", path |-> <<"elast","settings","symmetry","system">>, value |-> v, valid |-> TRUE] : v \in CrystalSystems}
\cup {[kind |-> "enum", path |-> <<"elast","settings","symmetry","system">>, value |-> "rhombohedral", valid |-> FALSE]}
\* an enumeration is a set of whole words: a documented name with something before or after it is another, undocumented word
\cup {[kind |-> "enum", path |-> <<"elast","settings","symmetry","system">>, value |-> v \o x, valid |-> FALSE] : v \in CrystalSystems, x \in {"2", " ", "_a"}}
\cup {[kind |-> "enum", path |-> <<"elast","settings","symmetry","system">>, value |-> "x" \o v, valid |-> FALSE] : v \in CrystalSystems}
\cup {[kind |-> "enum", path |-> <<"elast","settings","mode_gamma","interpolator">>, value |-> v \o x, valid |-> FALSE] : v \in Interpolators, x \in {"2", "_"}}
\cup {[kind |-> "enum", path |-> <<"elast","settings","mode_gamma","interpolator">>, value |-> "x" \o v, valid |-> FALSE] : v \in Interpolators}
\cup {[kind |-> "extra_key", path |-> <<"elast","settings">>, valid |-> FALSE]}
\cup {[kind |-> "extra_key", path |-> <<"elast","settings","symmetry">>, valid |-> FALSE]}
\cup {[kind |-> "drop_section", path |-> <<"qha">>, valid |-> FALSE]}
\cup {[kind |-> "drop_section", path |-> <<"elast">>, valid |-> FALSE]}
\cup {[kind |-> "drop_section", path |-> <<"output">>, valid |-> TRUE]}
\cup {[kind |-> "none", path |-> <<>>, valid |-> TRUE]}
WellFormed(p) == p.kind = "num" => \E f \in NumFields : f.path = p.path /\ p.class \in NumClasses(f)
ASSUME JsonSerialize(IOEnv.OUTD \o "/c16_valid.json", [perturbations |-> {p \in Perturbations : WellFormed(p)}])
=============================================================================
