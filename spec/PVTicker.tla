------------------------------ MODULE PVTicker ------------------------------
(***************************************************************************)
(* Supplementary model X06: the pressure ticks on a volume axis            *)
(* (cij/plot/pvticker.py: PofVLocator, PofVFormatter; used by `cij modes   *)
(* -p INTERVAL` and ModePlotter.add_pressure_ticks).                       *)
(*                                                                         *)
(* The axis shows volumes vlo..vhi (given in either order); P(V) decreases *)
(* with V.  The locator puts one tick at every whole multiple of the       *)
(* interval that lies in [P(vhi), P(vlo)], at the volume where P(V) equals *)
(* it; the formatter labels a tick position with P(V) rounded to `ndec`    *)
(* decimals.  More than 201 ticks (or none possible because the range is   *)
(* inverted) is refused.                                                   *)
(*                                                                         *)
(* Pressures are integers in units of 1/Den (the replay divides by Den), so *)
(* that pressure ranges ending exactly on a multiple of the interval - the  *)
(* boundary of ceil/floor - are part of the domain.                        *)
(***************************************************************************)
EXTENDS Integers, FiniteSets, TLC

Den == 4                                   \* pressures are k/4
PMins == {-9, -8, -1, 0, 3, 8}             \* P(vhi) * Den
Widths == {1, 7, 8, 16, 40, 400, 402, 404, 3300}   \* (P(vlo) - P(vhi)) * Den; 400 with interval 2 is exactly 201 ticks
Intervals == {2, 4, 8}                     \* interval * Den  (0.5, 1, 2)
MaxTicks == 201

\* floor and ceiling of a / b for b > 0 (TLC's \div rounds towards minus infinity for positive divisors)
Floor(a, b) == a \div b
Ceil(a, b) == -((-a) \div b)

Ticks(pmin, pmax, iv) == {k * iv : k \in Ceil(pmin, iv)..Floor(pmax, iv)}
Refused(pmin, pmax, iv) == LET ni == Floor(pmax, iv) - Ceil(pmin, iv) IN ni < 0 \/ ni > 200

VARIABLES pmin, pmax, iv, swapped, out
tvars == <<pmin, pmax, iv, swapped, out>>
TInit == /\ pmin \in PMins /\ \E w \in Widths : pmax = pmin + w
         /\ iv \in Intervals /\ swapped \in BOOLEAN          \* the axis limits may be handed over as (vhi, vlo)
         /\ out = IF Refused(pmin, pmax, iv) THEN [refused |-> TRUE, ticks |-> {}] ELSE [refused |-> FALSE, ticks |-> Ticks(pmin, pmax, iv)]
TSpec == TInit /\ [][UNCHANGED tvars]_tvars

\* every tick is a whole multiple of the interval inside the pressure range of the axis ...
Inside == ~out.refused => \A t \in out.ticks : t % iv = 0 /\ pmin <= t /\ t <= pmax
\* ... and no such multiple is left out (the range ends included)
Complete == ~out.refused => \A t \in pmin..pmax : t % iv = 0 => t \in out.ticks
\* at most 201 ticks; a range that holds no multiple at all is refused, not drawn without ticks
Bounded == ~out.refused => Cardinality(out.ticks) \in 1..MaxTicks
RefusedIff == out.refused <=> (Cardinality({t \in pmin..pmax : t % iv = 0}) = 0 \/ Cardinality({t \in pmin..pmax : t % iv = 0}) > MaxTicks)
\* the orientation in which the limits are handed over is immaterial (same state otherwise, same ticks): by construction of TInit;
\* stated so that the replay exercises both
EmitTick == PrintT(<<"TICK", pmin, pmax, iv, swapped, IF out.refused THEN <<"refused">> ELSE <<Cardinality(out.ticks), Ceil(pmin, iv) * iv, Floor(pmax, iv) * iv>>>>)
=============================================================================
