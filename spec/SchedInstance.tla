---------------------------- MODULE SchedInstance ----------------------------
(***************************************************************************)
(* The scheduling problem instance derived from ShearSolver: which tasks   *)
(* exist, which strain values (hence which tasks) coincide under a strain  *)
(* scenario, and what every shear task depends on.  Evaluated once per     *)
(* scenario (ASSUME-level) and exported; the export is turned into the     *)
(* literal data module SchedData that TaskScheduler is model-checked on.   *)
(*                                                                         *)
(* Task identity is what the code's parameter equality identifies:         *)
(*   shear task      "S<IJ>"        (base frame, key IJ)                    *)
(*   non-shear task  "L<v>" / "O<v>_<w>"  with v <= w ids of axial strain-  *)
(*                   fraction VALUES (the code's equality for non-shear     *)
(*                   tasks ignores the key).                                *)
(* Strain values are exact linear forms in (e1,e2,e3); Scenario says which  *)
(* of e1,e2,e3 coincide.                                                    *)
(***************************************************************************)
EXTENDS ShearSolver, Bags, SequencesExt, TLC, Json, IOUtils

Scenario == IOEnv.SCENARIO      \* "generic" | "uniaxial" (e1 = e2) | "uniaxial23" (e2 = e3) | "uniaxial13" (e1 = e3) | "isotropic"


\* ------------------------------------------------------------------ strain values
Collapse(c) == CASE Scenario = "generic"   -> c
                 [] Scenario = "uniaxial"  -> << FAdd(c[1], c[2]), F0, c[3] >>
                 [] Scenario = "uniaxial23" -> << c[1], FAdd(c[2], c[3]), F0 >>
                 [] Scenario = "uniaxial13" -> << FAdd(c[1], c[3]), c[2], F0 >>
                 [] Scenario = "isotropic" -> << FAdd(FAdd(c[1], c[2]), c[3]), F0, F0 >>
Irr(c) == \E i \in I3 : c[i][2] # R0
MkVal(dd, c) == LET cc == Collapse(c) IN [d |-> IF Irr(cc) THEN dd ELSE 0, c |-> cc]
BaseVal(i) == MkVal(0, [j \in I3 |-> IF j = i THEN F1 ELSE F0])
\* constant-level tables (TLC evaluates them once): rotated strain values of every shear key, eigh axis order
RotValTable == [K \in ShearKeys |-> LET sr == StrainRot(K, 0) IN [a \in I3 |-> MkVal(Disc(K), sr[a])]]
RotVal(K, a) == RotValTable[K][a]

AllValues == {BaseVal(i) : i \in I3} \cup {RotVal(K, a) : K \in ShearKeys, a \in I3}
ValSeq == SetToSeq(AllValues)
VIdTable == [v \in AllValues |-> CHOOSE n \in 1..Len(ValSeq) : ValSeq[n] = v]
VId(v) == VIdTable[v]

\* ------------------------------------------------------------------ tasks and dependencies
\* a diagonal request (a = b) is a longitudinal task; a # b is off-diagonal even when the two values coincide
\* off-diagonal tasks carry the ORDERED pair of values: the code compares the parameter pair position by position
NSab(a, b, v, w) == IF a = b THEN "L" \o ToString(v) ELSE "O" \o ToString(v) \o "_" \o ToString(w)
KeyStr(K) == ToString(K[1]) \o ToString(K[2])
RootTable == [K \in Keys |-> IF IsShear(K) THEN "S" \o KeyStr(K)
                             ELSE NSab(K[1], K[2], VId(BaseVal(K[1])), VId(BaseVal(K[2])))]
Root(K) == RootTable[K]

\* dependencies of a task as a bag (the code pushes one queue entry per requested key, duplicates included)
\* position of a specification axis in the solver's frame: numpy.linalg.eigh returns ascending eigenvalues; Spectrum(K) lists
\* <+, -, 0> (classes A-C) and <+1, +1, -1> (class D, where LAPACK returns the shear-plane vector before the axis vector)
PosOf(K, a) == IF KClass(K) = "D" THEN (CASE a = 3 -> 1 [] a = 2 -> 2 [] a = 1 -> 3)
                                  ELSE (CASE a = 2 -> 1 [] a = 3 -> 2 [] a = 1 -> 3)
RotDep(K, k)  == LET f == IF PosOf(K, k[1]) <= PosOf(K, k[2]) THEN k[1] ELSE k[2]
                     g == IF f = k[1] THEN k[2] ELSE k[1]
                 IN NSab(k[1], k[2], VId(RotVal(K, f)), VId(RotVal(K, g)))
DepBagOfKey(K) ==
  LET mk  == ModKeys(K)
      rk  == RotKeys(K)
      own == {k \in Keys : mk[k] > 0}
      rot == {k \in DOMAIN rk : rk[k] > 0}
      T   == {Root(k) : k \in own} \cup {RotDep(K, k) : k \in rot}
      Cnt(x) == LET RECURSIVE S1(_) S1(S) == IF S = {} THEN 0 ELSE LET k == CHOOSE y \in S : TRUE IN
                                (IF Root(k) = x THEN mk[k] ELSE 0) + S1(S \ {k})
                    RECURSIVE S2(_) S2(S) == IF S = {} THEN 0 ELSE LET k == CHOOSE y \in S : TRUE IN
                                (IF RotDep(K,k) = x THEN rk[k] ELSE 0) + S2(S \ {k})
                IN S1(own) + S2(rot)
  IN [x \in T |-> Cnt(x)]
ShearDepTable == [K \in ShearKeys |-> DepBagOfKey(K)]

\* ------------------------------------------------------------------ symbolic: value of every component over leaf atoms
\* value of a shear task as a linear combination of its dependencies' values (field Q(sqrt Disc(K))):
\*   c_K = ( sum_{(a,b) in nzrot^2} la_a la_b c'(a,b)  -  sum_{own-frame requests} c(k) ) / (M_ij M_kl mult)
TargetTerms(K) ==
  LET dd == Disc(K)  sp == Spectrum(K)  M == Fict(K)  s == Standard(K)
      den == FQ(1, M[s[1]][s[2]] * M[s[3]][s[4]] * MultFormula(K))
      rot == {[dep |-> RotDep(K, Canon2(ab[1], ab[2])), ab |-> ab, coef |-> FMul(dd, den, FMul(dd, sp[ab[1]], sp[ab[2]]))]
                 : ab \in NZRot(K) \X NZRot(K)}
      own == {[dep |-> Root(k), key |-> k, coef |-> FMul(dd, den, FI(-ModKeys(K)[k]))] : k \in {kk \in Keys : ModKeys(K)[kk] > 0}}
  IN [rot |-> rot, own |-> own]

\* In the isotropic scenario every strain value is the single value 1/3(e1+e2+e3): all longitudinal tasks are one task L,
\* all off-diagonal tasks one task O.  The value of each shear key over the atoms (L, O), exactly:
IsoVal(K) ==   \* <<coefficient of L, coefficient of O>> in Q(sqrt Disc(K)), own-frame shear requests substituted
  LET RECURSIVE V(_)
      V(k) == IF ~IsShear(k) THEN (IF k[1] = k[2] THEN <<F1, F0>> ELSE <<F0, F1>>)
              ELSE LET dd == Disc(k)  tt == TargetTerms(k)
                       rotSum == FoldSet(LAMBDA r, acc : IF r.ab[1] = r.ab[2]
                                            THEN <<FAdd(acc[1], r.coef), acc[2]>> ELSE <<acc[1], FAdd(acc[2], r.coef)>>,
                                         <<F0, F0>>, tt.rot)
                   IN FoldSet(LAMBDA o, acc : LET w == V(o.key) IN
                                 \* own-frame requests of k live in Q(sqrt 2) or are rational: coefficients are rational here
                                 <<FAdd(acc[1], FMul(dd, o.coef, w[1])), FAdd(acc[2], FMul(dd, o.coef, w[2]))>>,
                              rotSum, tt.own)
  IN V(K)

\* c44 = c55 = c66 = (L - O)/2 and every other shear-type component vanishes
IsotropicLimit ==
  \A K \in ShearKeys : IsoVal(K) = IF K[1] = K[2] THEN <<FQ(1,2), FQ(-1,2)>> ELSE <<F0, F0>>

\* ------------------------------------------------------------------ export
Fld(x) == [a |-> x[1], b |-> x[2]]
ValRow(n) == [id |-> n, d |-> ValSeq[n].d, c |-> [i \in I3 |-> Fld(ValSeq[n].c[i])]]
ShearRow(K) == [task |-> Root(K), key |-> K, disc |-> Disc(K),
         deps |-> {[dep |-> x, n |-> ShearDepTable[K][x]] : x \in DOMAIN ShearDepTable[K]},
         rot |-> {[dep |-> r.dep, ab |-> r.ab, coef |-> Fld(r.coef)] : r \in TargetTerms(K).rot},
         own |-> {[dep |-> o.dep, key |-> o.key, coef |-> Fld(o.coef)] : o \in TargetTerms(K).own}]
ASSUME Scenario \in {"generic", "uniaxial", "uniaxial23", "uniaxial13", "isotropic"}
ASSUME Scenario = "isotropic" => IsotropicLimit
ASSUME JsonSerialize(IOEnv.OUTD \o "/sched_" \o Scenario \o ".json",
   [ scenario |-> Scenario,
     values |-> [n \in 1..Len(ValSeq) |-> ValRow(n)],
     roots  |-> {[key |-> K, task |-> Root(K)] : K \in Keys},
     shear  |-> {ShearRow(K) : K \in ShearKeys} ])
=============================================================================
