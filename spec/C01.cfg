SPECIFICATION ObjSpec
VIEW ObjView
INVARIANT DepsClosed
INVARIANT CachedRight
INVARIANT LastRight
PROPERTY CacheMonotone
