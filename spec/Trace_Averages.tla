--------------------------- MODULE Trace_Averages ---------------------------
(***************************************************************************)
(* Per-sample validation of the reported averages, bounds, compliances and *)
(* velocities (scaled integers).  One NDJSON record per (T,V) sample:      *)
(*   c, s     : 6x6 symmetric matrices as sequences of rows;               *)
(*              c in units 1e-1 GPa, s in units 1e-6 / GPa                 *)
(*   kv,kr,kh,gv,gr,gh : 1e-2 GPa        rho : 1e-2 g/cm^3                 *)
(*   vp, vs   : 1e-2 km/s               pd  : stiffness positive definite  *)
(* Relations:  s c = 1 (Inverse),  Hill = (V+R)/2,  R <= H <= V when pd,   *)
(*   rho vs^2 = G_H,  rho vp^2 = K_H + 4 G_H / 3.                          *)
(***************************************************************************)
EXTENDS Integers, Sequences, Json, IOUtils, TLC

Tr == ndJsonDeserialize(IOEnv.TRACE_FILE)
VARIABLE i
Abs(x) == IF x < 0 THEN -x ELSE x
Within(a, b, slack) == Abs(a - b) <= slack

\* (s c)_IJ in units 1e-7: identity = 10^7
Row(e, I, J) == e.s[I][1]*e.c[1][J] + e.s[I][2]*e.c[2][J] + e.s[I][3]*e.c[3][J]
              + e.s[I][4]*e.c[4][J] + e.s[I][5]*e.c[5][J] + e.s[I][6]*e.c[6][J]
Inverse(e) == \A I \in 1..6, J \in 1..6 : Within(Row(e, I, J), IF I = J THEN 10000000 ELSE 0, e.islack)
Hill(e)    == Within(2 * e.kh, e.kv + e.kr, 3) /\ Within(2 * e.gh, e.gv + e.gr, 3)
Bounds(e)  == e.pd => (e.kr <= e.kh + 1 /\ e.kh <= e.kv + 1 /\ e.gr <= e.gh + 1 /\ e.gh <= e.gv + 1)
\* rho[1e-2] * v^2[1e-4] = 1e-6 GPa ; modulus[1e-2 GPa] * 10^4
VelS(e)    == Within(e.rho * e.vs * e.vs, e.gh * 10000, e.vslack)
VelP(e)    == Within(3 * e.rho * e.vp * e.vp, (3 * e.kh + 4 * e.gh) * 10000, 3 * e.vslack)
Ok(e) == Inverse(e) /\ Hill(e) /\ Bounds(e) /\ VelS(e) /\ VelP(e)

Init == i = 0
Sample == i < Len(Tr) /\ Ok(Tr[i+1]) /\ i' = i + 1
TraceSpec == Init /\ [][Sample]_i
Accepted == TLCGet("stats").diameter - 1 = Len(Tr)
\* which clause fails first (reported by the harness on rejection)
=============================================================================
