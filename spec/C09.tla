-------------------------------- MODULE C09 --------------------------------
(***************************************************************************)
(* C09: the fill decision.  The subsets of supplied components are         *)
(* explored as a state lattice (Supply adds one component); in every state *)
(* `det` is the exact decision "the supplied components together with the  *)
(* relations determine all 21".  The reachable states are dumped and       *)
(* replayed through fill_cij / `cij fill`.                                 *)
(*                                                                         *)
(* FillData is a literal data module generated from the export of C08.tla  *)
(* (null-space basis of the packaged relations, computed exactly by        *)
(* Fill.tla/LinAlg.tla) and from the relation files themselves:            *)
(*   SystemsAll, DimOf[s], NonVanOf[s], INull[s][n] (row n of 2*N, ints),  *)
(*   IRel[s] (set of integer relation rows).                               *)
(* (Literal data rather than EXTENDS Fill: TLC evaluates constant tables   *)
(* of a behaviour spec eagerly and very slowly.)                           *)
(***************************************************************************)
EXTENDS LinAlg, FillData, TLC, Json, IOUtils

NSym == 21
IUnit(n) == [j \in 1..NSym |-> IF j = n THEN 1 ELSE 0]
\* the supplied symbols determine the tensor iff rows S of the null-space matrix have full column rank
Det(s, S) == IRank({INull[s][n] : n \in S}, DimOf[s]) = DimOf[s]
\* the code's formulation: rank of [unit rows of the supplied symbols ; relations] = 21
DetStack(s, S) == IRank(IRel[s] \cup {IUnit(n) : n \in S}, NSym) = NSym

VARIABLES sys, S, det
vars == <<sys, S, det>>
\* large lattices (only "= 0" relations: triclinic, monoclinic, orthorhombic) are explored near the top only
Big(s) == Cardinality(NonVanOf[s]) > 15
Tops(s) == {NonVanOf[s]} \cup {NonVanOf[s] \ {a, b} : a \in NonVanOf[s], b \in NonVanOf[s]}    \* (never SUBSET of 21 elements)
Init == sys = "start" /\ S = {} /\ det = FALSE
Pick == sys = "start" /\ \E s \in SystemsAll : \E S0 \in (IF Big(s) THEN Tops(s) ELSE {{}}) : sys' = s /\ S' = S0 /\ det' = Det(s, S0)
Supply == sys # "start" /\ \E n \in NonVanOf[sys] \ S : S' = S \cup {n} /\ det' = Det(sys, S') /\ UNCHANGED sys
Next == Supply \/ Pick
Spec09 == Init /\ [][Next]_vars

\* supplying more never un-determines
Monotone == [][(sys' = sys /\ det) => det']_vars
\* with everything non-vanishing supplied the tensor is determined; with nothing supplied it is not (dimension >= 3)
Extremes == sys # "start" => (S = NonVanOf[sys] => det) /\ (S = {} => ~det)
\* the code's formulation agrees with the invariant-subspace formulation (vanishing symbols are immaterial)
Agree == sys # "start" => (det <=> DetStack(sys, S))

\* decision table of the refusal, as the property words it; (under-determined, inconsistent, ignore_rank) is not asserted
Outcome(d, gross, ign_rank, ign_res) ==
   IF (~d /\ ~ign_rank) \/ (d /\ gross /\ ~ign_res) THEN "raise" ELSE "accept"
ASSUME JsonSerialize(IOEnv.OUTD \o "/c09_outcome.json",
   [ table |-> {[det |-> d, gross |-> g, ignore_rank |-> ir, ignore_residuals |-> ie, outcome |-> Outcome(d, g, ir, ie)]
                   : d \in BOOLEAN, g \in BOOLEAN, ir \in BOOLEAN, ie \in BOOLEAN} ])
=============================================================================
