SPECIFICATION TSpec
INVARIANT Inside
INVARIANT Complete
INVARIANT Bounded
INVARIANT RefusedIff
INVARIANT EmitTick
