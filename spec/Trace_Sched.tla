----------------------------- MODULE Trace_Sched -----------------------------
(***************************************************************************)
(* Trace validation of PhononContributionTaskList.resolve()/calculate()/   *)
(* get_*_results() against TaskScheduler (faithful bag queue).  Events are *)
(* emitted by the env-guarded hooks of cij/core/tasks.py and by harness    *)
(* wrappers around the result stores; task identities are projected onto   *)
(* the specification's task ids by the strain values they carry.           *)
(* A field ntasks/qlen of -1 means "not logged" (projection not injective).*)
(***************************************************************************)
EXTENDS TaskScheduler, Json, IOUtils

Tr == ndJsonDeserialize(IOEnv.TRACE_FILE)
VARIABLE i
tvars == <<svars, i>>
E == Tr[i+1]
Is(ev) == i < Len(Tr) /\ E.ev = ev /\ i' = i + 1
SeqSet(sq) == {sq[n] : n \in 1..Len(sq)}

TrRequest == Is("Request") /\ Request(E.key)
TrStart   == Is("Start") /\ Start /\ E.qlen = BagCardinality(queue')
TrPop     == Is("Pop") /\ Pop(<<E.task, E.dep>>)
             /\ (E.ntasks # -1 => ((E.new <=> E.task \notin tasks) /\ E.ntasks = Cardinality(tasks')))
             /\ E.qlen = BagCardinality(queue')
\* the recorded order is a topological order of the model's graph over exactly the model's tasks
Pos(sq, t) == CHOOSE n \in 1..Len(sq) : sq[n] = t
TrSort    == Is("Sort") /\ Sort
             /\ SeqSet(E.order) = tasks
             /\ (\A e \in edges : Pos(E.order, e[1]) < Pos(E.order, e[2]))
             /\ {<<g[1], g[2]>> : g \in SeqSet(E.edges)} = edges
\* one task evaluated: enabled in the model (all dependencies stored), reads exactly its dependencies
\* (WHICH store they are read from is C02's clause, validated by Trace_ShearAdi.tla, not here)
TrEval    == Is("Eval") /\ Eval(E.task)
             /\ {r[1] : r \in SeqSet(E.reads)} = DepSet(E.task)
TrFinish  == Is("Done") /\ Finish
\* get_isothermal_results / get_adiabatic_results: the entry returned for key k is the root task of k
TrGet     == Is("Get") /\ phase = "done" /\ E.task = Root(E.key) /\ E.task \in isoDone /\ E.task \in adiDone
             /\ UNCHANGED svars

\* several recorded runs are validated in one go: a new task list starts from the initial state
TrReset   == Is("Reset") /\ phase = "done"
             /\ phase' = "idle" /\ req' = <<>> /\ queue' = EmptyBag /\ tasks' = {} /\ edges' = {}
             /\ isoDone' = {} /\ adiDone' = {} /\ reads' = {}

TraceInit == SchedInit /\ i = 0
TraceNext == TrRequest \/ TrStart \/ TrPop \/ TrSort \/ TrEval \/ TrFinish \/ TrGet \/ TrReset
TraceSpec == TraceInit /\ [][TraceNext]_tvars
Accepted == TLCGet("stats").diameter - 1 = Len(Tr)
=============================================================================
