-------------------------------- MODULE C01 --------------------------------
(***************************************************************************)
(* C01 / C02 at class level: the closed forms of nonshear.py are the       *)
(* strain derivatives of the QHA free energy, and the adiabatic gap is     *)
(* T V (dP/dT)^2 / (9 ei ej Cv).                                           *)
(*                                                                         *)
(* Part 1 (symbolic, ASSUME): identities of normal forms, true for every   *)
(*         spectrum, T > 0, V, strain fraction.                            *)
(* Part 2 (state machine): the lazily evaluated contribution object.  Any  *)
(*         order of property accesses leaves every cached value equal to   *)
(*         the property-level definition (checked in every reachable       *)
(*         state); behaviours are replayed on the real classes.            *)
(* Part 3: export of the normal forms used by the replay harness.          *)
(***************************************************************************)
EXTENDS Thermo, Aggregate, Json, IOUtils

S1 == {""}                    \* one generic mode, atoms Q n L g kp
S2 == {"1", "2"}              \* two independent modes (needed for products of mode sums)
F(s) == PAdd(Fzp(s), Fth(s))

\* ---------------------------------------------------------------- Part 1: theorems
LongZp == CLong(Fzp(""), S1)        LongTh == CLong(Fth(""), S1)
OffZp  == COffA(Fzp(""), S1)        OffTh  == COffA(Fth(""), S1)
PZp    == Pof(Fzp(""), S1)          PTh    == Pof(Fth(""), S1)
DPDT   == dPdT(F(""), S1)

ASSUME T_LongZp == LongZp = EjToEi(ImplLongZp(""))
ASSUME T_LongTh == LongTh = EjToEi(ImplLongTh(""))
ASSUME T_OffZp  == OffZp = ImplOffZp("")
ASSUME T_OffTh  == OffTh = ImplOffTh("")
\* the physical identity A/(15 ei ej) + P_ph holds exactly when the supplied pressure split is the mode-sum P_ph
ASSUME T_OffPressure == PSub(COff(F(""), S1), ImplOffIso("")) = PSub(Pof(F(""), S1), PAtom("Pin"))
\* zero-point energy does not depend on T; thermal terms vanish as T -> 0
ASSUME T_ZpNoT == Deriv(Fzp(""), DT(S1)) = PZero
ASSUME T_ThVanish == VanishesAtZeroT(LongTh, S1) /\ VanishesAtZeroT(OffTh, S1) /\ VanishesAtZeroT(PTh, S1)
\* dP/dT per mode = k g Q^2 n(n+1) / V
ASSUME T_dPdT == DPDT = PMul(PMul(pk, pg("")), PMul(Q2(""), pVi))
\* gap: the transcription equals the property for two independent modes, hence (bilinearity) for any number
ASSUME T_Gap == SpecGap(S2) = ImplGap(S2)
ASSUME T_GapVanish == VanishesAtZeroT(ImplGap(S2), S2)
\* on the diagonal the gap is (T/(9 e^2 V Cv)) * (sum)^2 : a square times a positive monomial
ASSUME T_GapSquare == LET s == PMul(pV, SumdPdT(S2)) IN
          EjToEi(ImplGap(S2)) = PMul(PTerm(RQ(1,9), MonoMul(MonoMul(Atom("T"), AtomPow("V",-1)),
                                                           MonoMul(AtomPow("Cv",-1), AtomPow("ei",-2)))), PMul(s, s))
\* aggregation: code's mean x weighted average x 3N with the Gamma mask = normalised weighted sum without Gamma acoustic
ASSUME T_Agg == \A nq \in 1..3, nat \in 1..2 : AggTheorem(nq, nat)

\* ---------------------------------------------------------------- Part 2: the lazily evaluated object
Lazy == {"prefactors", "mode_gamma", "Q", "Q1", "Q2", "zp", "th", "iso", "gap"}
Deps == [prefactors |-> {}, mode_gamma |-> {"prefactors"}, Q |-> {}, Q1 |-> {"Q"}, Q2 |-> {"Q"},
         zp |-> {"mode_gamma"}, th |-> {"Q1", "Q2", "mode_gamma"}, iso |-> {"zp", "th"}, gap |-> {"Q2", "mode_gamma"},
         adi |-> {"iso", "gap"}]
Readable == Lazy \cup {"adi"}            \* value_adiabatic is a plain property: recomputed on every read
Kinds == {"long", "offd"}

VARIABLES kind, val, last,     \* val: cached lazies -> value ; last: <<name, value>> of the last read
          hist                 \* history of reads (observation only; hidden from exhaustive runs by VIEW ObjView)
ovars == <<kind, val, last, hist>>
ObjView == <<kind, val, last>>

cOf(kd) == IF kd = "long" THEN 5 ELSE 15
\* compute property p from the cached values v (all dependencies present); literal class bodies
Compute(p, kd, v) ==
  CASE p = "prefactors" -> Pref(cOf(kd))
    [] p = "mode_gamma" -> << PMul(v["prefactors"][1], CalcModeGamma("")[1]),
                              << PMul(v["prefactors"][2][1], CalcModeGamma("")[2]), PMul(v["prefactors"][2][2], CalcModeGamma("")[2]) >>,
                              PMul(v["prefactors"][3], CalcModeGamma("")[3]) >>
    [] p = "Q"  -> pQ("")
    [] p = "Q1" -> PMul(v["Q"], pn(""))
    [] p = "Q2" -> PMul(PMul(v["Q"], v["Q"]), NN1(""))
    [] p = "zp" -> PMul(PMul(HalfHOmega(""), pVi),
                        IF kd = "long" THEN PAdd(PSub(v["mode_gamma"][3], v["mode_gamma"][1]), v["mode_gamma"][2][1])
                                       ELSE PSub(v["mode_gamma"][3], v["mode_gamma"][1]))
    [] p = "th" -> PMul(PMul(PMul(pk, pT), pVi),
                        PAdd(PNeg(PMul(v["Q2"], v["mode_gamma"][3])),
                             PMul(v["Q1"], IF kd = "long" THEN PAdd(PSub(v["mode_gamma"][3], v["mode_gamma"][1]), v["mode_gamma"][2][1])
                                                          ELSE PSub(v["mode_gamma"][3], v["mode_gamma"][1]))))
    [] p = "iso" -> IF kd = "long" THEN PAdd(v["zp"], v["th"]) ELSE PAdd(PAdd(v["zp"], v["th"]), PAtom("Pin"))
    [] p = "gap" -> PMul(PMul(PMul(pT, pVi), PAtomPow("Cv", -1)),
                         PMul(PMul(pk, PMul(v["Q2"], v["mode_gamma"][2][1])), PMul(pk, PMul(v["Q2"], v["mode_gamma"][2][2]))))
    [] p = "adi" -> PAdd(v["iso"], v["gap"])

\* LazyProperty semantics: reading p evaluates missing dependencies first (depth first), caches lazies
RECURSIVE Ensure(_,_,_)
Ensure(p, kd, v) ==
  IF p \in DOMAIN v THEN v
  ELSE LET RECURSIVE Fold(_,_)
           Fold(ds, acc) == IF ds = {} THEN acc
                            ELSE LET d == CHOOSE x \in ds : TRUE IN Fold(ds \ {d}, Ensure(d, kd, acc))
           w == Fold(Deps[p], v)
       IN IF p \in Lazy THEN [x \in (DOMAIN w) \cup {p} |-> IF x = p THEN Compute(p, kd, w) ELSE w[x]] ELSE w

EmptyVal == [x \in {} |-> PZero]
ObjInit == kind \in Kinds /\ val = EmptyVal /\ last = <<"none", PZero>> /\ hist = <<>>
Read(p) == LET w == Ensure(p, kind, val) IN
           /\ val' = w
           /\ last' = <<p, IF p \in Lazy THEN w[p] ELSE Compute(p, kind, w)>>
           /\ hist' = Append(hist, p)
           /\ UNCHANGED kind
ObjNext == \E p \in Readable : Read(p)
ObjSpec == ObjInit /\ [][ObjNext]_ovars

\* property-level definitions of what the observable members must be (single generic mode)
SpecIso(kd) == IF kd = "long" THEN CLong(F(""), S1)
               ELSE PAdd(COffA(F(""), S1), PAtom("Pin"))
SpecGap1 == PMul(PMul(PMul(pT, pV), PTerm(RQ(1,9), MonoMul(MonoMul(AtomPow("ei",-1), AtomPow("ej",-1)), AtomPow("Cv",-1)))),
                 PMul(DPDT, DPDT))
Sub(kd, p) == IF kd = "long" THEN EjToEi(p) ELSE p

DepsClosed == \A p \in DOMAIN val : Deps[p] \subseteq DOMAIN val
CachedRight ==
  /\ "zp"  \in DOMAIN val => Sub(kind, val["zp"])  = IF kind = "long" THEN LongZp ELSE OffZp
  /\ "th"  \in DOMAIN val => Sub(kind, val["th"])  = IF kind = "long" THEN LongTh ELSE OffTh
  /\ "iso" \in DOMAIN val => Sub(kind, val["iso"]) = SpecIso(kind)
  /\ "gap" \in DOMAIN val => val["gap"] = SpecGap1
LastRight ==
  /\ last[1] = "iso" => Sub(kind, last[2]) = SpecIso(kind)
  /\ last[1] = "adi" => Sub(kind, last[2]) = PAdd(SpecIso(kind), Sub(kind, SpecGap1))
\* reads only ever add to the cache and never change a cached value
CacheMonotone == [][\A p \in DOMAIN val : p \in DOMAIN val' /\ val'[p] = val[p]]_ovars

\* simulation: print each behaviour of SimDepth reads (with the cache content the model predicts after every read)
SimDepth == 6
EmitBehaviour == IF hist = <<>> THEN TRUE
                 ELSE PrintT(<<"STEP", kind, hist, DOMAIN val>>) /\ Len(hist) < SimDepth

\* ---------------------------------------------------------------- Part 3: exports
ASSUME JsonSerialize(IOEnv.OUTD \o "/c01_polys.json",
  [ long_zp |-> PExport(LongZp), long_th |-> PExport(LongTh),
    off_zp  |-> PExport(OffZp),  off_th  |-> PExport(OffTh),
    p_zp    |-> PExport(PZp),    p_th    |-> PExport(PTh),
    dpdt    |-> PExport(DPDT),
    gap_of_S |-> PExport(PMul(PMul(PMul(pT, pV), PTerm(RQ(1,9), MonoMul(MonoMul(AtomPow("ei",-1), AtomPow("ej",-1)), AtomPow("Cv",-1)))),
                              PAtomPow("S", 2))) ])
=============================================================================
