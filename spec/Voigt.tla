------------------------------- MODULE Voigt -------------------------------
(***************************************************************************)
(* Index algebra of the elastic tensor: the 81 standard tuples (i,j,k,l),  *)
(* the 36 Voigt pairs (I,J), the 21 canonical keys, and every spelling the *)
(* library accepts (cij.util.c_ / e_ ; cij/util/voigt.py).                 *)
(*                                                                         *)
(* Canonical keys are Voigt pairs <<I,J>> with I <= J.  The definitions    *)
(* follow the constructors of the code step by step (sort inside a pair -> *)
(* Voigt index -> sort the pair by Voigt index); the *property* (module    *)
(* C10) is stated independently, through the orbit under the minor and     *)
(* major symmetries.                                                       *)
(***************************************************************************)
EXTENDS Integers, Sequences, FiniteSets, TLC

I3 == 1..3
V6 == 1..6

\* Voigt -> standard (1->11, 2->22, 3->33, 4->23, 5->13, 6->12)
V2S == << <<1,1>>, <<2,2>>, <<3,3>>, <<2,3>>, <<1,3>>, <<1,2>> >>

Min(a,b) == IF a <= b THEN a ELSE b
Max(a,b) == IF a <= b THEN b ELSE a

\* standard pair -> Voigt (defined on I3 \X I3, symmetric)
S2V(i,j) == CHOOSE v \in V6 : V2S[v] = <<Min(i,j), Max(i,j)>>

Tuples == I3 \X I3 \X I3 \X I3
Pairs  == V6 \X V6
Keys   == {k \in Pairs : k[1] <= k[2]}

Canon2(I,J) == <<Min(I,J), Max(I,J)>>
Canon4(t)   == Canon2(S2V(t[1],t[2]), S2V(t[3],t[4]))

Standard(k) == V2S[k[1]] \o V2S[k[2]]           \* the .standard view of a key
KeyOfStrain(i,j) == S2V(i,j)                    \* strain representation: a Voigt index

\* orbit of a tuple under (ij), (kl) and (ij)<->(kl)
Orbit(t) == LET a == t[1] b == t[2] c == t[3] d == t[4] IN
  { <<a,b,c,d>>, <<b,a,c,d>>, <<a,b,d,c>>, <<b,a,d,c>>,
    <<c,d,a,b>>, <<d,c,a,b>>, <<c,d,b,a>>, <<d,c,b,a>> }

Class(k) == {t \in Tuples : Canon4(t) = k}
\* materialised table (TLCEval forces TLC's lazy function values): use ClassOf[k] in hot loops
ClassOf == TLCEval([k \in Keys |-> TLCEval(Class(k))])
Mult(k)  == Cardinality(Class(k))

\* the code's bit-shift formula: 1 << (I#J) << (i.i#i.j) << (j.i#j.j)
Two(x) == IF x THEN 2 ELSE 1
MultFormula(k) == Two(k[1] # k[2]) * Two(V2S[k[1]][1] # V2S[k[1]][2]) * Two(V2S[k[2]][1] # V2S[k[2]][2])

IsShear(k)  == k[1] >= 4 \/ k[2] >= 4
IsLong(k)   == ~IsShear(k) /\ k[1] = k[2]
IsOffD(k)   == ~IsShear(k) /\ k[1] # k[2]
CalcType(k) == IF IsShear(k) THEN "SHEAR" ELSE IF k[1] = k[2] THEN "LONGITUDINAL" ELSE "OFF_DIAGONAL"

ShearKeys == {k \in Keys : IsShear(k)}
LongKeys  == {k \in Keys : IsLong(k)}
OffDKeys  == {k \in Keys : IsOffD(k)}

-----------------------------------------------------------------------------
(* Spellings.  A spelling is a record [kind, d] with d a sequence of        *)
(* integers:                                                                *)
(*   "std4"   c_(i,j,k,l)          "voigt2"  c_(I,J)                        *)
(*   "str"    c_("1123")/c_("14")  "int"     c_(1123)/c_(14)                *)
(*   "e_std2" e_(i,j)              "e_voigt" e_(I)                          *)
(*   "e_str"  e_("12")/e_("6")     "e_int"   e_(12)                         *)
(* Digit strings/ints carry their digits in d.                              *)
Rejected == <<>>     \* (a tuple, so that TLC can compare it with keys)

SpellStd4(d)   == IF Len(d) = 4 /\ \A n \in 1..4 : d[n] \in I3 THEN Canon4(d) ELSE Rejected
SpellVoigt2(d) == IF Len(d) = 2 /\ \A n \in 1..2 : d[n] \in V6 THEN Canon2(d[1], d[2]) ELSE Rejected
SpellDigits(d) == IF Len(d) = 4 THEN SpellStd4(d) ELSE IF Len(d) = 2 THEN SpellVoigt2(d) ELSE Rejected

SpellEStd2(d)  == IF Len(d) = 2 /\ d[1] \in I3 /\ d[2] \in I3 THEN <<S2V(d[1], d[2])>> ELSE Rejected
SpellEVoigt(d) == IF Len(d) = 1 /\ d[1] \in V6 THEN <<d[1]>> ELSE Rejected
SpellEDigits(d) == IF Len(d) = 2 THEN SpellEStd2(d) ELSE IF Len(d) = 1 THEN SpellEVoigt(d) ELSE Rejected

Spell(s) ==
  CASE s.kind = "std4"    -> SpellStd4(s.d)
    [] s.kind = "voigt2"  -> SpellVoigt2(s.d)
    [] s.kind = "str"     -> SpellDigits(s.d)
    [] s.kind = "int"     -> SpellDigits(s.d)
    [] s.kind = "e_std2"  -> SpellEStd2(s.d)
    [] s.kind = "e_voigt" -> SpellEVoigt(s.d)
    [] s.kind = "e_str"   -> SpellEDigits(s.d)
    [] s.kind = "e_int"   -> SpellEDigits(s.d)      \* e_(n): n < 10 is a Voigt index, else its two digits

\* the set of standard tuples a (modulus) spelling denotes, independent of Canon
Denotes(s) ==
  LET d == s.d IN
  IF Len(d) = 4 THEN {d}
  ELSE {V2S[d[1]] \o V2S[d[2]]}

\* Enumerated domains -------------------------------------------------------
SeqsOver(S, n) == [1..n -> S]

\* well-formed modulus spellings: every one of them must be accepted
GoodSpellings ==
     {[kind |-> "std4",   d |-> t] : t \in Tuples}
\cup {[kind |-> "str",    d |-> t] : t \in Tuples}
\cup {[kind |-> "int",    d |-> t] : t \in Tuples}
\cup {[kind |-> "voigt2", d |-> p] : p \in Pairs}
\cup {[kind |-> "str",    d |-> p] : p \in Pairs}
\cup {[kind |-> "int",    d |-> p] : p \in Pairs}

GoodStrainSpellings ==
     {[kind |-> "e_std2",  d |-> p] : p \in I3 \X I3}
\cup {[kind |-> "e_str",   d |-> p] : p \in I3 \X I3}
\cup {[kind |-> "e_int",   d |-> p] : p \in I3 \X I3}
\cup {[kind |-> "e_voigt", d |-> <<v>>] : v \in V6}
\cup {[kind |-> "e_str",   d |-> <<v>>] : v \in V6}

\* out-of-range neighbours and wrong lengths: every one of them must be rejected
BadSpellings ==
     {[kind |-> "std4",   d |-> t] : t \in {u \in SeqsOver(0..4, 4) : \E n \in 1..4 : u[n] \notin I3}}
\cup {[kind |-> "str",    d |-> t] : t \in {u \in SeqsOver(0..4, 4) : \E n \in 1..4 : u[n] \notin I3}}
\cup {[kind |-> "int",    d |-> t] : t \in {u \in SeqsOver(0..4, 4) : u[1] # 0 /\ \E n \in 1..4 : u[n] \notin I3}}
\cup {[kind |-> "voigt2", d |-> p] : p \in {u \in SeqsOver(0..7, 2) : \E n \in 1..2 : u[n] \notin V6}}
\cup {[kind |-> "str",    d |-> p] : p \in {u \in SeqsOver(0..9, 2) : \E n \in 1..2 : u[n] \notin V6}}
\cup {[kind |-> "int",    d |-> p] : p \in {u \in SeqsOver(0..9, 2) : u[1] # 0 /\ \E n \in 1..2 : u[n] \notin V6}}
\cup {[kind |-> k, d |-> u] : k \in {"str", "int"}, u \in SeqsOver(1..3, 1) \cup SeqsOver(1..3, 3) \cup SeqsOver(1..2, 5)}
\cup {[kind |-> "std4", d |-> u] : u \in SeqsOver(1..3, 3) \cup SeqsOver(1..2, 5)}   \* wrong number of arguments
\cup {[kind |-> "voigt2", d |-> u] : u \in SeqsOver(1..3, 3)}
\* two arguments whose DIGITS, written one after another, read like a four-index spelling (11,12 / 1,112 / 111,2): each argument is an
\* out-of-range Voigt index
\cup {[kind |-> "voigt2", d |-> <<10 * i + j, 10 * k + l>>] : i \in I3, j \in I3, k \in I3, l \in I3}
\cup {[kind |-> "voigt2", d |-> <<i, 100 * j + 10 * k + l>>] : i \in I3, j \in I3, k \in I3, l \in I3}
\cup {[kind |-> "voigt2", d |-> <<100 * i + 10 * j + k, l>>] : i \in I3, j \in I3, k \in I3, l \in I3}

BadStrainSpellings ==
     {[kind |-> "e_std2",  d |-> p] : p \in {u \in SeqsOver(0..4, 2) : \E n \in 1..2 : u[n] \notin I3}}
\cup {[kind |-> "e_str",   d |-> p] : p \in {u \in SeqsOver(0..4, 2) : \E n \in 1..2 : u[n] \notin I3}}
\cup {[kind |-> "e_int",   d |-> p] : p \in {u \in SeqsOver(0..4, 2) : u[1] # 0 /\ \E n \in 1..2 : u[n] \notin I3}}
\cup {[kind |-> "e_voigt", d |-> <<v>>] : v \in {0, 7, 8, 9}}
\cup {[kind |-> "e_str",   d |-> <<v>>] : v \in {0, 7, 8, 9}}
\cup {[kind |-> "e_str",   d |-> u] : u \in SeqsOver(1..3, 3)}
\cup {[kind |-> "e_int",   d |-> u] : u \in SeqsOver(1..3, 3)}

=============================================================================
