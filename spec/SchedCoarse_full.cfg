SPECIFICATION CSpec
CONSTANTS
  PoolC = {"11","12","13","14","15","16","22","23","24","25","26","33","34","35","36","44","45","46","55","56","66"}
INVARIANT ClosureExact
INVARIANT CompleteC
