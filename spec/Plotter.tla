-------------------------------- MODULE Plotter --------------------------------
(***************************************************************************)
(* Supplementary model X04: cij/plot/plotter.py.  The plotter draws a      *)
(* component of the ADIABATIC tensor of the PRESSURE base along the grid   *)
(* line nearest to a requested temperature (curve against pressure) or     *)
(* nearest to a requested pressure (curve against temperature); moduli and *)
(* pressures are handed to the drawing routine in GPa, temperatures in K.  *)
(* The nearest-line rule, its orientation and the tie-free request set are *)
(* those of module Extract (`cij extract` and the plotter must agree on    *)
(* which line of a table answers a request); what this module adds is the  *)
(* SOURCE of the curve (which base, which tensor, which component) and the *)
(* units of both axes.  A table entry is abstractly                        *)
(*       <<base, tensor, key, iT, iP>>.                                    *)
(***************************************************************************)
EXTENDS Extract

Keys == {"11", "12", "44", "15"}                 \* one key of every class (longitudinal, off-diagonal, shear ii, shear ij)
Src(key, iT, iP) == <<"pressure_base", "adiabatic", key, iT, iP>>
Grid2 == {<<0, 2, 6>>, <<0, 10>>, <<0, 4, 6, 16>>}

VARIABLES kind, tg, pg, want, key, curve
pvars == <<kind, tg, pg, want, key, curve>>
PInit == kind = "none" /\ tg = <<0, 2>> /\ pg = <<0, 2>> /\ want = 0 /\ key = "11" /\ curve = <<>>
\* plot_cij_p(ax, key, t) / plot_cij_p_with(handler, key, t): c_key against P along the isotherm nearest to t
PlotP == \E g \in Grids, h \in Grid2, k \in Keys : \E x \in Requests(g) :
   /\ kind' = "cij_p" /\ tg' = g /\ pg' = h /\ want' = x /\ key' = k
   /\ curve' = [xunit |-> "GPa", yunit |-> "GPa", x |-> [j \in 1..Len(h) |-> <<"P", j>>],
                y |-> [j \in 1..Len(h) |-> Src(k, Nearest(g, x), j)]]
\* plot_cij_t_with(handler, key, p): c_key against T along the isobar nearest to p (p given in GPa)
PlotT == \E g \in Grids, h \in Grid2, k \in Keys : \E x \in Requests(g) :
   /\ kind' = "cij_t" /\ pg' = g /\ tg' = h /\ want' = x /\ key' = k
   /\ curve' = [xunit |-> "K", yunit |-> "GPa", x |-> [j \in 1..Len(h) |-> <<"T", j>>],
                y |-> [j \in 1..Len(h) |-> Src(k, j, Nearest(g, x))]]
PNext == kind = "none" /\ (PlotP \/ PlotT)
PSpec == PInit /\ EInit /\ [][PNext /\ UNCHANGED evars]_<<pvars, evars>>

\* the line drawn is the one `cij extract` would print for the same request (one rule for both tools) ...
AgreesWithExtract ==
   /\ kind = "cij_p" => \A j \in 1..Len(pg) : curve.y[j][4] = Nearest(tg, want) /\ curve.y[j][5] = j
   /\ kind = "cij_t" => \A j \in 1..Len(tg) : curve.y[j][5] = Nearest(pg, want) /\ curve.y[j][4] = j
\* ... it is a line of the adiabatic pressure-base tensor of the requested component, complete and in grid order
Source == kind # "none" => /\ Len(curve.x) = Len(curve.y)
                           /\ \A j \in 1..Len(curve.y) : curve.y[j][1] = "pressure_base" /\ curve.y[j][2] = "adiabatic" /\ curve.y[j][3] = key
Units == kind # "none" => curve.yunit = "GPa" /\ curve.xunit = (IF kind = "cij_p" THEN "GPa" ELSE "K")
EmitPlot == kind = "none" \/ PrintT(<<"PLOT", kind, tg, pg, want, key, Nearest(IF kind = "cij_p" THEN tg ELSE pg, want)>>)
=============================================================================
