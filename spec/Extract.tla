-------------------------------- MODULE Extract --------------------------------
(***************************************************************************)
(* `cij extract`: from the (T,P) tables of the requested variables return   *)
(* the ROW whose temperature is nearest to the requested one, labelled by   *)
(* the pressures (option -T), or the COLUMN whose pressure is nearest,      *)
(* labelled by the temperatures (option -P); one output column per          *)
(* variable, in request order, each from that variable's own table.         *)
(* Table entries are abstractly Entry(var, iT, iP).  Grids are strictly     *)
(* increasing integer sequences (scaled by 2 so that half-step requests are *)
(* integers); requests with two equally near nodes are not generated.       *)
(***************************************************************************)
EXTENDS Integers, Sequences, FiniteSets, TLC, Json, IOUtils

Abs(x) == IF x < 0 THEN -x ELSE x
Steps == {2, 4, 10}                         \* spacings 1, 2, 5 in doubled units
GridsOf(n) == LET RECURSIVE G(_) G(k) == IF k = 1 THEN {<<0>>} ELSE {Append(g, g[Len(g)] + s) : g \in G(k-1), s \in Steps} IN G(n)
Grids == UNION {GridsOf(n) : n \in 2..4}
Dist(g, x, k) == Abs(g[k] - x)
NearestSet(g, x) == {k \in 1..Len(g) : \A j \in 1..Len(g) : Dist(g, x, k) <= Dist(g, x, j)}
Unique(g, x) == Cardinality(NearestSet(g, x)) = 1
Nearest(g, x) == CHOOSE k \in NearestSet(g, x) : TRUE
Requests(g) == {x \in (g[1] - 3)..(g[Len(g)] + 3) : Unique(g, x)}
Entry(var, iT, iP) == <<var, iT, iP>>

VARIABLES ts, ps, mode, req, vars, result
evars == <<ts, ps, mode, req, vars, result>>
Vars == {<<"a">>, <<"a", "b">>, <<"b", "a", "c">>}
EInit == ts = <<0, 2>> /\ ps = <<0, 2>> /\ mode = "none" /\ req = 0 /\ vars = <<"a">> /\ result = <<>>
\* -T t: the row nearest to t; labels are the pressures
ExtractT == \E g \in Grids, h \in {<<0, 2, 6>>, <<0, 10>>}, vs \in Vars : \E x \in Requests(g) :
   /\ ts' = g /\ ps' = h /\ mode' = "T" /\ req' = x /\ vars' = vs
   /\ result' = [labels |-> h, cols |-> [n \in 1..Len(vs) |-> [j \in 1..Len(h) |-> Entry(vs[n], Nearest(g, x), j)]]]
\* -P p: the column nearest to p; labels are the temperatures
ExtractP == \E g \in Grids, h \in {<<0, 2, 6>>, <<0, 10>>}, vs \in Vars : \E x \in Requests(g) :
   /\ ps' = g /\ ts' = h /\ mode' = "P" /\ req' = x /\ vars' = vs
   /\ result' = [labels |-> h, cols |-> [n \in 1..Len(vs) |-> [j \in 1..Len(h) |-> Entry(vs[n], j, Nearest(g, x))]]]
ENext == mode = "none" /\ (ExtractT \/ ExtractP)        \* one extraction per behaviour (all of them from the initial state)
ESpec == EInit /\ [][ENext]_evars

\* the returned line really is the nearest one, entries come from the right variable, labels are the other coordinate
NearestIsNearest == mode = "T" => \A k \in 1..Len(ts) : Abs(ts[result.cols[1][1][2]] - req) <= Abs(ts[k] - req)
OwnVariable == mode # "none" => \A n \in 1..Len(vars) : \A j \in 1..Len(result.labels) : result.cols[n][j][1] = vars[n]
Orientation == /\ mode = "T" => result.labels = ps /\ \A n \in 1..Len(vars), j \in 1..Len(ps) : result.cols[n][j][3] = j
               /\ mode = "P" => result.labels = ts /\ \A n \in 1..Len(vars), j \in 1..Len(ts) : result.cols[n][j][2] = j
Emit == mode = "none" \/ PrintT(<<"EXTRACT", mode, ts, ps, req, vars, Nearest(IF mode = "T" THEN ts ELSE ps, req)>>)
=============================================================================
