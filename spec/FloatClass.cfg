SPECIFICATION SpecFC
INVARIANT BoseFinite
INVARIANT Emit
