SPECIFICATION FSpec
INVARIANT RoundTrip
INVARIANT NoError
INVARIANT WeightsPaired
PROPERTY Finishes
