-------------------------- MODULE Trace_SchedRelaxed --------------------------
(***************************************************************************)
(* Second opinion for a recorded run that Trace_Sched (the faithful bag     *)
(* model of the work list) rejects.  TaskScheduler is shaped like the       *)
(* implementation: it predicts queue lengths, duplicate pushes and the      *)
(* moment a task is created.  None of that is stated by C04.  A refactor of *)
(* the work list (no duplicate pushes, another traversal) changes those     *)
(* numbers without touching what C04 states; such a run is rejected by the  *)
(* faithful model and must NOT be reported as a violation.                  *)
(*                                                                         *)
(* This module keeps only what the property states, on the same events:    *)
(*   - every task created belongs to the dependency closure of the request *)
(*     and every recorded edge is a real dependency;                       *)
(*   - the sorted list is EXACTLY the closure, each task after everything   *)
(*     it depends on (hence acyclic);                                      *)
(*   - tasks are evaluated once, after their dependencies, reading exactly  *)
(*     their dependencies; every requested key is looked up at its root.   *)
(* Queue lengths, task counts and the order of pops are not looked at.     *)
(***************************************************************************)
EXTENDS TaskScheduler, Json, IOUtils

Tr == ndJsonDeserialize(IOEnv.TRACE_FILE)
VARIABLE i
tvars == <<svars, i>>
E == Tr[i+1]
Is(ev) == i < Len(Tr) /\ E.ev = ev /\ i' = i + 1
SeqSet(sq) == {sq[n] : n \in 1..Len(sq)}
Pos(sq, t) == CHOOSE n \in 1..Len(sq) : sq[n] = t
Closure == ClosureOf(ReqRoots)

RRequest == Is("Request") /\ Request(E.key)
RStart   == Is("Start") /\ phase = "idle" /\ req # <<>> /\ phase' = "resolving"
            /\ UNCHANGED <<req, queue, tasks, edges, isoDone, adiDone, reads>>
RPop     == Is("Pop") /\ phase = "resolving"
            /\ E.task \in Closure
            /\ (E.dep # None => (E.dep \in Closure /\ E.task \in DepSet(E.dep)))
            /\ tasks' = tasks \cup {E.task}
            /\ edges' = (IF E.dep = None THEN edges ELSE edges \cup {<<E.task, E.dep>>})
            /\ UNCHANGED <<phase, req, queue, isoDone, adiDone, reads>>
RSort    == Is("Sort") /\ phase = "resolving"
            /\ SeqSet(E.order) = Closure /\ Len(E.order) = Cardinality(Closure)
            /\ (\A t \in Closure : \A dd \in DepSet(t) : Pos(E.order, dd) < Pos(E.order, t))
            /\ (\A g \in SeqSet(E.edges) : g[1] \in DepSet(g[2]))
            /\ tasks' = Closure
            /\ edges' = {e \in Closure \X Closure : e[1] \in DepSet(e[2])}
            /\ phase' = "sorted"
            /\ UNCHANGED <<req, queue, isoDone, adiDone, reads>>
REval    == Is("Eval") /\ Eval(E.task)
            /\ {r[1] : r \in SeqSet(E.reads)} = DepSet(E.task)
RFinish  == Is("Done") /\ Finish
RGet     == Is("Get") /\ phase = "done" /\ E.task = Root(E.key) /\ E.task \in isoDone /\ E.task \in adiDone
            /\ UNCHANGED svars
RReset   == Is("Reset") /\ phase = "done"
            /\ phase' = "idle" /\ req' = <<>> /\ queue' = EmptyBag /\ tasks' = {} /\ edges' = {}
            /\ isoDone' = {} /\ adiDone' = {} /\ reads' = {}

RInit == SchedInit /\ i = 0
RNext == RRequest \/ RStart \/ RPop \/ RSort \/ REval \/ RFinish \/ RGet \/ RReset
RelaxedSpec == RInit /\ [][RNext]_tvars
Accepted == TLCGet("stats").diameter - 1 = Len(Tr)
=============================================================================
