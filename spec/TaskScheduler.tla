---------------------------- MODULE TaskScheduler ----------------------------
(***************************************************************************)
(* The phonon-contribution task scheduler (cij/core/tasks.py):             *)
(*   resolve(): work-list expansion of the requested components into       *)
(*              tasks, de-duplicated by parameter equality, with a         *)
(*              dependency graph; topological sort;                        *)
(*   calculate(): evaluation in that order, shear tasks reading their      *)
(*              dependencies from the ISOTHERMAL result store;             *)
(*   get_*_results(): look-up of the requested components.                 *)
(*                                                                         *)
(* The problem instance (task ids, dependency bags, root task of each key) *)
(* is the literal data module SchedData, generated from the export of      *)
(* SchedInstance.tla (i.e. from ShearSolver) for one strain scenario.      *)
(*                                                                         *)
(* Deliberate deviations of the code that are modelled as such:            *)
(*  - a popped entry re-pushes the dependencies of its task even when the  *)
(*    task already existed (Pop);                                          *)
(*  - the pop order is LIFO in the code; the property is indifferent, so   *)
(*    Pop takes ANY queue element (every order is explored).               *)
(***************************************************************************)
EXTENDS Integers, Sequences, FiniteSets, Bags, TLC, SchedData
\* SchedData defines: AllTasks (set of strings), DepBagOf (task -> bag of tasks), RootOf (key string -> task),
\*                    ShearTasks (subset of AllTasks), AllKeyStrs

CONSTANTS Pool,          \* key strings that may be requested
          MaxReq,        \* bound on the number of requested keys (model checking only)
          Faithful       \* TRUE: the queue is a bag with the code's multiplicities (trace validation, LIFO/FIFO runs)
                         \* FALSE: multiplicities capped at one (set abstraction; same reachable tasks/edges, far fewer
                         \*        states) - used when EVERY pop order is explored

None == "none"
Root(k) == RootOf[k]
IsShearTask(t) == t \in ShearTasks
DepBag(t) == DepBagOf[t]
DepSet(t) == DOMAIN DepBag(t)

RECURSIVE ClosureOf(_)
ClosureOf(S) == LET N == S \cup UNION {DepSet(t) : t \in S} IN IF N = S THEN S ELSE ClosureOf(N)
ASSUME ClosureOf({Root(k) : k \in AllKeyStrs}) = AllTasks

\* ------------------------------------------------------------------ state
VARIABLES phase,      \* "idle" | "resolving" | "sorted" | "done"
          req,        \* requested keys, in request order
          queue,      \* bag of <<task, dependant-or-None>>
          tasks,      \* set of task ids created so far
          edges,      \* set of <<dependency, dependant>>
          isoDone,    \* tasks whose isothermal value is stored
          adiDone,    \* tasks whose adiabatic value is stored
          reads       \* observation: set of <<reader, dependency, store>> look-ups made so far
svars == <<phase, req, queue, tasks, edges, isoDone, adiDone, reads>>

SchedInit == /\ phase = "idle" /\ req = <<>> /\ queue = EmptyBag /\ tasks = {} /\ edges = {}
             /\ isoDone = {} /\ adiDone = {} /\ reads = {}

\* the caller names the components one by one (any subset, any order) ...
Request(k) ==
  /\ phase = "idle" /\ Len(req) < MaxReq
  /\ \A n \in 1..Len(req) : req[n] # k
  /\ req' = Append(req, k)
  /\ UNCHANGED <<phase, queue, tasks, edges, isoDone, adiDone, reads>>
\* ... and resolve() seeds the work list with one entry per requested key
SeqToBag(sq) == LET S == {sq[n] : n \in 1..Len(sq)} IN [x \in S |-> Cardinality({n \in 1..Len(sq) : sq[n] = x})]
Start ==
  /\ phase = "idle" /\ req # <<>>
  /\ LET seeds == [n \in 1..Len(req) |-> <<Root(req[n]), None>>] IN
       queue' = IF Faithful THEN SeqToBag(seeds) ELSE SetToBag({seeds[n] : n \in 1..Len(req)})
  /\ phase' = "resolving"
  /\ UNCHANGED <<req, tasks, edges, isoDone, adiDone, reads>>

Pop(x) ==
  /\ phase = "resolving"
  /\ BagIn(x, queue)
  /\ tasks' = tasks \cup {x[1]}
  /\ edges' = IF x[2] = None THEN edges ELSE edges \cup {<<x[1], x[2]>>}
  /\ LET rest == queue (-) SetToBag({x})
         push == [y \in {<<dd, x[1]>> : dd \in DepSet(x[1])} |-> DepBag(x[1])[y[1]]]
     IN queue' = IF Faithful THEN rest (+) push
                 ELSE SetToBag(BagToSet(rest) \cup DOMAIN push)
  /\ UNCHANGED <<phase, req, isoDone, adiDone, reads>>

\* transitive closure of the edge relation restricted to tasks (small sets)
RECURSIVE TC(_)
TC(R) == LET N == R \cup {<<a, c>> \in tasks \X tasks : \E b \in tasks : <<a,b>> \in R /\ <<b,c>> \in R}
         IN IF N = R THEN R ELSE TC(N)
AcyclicTC == LET tc == TC(edges) IN \A t \in tasks : <<t,t>> \notin tc
\* the same predicate, computed by peeling off source nodes (a finite digraph is acyclic iff this empties it); this is what the
\* actions use (the closure above is cubic in the number of tasks and dominated trace validation); AcyclicAgree is model-checked
RECURSIVE Peel(_, _)
Peel(N, Ed) == LET src == {t \in N : \A e \in Ed : e[2] # t}
               IN IF src = {} THEN N ELSE Peel(N \ src, {e \in Ed : e[1] \notin src})
Acyclic == Peel(tasks, {e \in edges : e[1] \in tasks /\ e[2] \in tasks}) = {}
AcyclicAgree == Acyclic <=> AcyclicTC

Sort ==
  /\ phase = "resolving" /\ queue = EmptyBag
  /\ Acyclic                                  \* networkx raises on a cycle: no sorted phase without it
  /\ phase' = "sorted"
  /\ UNCHANGED <<req, queue, tasks, edges, isoDone, adiDone, reads>>

Ready(t) == t \in tasks \ isoDone /\ \A e \in edges : e[2] = t => e[1] \in isoDone
\* evaluation of one task: a shear task reads every dependency from the ISOTHERMAL store (C02)
Eval(t) ==
  /\ phase = "sorted" /\ Ready(t)
  /\ IsShearTask(t) => DepSet(t) \subseteq isoDone        \* the look-ups succeed
  /\ isoDone' = isoDone \cup {t}
  /\ adiDone' = adiDone \cup {t}
  /\ reads' = reads \cup {<<t, dd, "iso">> : dd \in DepSet(t)}
  /\ UNCHANGED <<phase, req, queue, tasks, edges>>
\* reduced interleaving for model checking: leaves in one canonical order, shear tasks in any order
LeafReady == {t \in tasks \ isoDone : ~IsShearTask(t)}
EvalReduced == \/ \E t \in tasks : IsShearTask(t) /\ Eval(t)
               \/ LeafReady # {} /\ Eval(CHOOSE t \in LeafReady : TRUE)

Finish ==
  /\ phase = "sorted" /\ isoDone = tasks
  /\ phase' = "done"
  /\ UNCHANGED <<req, queue, tasks, edges, isoDone, adiDone, reads>>

SchedNext == \/ \E k \in Pool : Request(k)
             \/ Start
             \/ \E x \in BagToSet(queue) : Pop(x)
             \/ Sort \/ EvalReduced \/ Finish
SchedSpec == SchedInit /\ [][SchedNext]_svars /\ WF_svars(SchedNext)

\* ------------------------------------------------------------------ properties
ReqRoots == {Root(req[n]) : n \in 1..Len(req)}
TypeOK == /\ tasks \subseteq AllTasks
          /\ edges \subseteq tasks \X AllTasks
          /\ isoDone \subseteq tasks /\ adiDone = isoDone
\* every edge is a real dependency, pointing from the dependency to the dependant
EdgesSound == \A e \in edges : e[1] \in DepSet(e[2])
\* once the queue is empty the task set is exactly the dependency closure of the request and the edges are exact
Final == phase \in {"sorted", "done"} =>
           /\ tasks = ClosureOf(ReqRoots)
           /\ edges = {e \in tasks \X tasks : e[1] \in DepSet(e[2])}
\* the graph handed to the topological sort never has a cycle (so Sort is always enabled when the queue is empty)
NeverCyclic == Acyclic
SortEnabled == (phase = "resolving" /\ queue = EmptyBag) => Acyclic
\* longest dependency chain has two edges: rotated-frame requests are non-shear, own-frame shear requests are pure-shear
Shallow == \A e1 \in edges, e2 \in edges, e3 \in edges : ~(e1[2] = e2[1] /\ e2[2] = e3[1])
\* a task is evaluated only after everything it depends on
DepsFirst == \A t \in isoDone : DepSet(t) \subseteq isoDone
\* evaluation never gets stuck
NoStuck == (phase = "sorted" /\ isoDone # tasks) => \E t \in tasks : Ready(t)
\* every requested component receives both values
Complete == phase = "done" => ReqRoots \subseteq isoDone /\ ReqRoots \subseteq adiDone
\* shear tasks never read the adiabatic store
IsoReadsOnly == \A r \in reads : r[3] = "iso"
Terminates == <>(phase = "done")
\* simulation helper: print the request when the work list is seeded, and end the behaviour there
EmitRequest == phase = "idle" \/ (PrintT(<<"REQ", req>>) /\ FALSE)
\* the work list only ever grows the task set and the graph
Monotone == [][tasks \subseteq tasks' /\ edges \subseteq edges' /\ isoDone \subseteq isoDone']_svars
=============================================================================
