-------------------------------- MODULE C11 --------------------------------
(***************************************************************************)
(* C11: every interpolation method returns a consistent triple.  The state *)
(* is one call (method, order, nv); InterpCall moves to any other call in  *)
(* the documented range.  Invariants are about the admissibility rule and  *)
(* node selection; the admissible calls, their node sets and exactness     *)
(* degree, the test polynomials with their exact triples, and the plot     *)
(* table are exported for the replay.                                      *)
(***************************************************************************)
EXTENDS Interp, Json, IOUtils

NVs == 4..12
Orders == 1..12
VARIABLES method, order, nv
cvars == <<method, order, nv>>
Init == method = "lsq_poly" /\ order = 3 /\ nv = 6
InterpCall == method' \in Methods /\ order' \in Orders /\ nv' \in NVs
Spec11 == Init /\ [][InterpCall]_cvars

\* node selection always includes the first sampled volume, is non-empty and within range
NodesOK == Nodes(order, nv) \subseteq 1..nv /\ 1 \in Nodes(order, nv)
\* an admissible call never has more nodes than the order asks for, and at least two
NodeCount == (method \in NodeBased /\ Adm(method, order, nv)) =>
                Cardinality(Nodes(order, nv)) \in 2..order
\* every admissible call reproduces at least power laws (degree-1 polynomials of ln V)
PowerLawExact == Adm(method, order, nv) => ExactDegree(method, order, nv) >= 1
\* the default configuration (lsq_poly, 3) is admissible for every nv >= 4
DefaultAdmissible == Adm("lsq_poly", 3, nv)

\* test polynomials: coefficients of ln(omega) in x = ln(V/V0), degree 1..5
TestPolys == << <<RI(6), RQ(-3,2)>>,
                <<RI(6), RQ(-7,5), RQ(1,2)>>,
                <<RQ(13,2), RQ(-6,5), RQ(-2,3), RQ(1,2)>>,
                <<RI(6), RQ(-3,2), RQ(1,4), RQ(-1,3), RQ(1,2)>>,
                <<RI(6), RQ(-9,5), RQ(1,3), RQ(1,5), RQ(-1,2), RQ(2,5)>> >>
ASSUME JsonSerialize(IOEnv.OUTD \o "/c11_table.json",
  [ calls |-> {[method |-> m, order |-> o, nv |-> n, nodes |-> Nodes(o, n), exact |-> ExactDegree(m, o, n)]
                 : <<m, o, n>> \in {t \in Methods \X Orders \X NVs : Adm(t[1], t[2], t[3])}},
    inadmissible |-> Cardinality({t \in Methods \X Orders \X NVs : ~Adm(t[1], t[2], t[3])}),
    polys |-> [i \in 1..Len(TestPolys) |-> [deg |-> Len(TestPolys[i]) - 1,
                                             lnw |-> PExport(Triple(TestPolys[i]).lnw),
                                             gamma |-> PExport(Triple(TestPolys[i]).gamma),
                                             vdgdv |-> PExport(Triple(TestPolys[i]).vdgdv)]],
    plot |-> [n \in 0..2 |-> PlotQuantity(n)] ])
=============================================================================
