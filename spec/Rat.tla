--------------------------------- MODULE Rat ---------------------------------
(* Exact rationals <<n,d>>, d > 0, gcd-normalised.  TLC integers are 32 bit  *)
(* and TLC aborts on overflow, so every result is normalised at once.        *)
EXTENDS Integers

Abs(x) == IF x < 0 THEN -x ELSE x
RECURSIVE Gcd(_,_)
Gcd(a,b) == IF b = 0 THEN a ELSE Gcd(b, a % b)

Norm(n,d) == LET s == IF d < 0 THEN -1 ELSE 1
                 g == Gcd(Abs(n), Abs(d))
             IN IF n = 0 THEN <<0,1>> ELSE <<(s*n) \div g, (s*d) \div g>>
R0 == <<0,1>>
R1 == <<1,1>>
RI(n) == <<n,1>>
RQ(n,d) == Norm(n,d)
\* least common denominator, so that sums of many terms with equal denominators never grow
RAdd(a,b) == LET g == Gcd(a[2], b[2]) IN Norm(a[1]*(b[2] \div g) + b[1]*(a[2] \div g), (a[2] \div g)*b[2])
RNeg(a)   == <<-a[1], a[2]>>
RSub(a,b) == RAdd(a, RNeg(b))
\* cross-cancel before multiplying to keep intermediates small
RMul(a,b) == LET g1 == Gcd(Abs(a[1]), b[2])  g2 == Gcd(Abs(b[1]), a[2])
                 h1 == IF g1 = 0 THEN 1 ELSE g1   h2 == IF g2 = 0 THEN 1 ELSE g2
             IN Norm((a[1] \div h1) * (b[1] \div h2), (a[2] \div h2) * (b[2] \div h1))
RInv(a)   == Norm(a[2], a[1])
RDiv(a,b) == RMul(a, RInv(b))
RLt(a,b)  == a[1]*b[2] < b[1]*a[2]
RLeq(a,b) == a[1]*b[2] <= b[1]*a[2]
RIsInt(a) == a[2] = 1
=============================================================================
