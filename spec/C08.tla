-------------------------------- MODULE C08 --------------------------------
(***************************************************************************)
(* C08: for each of the nine systems the packaged relations cut out        *)
(* exactly the tensors invariant under the Laue class (both inclusions of  *)
(* 21-dimensional subspaces, decided exactly), and the fill of a           *)
(* consistent sufficient table is that unique invariant tensor.            *)
(* State = the crystal system under examination (9 states).                *)
(***************************************************************************)
EXTENDS Symmetry, Fill, TLC, Json, IOUtils

\* the systems examined by this run: all nine, or the one named by the environment variable SYS (the harness runs
\* nine TLC processes in parallel, because the verdict tables are evaluated single-threaded at start-up)
Examined == IF "SYS" \in DOMAIN IOEnv THEN {IOEnv.SYS} ELSE Systems
ASSUME Examined \subseteq Systems

VARIABLE sys
Init == sys = CHOOSE s \in Examined : TRUE
Examine == sys' \in Examined
Spec08 == Init /\ [][Examine]_sys

\* TLC re-evaluates state-dependent definitions at every reference, so everything heavy is a constant-level table
\* indexed by the system (evaluated once); the invariants look the verdicts up for the system under examination.
NBof(s) == {NullTab[s][i] : i \in 1..Len(NullTab[s])}
\* integer versions: null-space vectors times 2 (entries are multiples of 1/2), relation rows times 2
IntVec(v) == [k \in Keys |-> LET q == RMul(RI(2), v[KeyIdx(k)]) IN q[1]]
HalfIntegral(v) == \A n \in 1..NSym : RMul(RI(2), v[n])[2] = 1
GroupTab == TLCEval([s \in Examined |-> Group(s)])
\* unnormalised Reynolds projector: 16 * sum over the group of the action matrices
Proj16(s) == LET G == GroupTab[s]  A == TLCEval([g \in G |-> Act16(g)]) IN
             TLCEval([k \in Keys |-> [kp \in Keys |-> FoldSet(LAMBDA g, acc : ZAdd(acc, A[g][k][kp]), Z0, G)]])
ProjTab == TLCEval([s \in Examined |-> Proj16(s)])

GroupOKof(s) == Cardinality(GroupTab[s]) = Order(s) /\ \A g \in GroupTab[s] : IsRotation(g)
\* every tensor satisfying the packaged relations is invariant under every generator
RelInInvOf(s) == /\ \A n \in NBof(s) : HalfIntegral(n)
                 /\ \A g \in Gens(s) : LET A == Act16(g) IN \A n \in NBof(s) : InvariantUnder(A, TLCEval(IntVec(n)))
\* every invariant tensor (the columns of the projector span them) satisfies every packaged relation
InvInRelOf(s) == LET P == ProjTab[s]  Rows == RelRows[s] IN
  \A i \in 1..Len(Rows) : HalfIntegral(Rows[i]) /\ \A kp \in Keys :
     FoldSet(LAMBDA k, acc : ZAdd(acc, ZScale(RMul(RI(2), Rows[i][KeyIdx(k)])[1], P[k][kp])), Z0, Keys) = Z0
DimOKof(s) == /\ NSym - Rank(RelRows[s], NSym) = Dim(s)
              /\ Len(NullTab[s]) = Dim(s)
              /\ LET P == ProjTab[s] IN FoldSet(LAMBDA k, acc : ZAdd(acc, P[k][k]), Z0, Keys) = <<16 * Order(s) * Dim(s), 0>>
Verdict == TLCEval([s \in Examined |-> [group |-> GroupOKof(s), rel_in_inv |-> RelInInvOf(s),
                                        inv_in_rel |-> InvInRelOf(s), dim |-> DimOKof(s)]])

GroupOK  == Verdict[sys].group
RelInInv == Verdict[sys].rel_in_inv
InvInRel == Verdict[sys].inv_in_rel
DimOK    == Verdict[sys].dim

\* ------------------------------------------------------------------ fill oracle: invariant tensors from integer parameters
ParamSets == << <<2, 3, 5, 7, 11, 13, 17, 19, 23, 29, 31, 37, 41, 43, 47, 53, 59, 61, 67, 71, 73>>,
                <<-4, 9, 1, -6, 8, 3, -2, 7, 5, -9, 6, 4, -1, 2, -8, 10, -3, 12, -5, 14, -7>>,
                <<100, 40, 60, 30, 20, 10, 90, 50, 70, 80, 15, 25, 35, 45, 55, 65, 75, 85, 95, 5, 12>> >>
Tensor(s, np) == LET N == NullTab[s] IN
  [n \in 1..NSym |-> LET RECURSIVE Acc(_) Acc(i) == IF i = 0 THEN R0 ELSE RAdd(Acc(i-1), RMul(RI(ParamSets[np][i]), N[i][n])) IN Acc(Len(N))]
ASSUME JsonSerialize(IOEnv.OUTD \o "/c08_fill_" \o (IF "SYS" \in DOMAIN IOEnv THEN IOEnv.SYS ELSE "all") \o ".json",
  [ systems |-> {[sys |-> s, dim |-> Dim(s), order |-> Order(s),
                  vanishing |-> VanTab[s],
                  null |-> NullTab[s],
                  tensors |-> [np \in 1..3 |-> Tensor(s, np)]] : s \in Examined} ])
=============================================================================
