SPECIFICATION MSpec
CONSTANTS
  NP = 3
  NV = 3
  Variant = "file"
INVARIANT Tracked
