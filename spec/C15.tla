-------------------------------- MODULE C15 --------------------------------
(* C15: export of the expectation table (keyword x base -> rule, pattern,    *)
(* source, units, availability) checked by TLC against the writer model.     *)
EXTENDS Writer, Json, IOUtils
ASSUME JsonSerialize(IOEnv.OUTD \o "/c15_table.json",
  [rows |-> {[kw |-> k, base |-> b, rule |-> RuleOf(k), pat |-> Rules[RuleOf(k)].pat, prop |-> Rules[RuleOf(k)].prop,
              kind |-> Rules[RuleOf(k)].kind, ufrom |-> Rules[RuleOf(k)].ufrom, uto |-> Rules[RuleOf(k)].uto,
              available |-> Available(RuleOf(k), b)] : k \in Keywords, b \in Bases}])
=============================================================================
