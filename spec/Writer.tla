-------------------------------- MODULE Writer --------------------------------
(***************************************************************************)
(* Output files (cij/io/output/results_writer.py, writer_rules.yml,        *)
(* write_table of the two bases).  The rule table below is a FROZEN copy   *)
(* of the documented rules as of the pinned commit (the documentation page *)
(* is generated from writer_rules.yml): keyword aliases, file-name         *)
(* pattern, source quantity, tensor kind, internal and documented unit.    *)
(***************************************************************************)
EXTENDS Integers, Sequences, FiniteSets, TLC

GPA == "GPa"   AU == "rydberg / bohr ^ 3"
Rules == <<
 [id |-> 1,  kw |-> {"cij_s", "cij", "adiabatic_elastic_moduli"}, pat |-> "c{ij}s_{base}_gpa.txt", prop |-> "modulus_adiabatic", kind |-> "ij", ufrom |-> "Ry/bohr3", uto |-> "GPa"],
 [id |-> 2,  kw |-> {"cij_t", "isothermal_elastic_moduli"},       pat |-> "c{ij}t_{base}_gpa.txt", prop |-> "modulus_isothermal", kind |-> "ij", ufrom |-> "Ry/bohr3", uto |-> "GPa"],
 [id |-> 3,  kw |-> {"B_V", "Bm_V", "bm_V", "bulk_modulus_voigt"}, pat |-> "bm_V_{base}_gpa.txt", prop |-> "bulk_modulus_voigt", kind |-> "value", ufrom |-> "Ry/bohr3", uto |-> "GPa"],
 [id |-> 4,  kw |-> {"B_R", "Bm_R", "bm_R", "bulk_modulus_reuss"}, pat |-> "bm_R_{base}_gpa.txt", prop |-> "bulk_modulus_reuss", kind |-> "value", ufrom |-> "Ry/bohr3", uto |-> "GPa"],
 [id |-> 5,  kw |-> {"B_VRH", "Bm_VRH", "bm_VRH", "bulk_modulus_voigt_reuss_hill"}, pat |-> "bm_VRH_{base}_gpa.txt", prop |-> "bulk_modulus_voigt_reuss_hill", kind |-> "value", ufrom |-> "Ry/bohr3", uto |-> "GPa"],
 [id |-> 6,  kw |-> {"G_V", "shear_modulus_voigt"}, pat |-> "G_V_{base}_gpa.txt", prop |-> "shear_modulus_voigt", kind |-> "value", ufrom |-> "Ry/bohr3", uto |-> "GPa"],
 [id |-> 7,  kw |-> {"G_R", "shear_modulus_reuss"}, pat |-> "G_R_{base}_gpa.txt", prop |-> "shear_modulus_reuss", kind |-> "value", ufrom |-> "Ry/bohr3", uto |-> "GPa"],
 [id |-> 8,  kw |-> {"G_VRH", "shear_modulus_voigt_reuss_hill"}, pat |-> "G_VRH_{base}_gpa.txt", prop |-> "shear_modulus_voigt_reuss_hill", kind |-> "value", ufrom |-> "Ry/bohr3", uto |-> "GPa"],
 [id |-> 9,  kw |-> {"v_p", "vp", "primary_velocities"}, pat |-> "v_p_{base}_km_s.txt", prop |-> "primary_velocities", kind |-> "value", ufrom |-> "km/s", uto |-> "km/s"],
 [id |-> 10, kw |-> {"v_s", "vs", "secondary_velocities"}, pat |-> "v_s_{base}_km_s.txt", prop |-> "secondary_velocities", kind |-> "value", ufrom |-> "km/s", uto |-> "km/s"],
 [id |-> 11, kw |-> {"v", "V", "volumes"}, pat |-> "v_{base}_ang3.txt", prop |-> "volumes", kind |-> "value", ufrom |-> "bohr3", uto |-> "ang3"],
 [id |-> 12, kw |-> {"p", "P", "pressures"}, pat |-> "p_{base}_gpa.txt", prop |-> "pressures", kind |-> "value", ufrom |-> "Ry/bohr3", uto |-> "GPa"] >>
RuleIds == 1..Len(Rules)
Keywords == UNION {Rules[r].kw : r \in RuleIds}
RuleOf(k) == CHOOSE r \in RuleIds : k \in Rules[r].kw
Bases == {"tp", "tv"}
\* documented availability: volumes only in the pressure base, pressures only in the volume base
Available(r, b) == (Rules[r].prop = "volumes" => b = "tp") /\ (Rules[r].prop = "pressures" => b = "tv")

VARIABLES kw, base
wvars == <<kw, base>>
WInit == kw = "cij" /\ base = "tp"
WriteVar == kw' \in Keywords /\ base' \in Bases
WSpec == WInit /\ [][WriteVar]_wvars

\* every keyword belongs to exactly one rule
OneRule == Cardinality({r \in RuleIds : kw \in Rules[r].kw}) = 1
\* two different rules never write to the same file (patterns differ)
NoCollision == \A r1 \in RuleIds, r2 \in RuleIds : r1 # r2 => Rules[r1].pat # Rules[r2].pat
\* the S and T keyword families select different tensors and different files
SvsT == Rules[RuleOf("cij_s")].prop = "modulus_adiabatic" /\ Rules[RuleOf("cij_t")].prop = "modulus_isothermal"
        /\ RuleOf("cij") = RuleOf("cij_s") /\ Rules[1].pat # Rules[2].pat
ASSUME Cardinality(Keywords) = 35 /\ Len(Rules) = 12
=============================================================================
