------------------------------ MODULE Aggregate ------------------------------
(***************************************************************************)
(* Aggregation over the Brillouin-zone sample, for a concrete shape        *)
(* (NQ q-points, NP = 3N modes).  Atoms: X_q_m (the per-mode quantity),    *)
(* w_q (raw weights), Wi = 1/sum(w).                                       *)
(*   SpecAgg : sum_q (w_q Wi) sum_{m not Gamma-acoustic} X_qm              *)
(*             (the property: weights normalised, Gamma acoustic excluded) *)
(*   ImplAgg : numpy.average(numpy.average(masked X, axis=modes),          *)
(*             weights=w, axis=q) * 3 * na   (nonshear.average_over_modes) *)
(***************************************************************************)
EXTENDS Poly, TLC

XA(q,m) == "X_" \o ToString(q) \o "_" \o ToString(m)
WA(q)   == "w_" \o ToString(q)
GammaAcoustic(q,m) == q = 1 /\ m \in 1..3

SpecAgg(NQ,NP) ==
  PSum({ PMul(PMul(PAtom(WA(q)), PAtom("Wi")), PAtom(XA(q,m))) :
         <<q,m>> \in {qm \in (1..NQ) \X (1..NP) : ~GammaAcoustic(qm[1], qm[2])} })

Masked(q,m) == IF GammaAcoustic(q,m) THEN PZero ELSE PAtom(XA(q,m))          \* clear_gamma_point
MeanModes(q,NP) == PScale(RQ(1,NP), PSum({Masked(q,m) : m \in 1..NP}))       \* numpy.average over the last axis
AvgQ(NQ,NP) == PMul(PAtom("Wi"), PSum({PMul(PAtom(WA(q)), MeanModes(q,NP)) : q \in 1..NQ}))
ImplAgg(NQ,NP,NAt) == PScale(RI(3*NAt), AvgQ(NQ,NP))

AggTheorem(NQ,NAt) == SpecAgg(NQ, 3*NAt) = ImplAgg(NQ, 3*NAt, NAt)
=============================================================================
