-------------------------------- MODULE C10 --------------------------------
(***************************************************************************)
(* C10: the Voigt/standard index algebra is a canonical 21-class quotient  *)
(* of the 81 tuples.                                                       *)
(*                                                                         *)
(* The complete finite domain is explored as a state space: a state is a   *)
(* pair of well-formed modulus spellings (a,b); the `Respell` action moves *)
(* to any other pair.  Every invariant below is evaluated by TLC in every  *)
(* one of the 351 x 351 states.  Domain-level theorems (counts, partition, *)
(* multiplicity, round trip, rejection) are ASSUMEs, and the oracle table  *)
(* replayed into cij.util.c_/e_ is exported by the last ASSUME.            *)
(***************************************************************************)
EXTENDS Voigt, TLC, Json, IOUtils

VARIABLES a, b
vars == <<a, b>>

\* one initial state; all 351^2 pairs are reached within two Respell steps (TLC computes initial states single-threaded)
Init == a = [kind |-> "voigt2", d |-> <<1,1>>] /\ b = a
\* shift walk: the second spelling becomes the first, a fresh one is drawn (351 successors per state, not 351^2)
Respell == a' = b /\ b' \in GoodSpellings
Next == Respell
SpecC10 == Init /\ [][Next]_vars

\* --- invariants (one INVARIANT line each) ---------------------------------
Accepted == Spell(a) # Rejected /\ Spell(b) # Rejected
InKeys   == Spell(a) \in Keys
\* equal keys iff related by the minor and major symmetries
EqIffOrbit == (Spell(a) = Spell(b)) <=> (\E t \in Denotes(a), u \in Denotes(b) : u \in Orbit(t))
\* all spellings of the same digits agree, whatever the kind
KindAgnostic == (a.d = b.d) => Spell(a) = Spell(b)
\* the standard view of the key is a member of the class it denotes, and canonicalising it is the identity
RoundTrip == LET k == Spell(a) IN Canon4(Standard(k)) = k /\ \E t \in Denotes(a) : Standard(k) \in Orbit(t)
MultIsClassSize == LET k == Spell(a) IN MultFormula(k) = Mult(k) /\ Mult(k) = Cardinality(UNION {Orbit(t) : t \in Denotes(a)})

\* --- domain-level theorems -------------------------------------------------
ASSUME Cardinality(Tuples) = 81 /\ Cardinality(Pairs) = 36
ASSUME {Canon4(t) : t \in Tuples} = Keys /\ Cardinality(Keys) = 21
ASSUME {Canon2(p[1], p[2]) : p \in Pairs} = Keys
ASSUME \A t \in Tuples : Class(Canon4(t)) = Orbit(t)                       \* classes are exactly the orbits
ASSUME LET RECURSIVE Sum(_)
           Sum(S) == IF S = {} THEN 0 ELSE LET k == CHOOSE x \in S : TRUE IN Mult(k) + Sum(S \ {k})
       IN Sum(Keys) = 81
ASSUME Cardinality(LongKeys) = 3 /\ Cardinality(OffDKeys) = 3 /\ Cardinality(ShearKeys) = 15
ASSUME LongKeys \cup OffDKeys \cup ShearKeys = Keys
ASSUME LongKeys \cap OffDKeys = {} /\ LongKeys \cap ShearKeys = {} /\ OffDKeys \cap ShearKeys = {}
ASSUME \A v \in V6 : S2V(V2S[v][1], V2S[v][2]) = v                         \* S2V o V2S = id
ASSUME \A i \in I3, j \in I3 : V2S[S2V(i,j)] = <<Min(i,j), Max(i,j)>>
ASSUME <<V2S[1], V2S[2], V2S[3], V2S[4], V2S[5], V2S[6]>> = << <<1,1>>, <<2,2>>, <<3,3>>, <<2,3>>, <<1,3>>, <<1,2>> >>
ASSUME \A s \in BadSpellings : Spell(s) = Rejected
ASSUME \A s \in BadStrainSpellings : Spell(s) = Rejected
ASSUME \A s \in GoodStrainSpellings : Len(Spell(s)) = 1 /\ Spell(s)[1] \in V6
ASSUME \A s \in GoodStrainSpellings, t \in GoodStrainSpellings :
          (Spell(s) = Spell(t)) <=>
          LET P(x) == IF Len(x.d) = 2 THEN {x.d, <<x.d[2], x.d[1]>>} ELSE {V2S[x.d[1]], <<V2S[x.d[1]][2], V2S[x.d[1]][1]>>}
          IN P(s) = P(t)

\* --- oracle export -----------------------------------------------------------
Row(s) == LET k == Spell(s) IN
  IF k = Rejected THEN [kind |-> s.kind, d |-> s.d, rejected |-> TRUE]
  ELSE [kind |-> s.kind, d |-> s.d, rejected |-> FALSE, voigt |-> k, standard |-> Standard(k),
        mult |-> Mult(k), calc |-> CalcType(k), long |-> IsLong(k), offd |-> IsOffD(k), shear |-> IsShear(k)]
ERow(s) == LET v == Spell(s) IN
  IF v = Rejected THEN [kind |-> s.kind, d |-> s.d, rejected |-> TRUE]
  ELSE [kind |-> s.kind, d |-> s.d, rejected |-> FALSE, voigt |-> v[1], standard |-> V2S[v[1]]]

ASSUME JsonSerialize(IOEnv.OUTD \o "/c10_table.json",
   [ modulus |-> {Row(s) : s \in GoodSpellings \cup BadSpellings},
     strain  |-> {ERow(s) : s \in GoodStrainSpellings \cup BadStrainSpellings},
     nkeys   |-> Cardinality(Keys) ])
=============================================================================
