SPECIFICATION SchedSpec
CONSTANTS
  Pool = {"11", "12", "44", "45", "14", "15", "66", "23", "56"}
  Faithful = FALSE
  MaxReq = 2
INVARIANT TypeOK
INVARIANT AcyclicAgree
INVARIANT EdgesSound
INVARIANT Final
INVARIANT SortEnabled
INVARIANT Shallow
INVARIANT DepsFirst
INVARIANT NoStuck
INVARIANT Complete
INVARIANT IsoReadsOnly
PROPERTY Monotone
PROPERTY Terminates
