SPECIFICATION ESpec
INVARIANT InputsKept
INVARIANT EmitEffects
