SPECIFICATION SSpec
CONSTANTS
  N = 2
  MaxEntry = 3
INVARIANT DominantRecovered
INVARIANT PermutationUnlessZero
INVARIANT Progress
INVARIANT EmitFinal
