"""C02 demo m3: the C_V in  c^S - c^T = T V (dP_ph/dT)^2 / (9 e_i e_j C_V)  is the
heat capacity the QHA layer hands over (qha_calculator.volume_base.heat_capacity)
when the adiabatic value is asked for.

Two histories that must give the same numbers:
  A  the QHA layer holds the heat-capacity field, then the contribution object
     is created and read;
  B  the contribution object is created first (the QHA layer still holds an
     earlier heat-capacity field, e.g. of a previous settings/grid choice),
     the QHA layer is then updated to the same field as in A, and only then
     the adiabatic and isothermal values are read for the first time.
Nothing has been evaluated or cached before the update in history B.
"""
import sys
import types
import numpy
import scipy.constants as sc

from cij.core.phonon_contribution.nonshear import (
    LongitudinalElasticModulusPhononContribution as Lng,
    OffDiagonalElasticModulusPhononContribution as Off,
)

RY_EV = sc.physical_constants["Rydberg constant times hc in eV"][0]
K_RY = sc.physical_constants["Boltzmann constant in eV/K"][0] / RY_EV   # Ry / K
C2 = sc.h * sc.c / sc.k * 100.0                                          # cm K

rng = numpy.random.default_rng(11)
nt, ntv, nq, na = 5, 6, 3, 2
nmode = 3 * na
t = numpy.array([0., 200., 500., 900., 1400.])
v = numpy.linspace(300., 250., ntv)
w = numpy.array([1., 3., 4.])
freq = rng.uniform(100., 800., (ntv, nq, nmode))
gam = rng.uniform(0.2, 1.8, (ntv, nq, nmode))
freq[:, 0, :3] = 0
gam[:, 0, :3] = 0
cv_final = rng.uniform(0.3, 1.0, (nt, ntv)) * 3 * na * K_RY
cv_early = rng.uniform(0.3, 1.0, (nt, ntv)) * 3 * na * K_RY


def make_calc(cv):
    vb = types.SimpleNamespace(heat_capacity=cv, pressures=numpy.zeros((nt, ntv)))
    return types.SimpleNamespace(
        qha_calculator=types.SimpleNamespace(volume_base=vb),
        nv=ntv, np=nmode, nq=nq, na=na, v_array=v, t_array=t,
        freq_array=freq, mode_gamma=[numpy.zeros_like(gam), gam, gam ** 2],
        qha_input=types.SimpleNamespace(weights=[((0., 0., float(i)), x) for i, x in enumerate(w)]),
        static_p_array=numpy.zeros(ntv),
    )


numpy.seterr(all="ignore")
dpdt = numpy.zeros((nt, ntv))
for it in range(1, nt):
    q = C2 * freq / t[it]
    x = q * q * numpy.exp(q) / numpy.expm1(q) ** 2 * gam
    x[:, 0, :3] = 0
    dpdt[it] = K_RY * 3 * na / v * (x.mean(axis=2) @ w) / w.sum()

frac = numpy.array([[0.30], [0.36], [0.34]]) * numpy.ones((3, ntv))
bad = 0
for cls, (a, b) in [(Lng, (0, 0)), (Off, (0, 2))]:
    e = (frac[a], frac[b])
    expected = t[:, None] * v[None, :] * dpdt ** 2 / (9 * e[0] * e[1])[None, :] / cv_final

    calc_a = make_calc(cv_final)                       # history A
    c_a = cls(calc_a, e)
    gap_a = c_a.value_adiabatic - c_a.value_isothermal

    calc_b = make_calc(cv_early)                       # history B
    c_b = cls(calc_b, e)
    calc_b.qha_calculator.volume_base.heat_capacity = cv_final
    gap_b = c_b.value_adiabatic - c_b.value_isothermal

    ra = numpy.abs(gap_a[1:] - expected[1:]).max() / expected.max()
    rb = numpy.abs(gap_b[1:] - expected[1:]).max() / expected.max()
    ok = ra < 1e-7 and rb < 1e-7
    print("%s e%d e%d: history A vs formula %.2e, history B vs formula %.2e, A vs B %.2e  %s"
          % (cls.__name__[:3], a + 1, b + 1, ra, rb, numpy.abs(gap_a - gap_b).max() / expected.max(),
             "ok" if ok else "VIOLATION"))
    bad += not ok
sys.exit(1 if bad else 0)
