"""C02 demo (m3): adiabatic-isothermal gap of the phonon moduli for a crystal
whose axes compress differently (lattice-parameter block in the elasticity
file, axial strain fractions (0.60, 0.55, -0.15)).

For i,j <= 3:  c^S_ij - c^T_ij = T V (dP_ph/dT)^2 / (9 e_i e_j C_V), with
dP_ph/dT = (1/V) sum_qm w_q c_qm gamma_qm evaluated here from scratch (own
constants, own Einstein function) from the interpolated spectrum, e_i the
axial strain fractions, and C_V the heat capacity handed over by QHA.  The gap
is zero at T = 0, positive on the diagonal, and zero for every component
carrying a Voigt index 4-6.

Run:  cd <checkout> && PYTHONPATH=<checkout> /venv/bin/python demo.py
"""
import os, shutil, sys, tempfile, warnings
import numpy
import scipy.constants as sc

warnings.filterwarnings("ignore")

FRACTIONS = (0.60, 0.55, -0.15)      # d ln a_i / d ln V of the three axes

SETTINGS = """\
qha:
  input: input01
  settings:
    T_MIN: 0
    DT: 200
    NT: 6
    DT_SAMPLE: 200
    P_MIN: 0
    DELTA_P: 2
    DELTA_P_SAMPLE: 2
    NTV: 21
    order: 3
    static_only: False
    volume_ratio: 1.2
elast:
  input: elast.dat
  settings:
    mode_gamma:
      interpolator: lsq_poly
      order: 3
output:
  pressure_base: []
  volume_base: []
"""

# volumes of examples/akimotoite/input01 (bohr^3)
VOLUMES = [617.47767, 586.01996, 561.64902, 551.28015, 541.75694, 533.03739,
           524.96957, 510.43595]
KEYS = ["c11", "c22", "c33", "c12", "c13", "c23", "c44", "c55", "c66"]
C0 = [400.0, 430.0, 310.0, 125.0, 55.0, 75.0, 90.0, 100.0, 135.0]       # GPa at V[0]
DC = [2.45, 2.30, 2.35, 1.55, 1.75, 1.60, 0.85, 0.80, 0.45]            # GPa / bohr^3


def write_elast(fname):
    v0 = VOLUMES[1]
    lines = ["orthorhombic test crystal", "%.5f %d 200.782" % (v0, len(VOLUMES)),
             "V " + " ".join(KEYS)]
    for v in VOLUMES:
        row = ["%.5f" % v] + ["%.4f" % (c + d * (VOLUMES[0] - v)) for c, d in zip(C0, DC)]
        lines.append(" ".join(row))
    lines.append(" lattice_a lattice_b lattice_c")
    for v in VOLUMES:
        lines.append(" ".join("%.15f" % (l0 * (v / v0) ** f)
                              for l0, f in zip((9.1, 8.3, 7.7), FRACTIONS)))
    with open(fname, "w") as fp:
        fp.write("\n".join(lines) + "\n")


RY_IN_EV = sc.physical_constants["Rydberg constant times hc in eV"][0]
K_RY = sc.physical_constants["Boltzmann constant in eV/K"][0] / RY_IN_EV   # Ry / K
HC_OVER_K = sc.h * sc.c * 100 / sc.k                                        # K per cm^-1


def expected_gap(calc, strains):
    """T V (dP/dT)^2 / (9 e_i e_j C_V) for all (i, j), shape (3, 3, nt, ntv)."""
    T = numpy.asarray(calc.t_array, dtype=float)
    V = numpy.asarray(calc.v_array, dtype=float)
    w = numpy.array([x for _, x in calc.qha_input.weights], dtype=float)
    w = w / w.sum()
    freq = calc.freq_array            # (ntv, nq, np)  cm^-1
    gamma = calc.mode_gamma[1]        # -dln(w)/dln(V)
    c_mode = numpy.zeros((len(T),) + freq.shape)
    for it, t in enumerate(T):
        if t == 0:
            continue
        x = HC_OVER_K * freq / t
        with numpy.errstate(all="ignore"):
            c = x ** 2 * numpy.exp(-x) / numpy.expm1(-x) ** 2
        c[:, 0, :3] = 0.0             # acoustic modes at Gamma do not contribute
        c_mode[it] = c
    dpdt = K_RY * numpy.einsum("tvqm,vqm,q->tv", c_mode, gamma, w) / V[None, :]
    cv = calc.qha_calculator.volume_base.heat_capacity
    assert numpy.all(cv[T > 0] > 0), "heat capacity must be positive"
    out = numpy.zeros((3, 3, len(T), len(V)))
    for i in range(3):
        for j in range(3):
            out[i, j] = T[:, None] * V[None, :] * dpdt ** 2 \
                / (9 * strains[:, i] * strains[:, j])[None, :] / cv
    out[:, :, T == 0, :] = 0.0
    return out


def main():
    from cij.core.calculator import Calculator
    here = os.getcwd()
    tmp = tempfile.mkdtemp(prefix="c02_")
    try:
        shutil.copy(os.path.join(here, "examples", "akimotoite", "input01"), tmp)
        write_elast(os.path.join(tmp, "elast.dat"))
        with open(os.path.join(tmp, "settings.yaml"), "w") as fp:
            fp.write(SETTINGS)
        calc = Calculator(os.path.join(tmp, "settings.yaml"))
    finally:
        shutil.rmtree(tmp, ignore_errors=True)

    T = numpy.asarray(calc.t_array, dtype=float)
    fm = calc._full_modulus
    strains = fm.get_axial_strains()
    # the strain fractions really are those of the lattice-parameter block
    assert numpy.allclose(strains.sum(axis=1), 1.0)
    assert numpy.abs(strains - numpy.array(FRACTIONS)[None, :]).max() < 0.1, strains[[0, -1]]
    assert numpy.all(numpy.sign(strains) == numpy.sign(FRACTIONS)[None, :]), strains[[0, -1]]

    adia, isot = fm._adiabatic_phonon_contribution, fm._isothermal_phonon_contribution
    exp = expected_gap(calc, strains)

    seen = set()
    for key in calc.modulus_keys:
        i, j = key.v
        gap = adia[key] - isot[key]
        full_gap = calc.modulus_adiabatic[key] - calc.modulus_isothermal[key]
        assert numpy.allclose(gap, full_gap, rtol=0, atol=1e-12), key
        if i <= 3 and j <= 3:
            e = exp[i - 1, j - 1]
            for it, t in enumerate(T):
                tol = 1e-5 * numpy.abs(e[it]).max() + 1e-300
                assert numpy.abs(gap[it] - e[it]).max() <= tol, (
                    "C02 violated for c%d%d at T = %g K: gap %r, expected %r"
                    % (i, j, t, gap[it, :3], e[it, :3]))
                if t == 0:
                    assert numpy.all(gap[it] == 0)
                elif i == j:
                    assert numpy.all(gap[it] > 0), "diagonal gap must be positive"
            print("c%d%d: gap(T=%g K, V[0]) = % .4e  expected % .4e"
                  % (i, j, T[-1], gap[-1, 0], e[-1, 0]))
        else:
            assert numpy.array_equal(adia[key], isot[key]), "shear c%d%d differs" % (i, j)
        seen.add((i, j))
    assert seen == {(1, 1), (2, 2), (3, 3), (1, 2), (1, 3), (2, 3), (4, 4), (5, 5), (6, 6)}
    print("C02 holds")


if __name__ == "__main__":
    main()
    sys.exit(0)
