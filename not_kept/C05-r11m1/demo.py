"""C05 / m1 - crystal-system filling of the static table must be applied before the static fit.

A cubic static table lists c11, c22, c33 (redundant, and - as usual for numerical data - equal only to
within the residual tolerance of the filling), c12 and c44.  With `symmetry: system: cubic` the property
says the table is first filled/symmetrised by the crystal-system least-squares filling and the static part
is the Eulerian-strain fit of that filled table.

Two presentations of the same data are compared:
  A. the raw table + `system: cubic`                (filling done by the package)
  B. the filled table (filling done HERE, independently, with numpy) + no symmetry request
Both runs share the phonon file and settings, so every modulus must agree on the whole (T,V) grid.
In addition c11(T=0,V) of run A is compared with an independent value: fitted filled table + zero-point part.
"""
import sys, tempfile, pathlib, itertools, logging, warnings
logging.disable(logging.CRITICAL); warnings.filterwarnings("ignore")
import numpy, scipy.constants as sc, textwrap, pathlib

RY_J = sc.physical_constants["Rydberg constant times hc in J"][0]
BOHR = sc.physical_constants["Bohr radius"][0]
GPA_PER_AU = RY_J / BOHR ** 3 / 1e9          # 1 Ry/bohr^3 in GPa
H_RY_CM = sc.h * sc.c * 100 / RY_J           # h c in Ry cm

V_PH = numpy.array([600., 580., 560., 540., 520., 500.])     # phonon-file volumes (bohr^3, decreasing)

def bm3_energy(v, v0=620., k0=200. / GPA_PER_AU, kp=4., e0=-100.):
    x = (v0 / v) ** (2 / 3)
    return e0 + 9 * v0 * k0 / 16 * ((x - 1) ** 3 * kp + (x - 1) ** 2 * (6 - 4 * x))

def make_modes(nq, na, rng):
    """power-law branches w = w0 (V/600)^-g ; returns w0[nq,np], g[nq,np]"""
    np_ = 3 * na
    w0 = numpy.sort(rng.uniform(150., 900., size=(nq, np_)), axis=1)
    g = rng.uniform(0.6, 1.8, size=(nq, np_))
    w0[0, :3] = 0.0
    return w0, g

def freqs(w0, g, v):
    return w0[None] * (v[:, None, None] / 600.) ** (-g[None])      # (nv, nq, np)

def write_input01(path, vols, energies, fr, weights, na, nm=1):
    nv, nq, np_ = fr.shape
    out = ["synthetic", "", "nv nq np nm na", "%d %d %d %d %d" % (nv, nq, np_, nm, na), ""]
    for i in range(nv):
        out.append("P= %14.6f V= %16.8f E= %20.12f" % (0.0, vols[i], energies[i]))
        for j in range(nq):
            out.append("%10.4f %10.4f %10.4f" % (0.1 * j, 0.0, 0.0))
            out += ["%22.12f" % x for x in fr[i, j]]
    out += ["", "weight"]
    out += ["%10.4f %10.4f %10.4f %10.4f" % (0.1 * j, 0.0, 0.0, weights[j]) for j in range(nq)]
    pathlib.Path(path).write_text("\n".join(out) + "\n")

def write_elast(path, vols, table, lattice=None):
    keys = list(table)
    out = ["V_0 N cellmass synthetic", "%r %d %r" % (float(vols[0]), len(vols), 100.0),
           " ".join(["V"] + keys)]
    for i, v in enumerate(vols):
        out.append(" ".join([repr(float(v))] + [repr(float(table[k][i])) for k in keys]))
    if lattice is not None:
        out.append("lattice_a lattice_b lattice_c")
        out += [" ".join(repr(float(x)) for x in row) for row in lattice]
    pathlib.Path(path).write_text("\n".join(out) + "\n")

def write_settings(path, system=None, ntv=21):
    sym = "" if system is None else "    symmetry:\n      system: %s\n" % system
    pathlib.Path(path).write_text(textwrap.dedent("""\
        qha:
          input: input01
          settings:
            T_MIN: 0
            NT: 3
            DT: 300
            DT_SAMPLE: 300
            P_MIN: 0
            DELTA_P: 2
            DELTA_P_SAMPLE: 2
            NTV: %d
            order: 3
            static_only: False
            volume_ratio: 1.2
        elast:
          input: elast.dat
          settings:
            mode_gamma:
              interpolator: lsq_poly
              order: 3
        """ % ntv) + sym)

def static_expected(vols, c_gpa, v_array):
    f = lambda v: 0.5 * ((vols[0] / v) ** (2 / 3) - 1)
    p = numpy.polyfit(f(vols), vols * c_gpa / GPA_PER_AU, 3)
    return numpy.polyval(p, f(v_array)) / v_array

def zpm_longitudinal_expected(vols, fr, weights, na, v_array, e_i):
    """zero-point phonon part of c_ii at T = 0 for strain fraction e_i (array over v_array or scalar)"""
    nv, nq, np_ = fr.shape
    lnv, x = numpy.log(vols), numpy.log(v_array)
    acc = numpy.zeros((len(v_array), nq))
    for j in range(nq):
        for k in range(np_):
            if j == 0 and k < 3: continue
            p = numpy.polyfit(lnv, numpy.log(fr[:, j, k]), 3)
            w = numpy.exp(numpy.polyval(p, x))
            gam = -numpy.polyval(numpy.polyder(p, 1), x)
            vdg = -numpy.polyval(numpy.polyder(p, 2), x)
            acc[:, j] += ((gam ** 2 - vdg) / (5 * e_i ** 2) + gam / (3 * e_i)) * w
    acc /= np_
    w = numpy.asarray(weights, float)
    avg = acc @ (w / w.sum())
    return H_RY_CM / 2 / v_array * avg * 3 * na

from cij.core.calculator import Calculator
from cij.util import c_

def cubic_fill(table):
    """independent re-implementation of the (soft) least-squares filling for the cubic system"""
    names = ["c%d%d" % (i, j) for i in range(1, 7) for j in range(i, 7)]
    idx = {n: k for k, n in enumerate(names)}
    rows, rhs = [], []
    nvol = len(next(iter(table.values())))
    for n, col in table.items():
        r = numpy.zeros(21); r[idx[n]] = 1; rows.append(r); rhs.append(numpy.asarray(col, float))
    def eq(a, b=None, sign=-1):
        r = numpy.zeros(21); r[idx[a]] = 1
        if b is not None: r[idx[b]] = sign
        rows.append(r); rhs.append(numpy.zeros(nvol))
    eq("c11", "c22"); eq("c11", "c33"); eq("c12", "c13"); eq("c12", "c23"); eq("c44", "c55"); eq("c44", "c66")
    for first, rest in (("c14", ("c15", "c16")), ("c24", ("c25", "c26")), ("c34", ("c35", "c36")), ("c45", ("c46", "c56"))):
        for n in rest: eq(first, n)
        eq(first)
    x = numpy.linalg.lstsq(numpy.array(rows), numpy.array(rhs), rcond=None)[0]
    return {n: x[idx[n]] for n in names if not numpy.allclose(x[idx[n]], 0, atol=1e-8)}

rng = numpy.random.default_rng(11)
nq, na = 3, 2
w0, g = make_modes(nq, na, rng)
fr = freqs(w0, g, V_PH)
weights = [1., 3., 2.]
V_ST = numpy.array([610., 585., 555., 530., 495.])
c11 = 300. * (600. / V_ST) ** 3.2
raw = dict(c11=c11, c22=c11 + 0.25, c33=c11 - 0.20,      # numerical noise of ~0.2 GPa between equivalent axes
           c12=120. * (600. / V_ST) ** 3.0, c44=100. * (600. / V_ST) ** 2.0)
filled = cubic_fill(raw)
assert sorted(filled) == ["c11", "c12", "c13", "c22", "c23", "c33", "c44", "c55", "c66"], sorted(filled)

def run(table, system):
    with tempfile.TemporaryDirectory() as d:
        d = pathlib.Path(d)
        write_input01(d / "input01", V_PH, bm3_energy(V_PH), fr, weights, na)
        write_elast(d / "elast.dat", V_ST, table)
        write_settings(d / "settings.yaml", system)
        return Calculator(str(d / "settings.yaml"))

A = run(raw, "cubic")
B = run(filled, None)
bad = []
assert set(A.modulus_isothermal) == set(B.modulus_isothermal), (list(A.modulus_isothermal), list(B.modulus_isothermal))
for key in A.modulus_isothermal:
    for name in ("modulus_isothermal", "modulus_adiabatic"):
        a, b = getattr(A, name)[key], getattr(B, name)[key]
        err = numpy.max(numpy.abs(a - b)) * GPA_PER_AU
        if err > 1e-6:
            bad.append("%s %s: raw table + 'cubic' differs from the filled table by up to %.4f GPa" % (name, key, err))

v = A.v_array
expected = static_expected(V_ST, filled["c11"], v) + zpm_longitudinal_expected(V_PH, fr, weights, na, v, 1 / 3)
got = A.modulus_isothermal[c_("11")][0]
err = numpy.max(numpy.abs(got - expected)) * GPA_PER_AU
if err > 1e-6:
    bad.append("c11(T=0,V): static(filled table)+zero-point expected, off by up to %.4f GPa" % err)

if bad:
    print("VIOLATION of C05 (static part is not the fit of the symmetry-filled table):")
    print("\n".join(bad)); sys.exit(1)
print("ok: raw table + cubic filling == independently filled table, c11(T=0) == static(filled) + zero-point")
