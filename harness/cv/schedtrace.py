"""Recording PhononContributionTaskList runs (hooks of cij/core/tasks.py + wrappers on the result stores) and projecting
them onto the task ids of the specification (SchedInstance.tla)."""
from __future__ import annotations

import numpy

from .core import MachineryError
from . import sched


class ProjectionError(Exception):
    pass


class Projector:
    """real task parameters -> specification task id, by the strain values they carry."""

    def __init__(self, inst, base_strain, rtol=1e-9, atol=1e-11):
        self.inst = inst
        self.rtol, self.atol = rtol, atol
        self.base = numpy.asarray(base_strain, dtype=float)
        rows = self.base.sum(axis=1)
        self.vals = {vid: (self.base @ c) / rows for vid, c in sched.value_coeffs(inst).items()}

    def value_id(self, arr):
        arr = numpy.asarray(arr, dtype=float)
        hits = [vid for vid, a in self.vals.items() if a.shape == arr.shape and numpy.allclose(a, arr, rtol=self.rtol, atol=self.atol)]
        if len(hits) != 1:
            raise ProjectionError(f"strain value matches {len(hits)} specification values")
        return hits[0]

    def params(self, p):
        from cij.util import ElasticModulusCalculationType as CT
        if p.calc_type == CT.SHEAR:
            strain, key = p.params
            if not numpy.allclose(numpy.asarray(strain, dtype=float), self.base, rtol=self.rtol, atol=self.atol):
                raise ProjectionError("shear task outside the base frame")
            return "S%d%d" % key.voigt
        v, w = self.value_id(p.params[0]), self.value_id(p.params[1])
        if p.calc_type == CT.LONGITUDINAL:
            if v != w:
                raise ProjectionError("longitudinal task with two different strain values")
            return f"L{v}"
        return f"O{v}_{w}"


class Capture:
    """Harness-side recorder of task-list runs: the env-guarded hooks of cij/core/tasks.py (Resolve/Pop/Sort/Eval) plus wrappers on the
    result stores (look-ups), on calculate() (its return = Done) and on get_*_results() (Gets).  One raw run per resolve()."""

    def __init__(self):
        self.runs = []          # each: {"strain", "keys", "raw": [(ev, fields, lookups)], "tl"}
        self.looks = []
        self._orig = {}

    def __enter__(self):
        import cij.core.tasks as T
        from cij.util import _trace
        if not _trace._ENABLED:
            raise MachineryError("CIJ_VERIF_TRACE hooks are not enabled in this process")
        cap = self
        orig_get = T.PhononContributionTaskResults.__getitem__
        orig_calc = T.PhononContributionTaskList.calculate
        orig_iso = T.PhononContributionTaskList.get_isothermal_results
        orig_adi = T.PhononContributionTaskList.get_adiabatic_results
        self._orig = {"get": orig_get, "calc": orig_calc, "iso": orig_iso, "adi": orig_adi}

        def getitem(self, _key):
            p = _key if isinstance(_key, T.PhononContributionTaskParams) else T.PhononContributionTaskParams.create(*_key)
            cap.looks.append((id(self), p))
            return orig_get(self, _key)

        def calculate(self):
            r = orig_calc(self)
            run = cap._run_of(self)
            if run is not None:
                run["raw"].append(("Done", {}, None))
                cap.looks.clear()
            return r

        def getter(orig, name):
            def w(self):
                cap.looks.clear()
                r = orig(self)
                run = cap._run_of(self)
                if run is not None:
                    run["gets"][name] = list(cap.looks)
                cap.looks.clear()
                return r
            return w

        def sink(ev, f):
            if ev == "Resolve":
                cap.runs.append({"strain": f["strain"], "keys": [q[1] for q in f["queue"]], "raw": [("Resolve", {"keys": [q[1] for q in f["queue"]]}, None)],
                                 "gets": {}, "tl": None, "tlid": None})
                cap.looks.clear()
                return
            if not cap.runs:
                return
            run = cap.runs[-1]
            if ev == "Eval":
                run["raw"].append((ev, dict(f), list(cap.looks)))
                cap.looks.clear()
            elif ev == "Pop":
                run["raw"].append((ev, {k: f[k] for k in ("key", "dep", "curr", "ntasks", "qlen", "task")}, None))
            elif ev == "Sort":
                run["raw"].append((ev, {"tasks": list(f["tasks"]), "data": list(f["data"]), "edges": list(f["graph"].edges())}, None))

        # the task list a run belongs to is learnt at calculate(): the list whose data are the Sort event's data
        T.PhononContributionTaskResults.__getitem__ = getitem
        T.PhononContributionTaskList.calculate = calculate
        T.PhononContributionTaskList.get_isothermal_results = getter(orig_iso, "iso")
        T.PhononContributionTaskList.get_adiabatic_results = getter(orig_adi, "adi")
        _trace.set_sink(sink)
        return self

    def _run_of(self, tl):
        for run in reversed(self.runs):
            if run["tlid"] == id(tl):
                return run
            if run["tlid"] is None:
                srt = next((f for ev, f, _ in run["raw"] if ev == "Sort"), None)
                if srt is not None and len(srt["data"]) == len(tl.data) and all(a is b for a, b in zip(srt["data"], tl.data)):
                    run["tlid"], run["tl"] = id(tl), tl
                    return run
        return None

    def __exit__(self, *exc):
        import cij.core.tasks as T
        from cij.util import _trace
        _trace.set_sink(None)
        T.PhononContributionTaskResults.__getitem__ = self._orig["get"]
        T.PhononContributionTaskList.calculate = self._orig["calc"]
        T.PhononContributionTaskList.get_isothermal_results = self._orig["iso"]
        T.PhononContributionTaskList.get_adiabatic_results = self._orig["adi"]
        return False


def project_run(inst, run, rtol=1e-9, atol=1e-11):
    """raw run of Capture -> (events for Trace_Sched | None, info)"""
    tl = run["tl"]
    store_name = {} if tl is None else {id(tl.modulus_isothermal_values): "iso", id(tl.modulus_adiabatic_values): "adi"}
    proj = Projector(inst, run["strain"], rtol, atol)
    keys = run["keys"]
    events, known, info = [], [], {"projection": "ok", "error": None}
    try:
        ids = {}

        def pid(task):
            if id(task) not in ids:
                ids[id(task)] = proj.params(task.task_params)
            return ids[id(task)]
        for ev, f, lk in run["raw"]:
            if ev == "Resolve":
                for k in f["keys"]:
                    events.append({"ev": "Request", "key": "%d%d" % k.voigt})
                events.append({"ev": "Start", "qlen": len(f["keys"])})
            elif ev == "Pop":
                new = f["curr"] == len(known)
                if new:
                    known.append(f["task"])
                events.append({"ev": "Pop", "task": pid(f["task"]), "dep": "none" if f["dep"] is None else pid(known[f["dep"]]),
                               "new": bool(new), "ntasks": int(f["ntasks"]), "qlen": int(f["qlen"])})
            elif ev == "Sort":
                events.append({"ev": "Sort", "order": [pid(t) for t in f["data"]],
                               "edges": [[pid(f["tasks"][a]), pid(f["tasks"][b])] for a, b in f["edges"]]})
            elif ev == "Eval":
                events.append({"ev": "Eval", "task": pid(f["task"]), "reads": [[proj.params(p), store_name.get(sid, "?")] for sid, p in lk]})
            elif ev == "Done":
                events.append({"ev": "Done"})
        for st in ("iso", "adi"):
            for (sid, p), k in zip(run["gets"].get(st, []), keys):
                events.append({"ev": "Get", "key": "%d%d" % k.voigt, "task": proj.params(p), "store": store_name.get(sid, "?")})
        universe = sched.all_tasks(inst)
        if any(pid(t) not in universe for t in known):
            raise ProjectionError("task outside the specification's task universe (axis-order convention)")
        allids = [pid(t) for t in known]
        if len(set(allids)) != len(allids):
            info["projection"] = "non-injective"
            for e in events:
                if e["ev"] == "Pop":
                    e["ntasks"] = -1
    except ProjectionError as pe:
        info["projection"] = f"failed: {pe}"
        events = None
    return events, info


def record(inst, duck, strain, keys, rtol=1e-9, atol=1e-11, tl=None):
    """Run resolve/calculate/get_* on the real class with recording.  -> (events, tasklist, results, info)"""
    import cij.core.tasks as T
    from cij.util import _trace

    if not _trace._ENABLED:
        raise MachineryError("CIJ_VERIF_TRACE hooks are not enabled in this process")
    proj = Projector(inst, strain, rtol, atol)
    raw, looks = [], []
    if tl is None:
        tl = T.PhononContributionTaskList(duck)       # (a list handed in is re-used: resolve() starts over on it)
    store_name = {id(tl.modulus_isothermal_values): "iso", id(tl.modulus_adiabatic_values): "adi"}
    orig_get = T.PhononContributionTaskResults.__getitem__

    def getitem(self, _key):
        if isinstance(_key, T.PhononContributionTaskParams):
            p = _key
        else:
            p = T.PhononContributionTaskParams.create(*_key)
        looks.append((store_name.get(id(self), "?"), p))
        return orig_get(self, _key)

    def sink(ev, f):
        if ev == "Eval":
            raw.append((ev, dict(f), list(looks)))
            looks.clear()
        elif ev == "Pop":
            raw.append((ev, {k: f[k] for k in ("key", "dep", "curr", "ntasks", "qlen", "task")}, None))
        elif ev == "Resolve":
            raw.append((ev, {"keys": [q[1] for q in f["queue"]]}, None))
        elif ev == "Sort":
            raw.append((ev, {"tasks": list(f["tasks"]), "data": list(f["data"]), "edges": list(f["graph"].edges())}, None))

    T.PhononContributionTaskResults.__getitem__ = getitem
    _trace.set_sink(sink)
    err = None
    iso = adi = None
    try:
        with numpy.errstate(all="ignore"):
            tl.resolve(strain, keys)
            tl.calculate()
            raw.append(("Done", {}, None))
            looks.clear()
            iso = tl.get_isothermal_results()
            g1 = list(looks); looks.clear()
            adi = tl.get_adiabatic_results()
            g2 = list(looks); looks.clear()
            raw.append(("Gets", {"iso": g1, "adi": g2}, None))
    except Exception as ex:       # the run itself failed: that is an observation, reported by the caller
        err = ex
    finally:
        _trace.set_sink(None)
        T.PhononContributionTaskResults.__getitem__ = orig_get

    # ---- projection -------------------------------------------------------------------------------------
    events, known, info = [], [], {"projection": "ok", "error": err}
    try:
        ids = {}
        def pid(task):
            if id(task) not in ids:
                ids[id(task)] = proj.params(task.task_params)
            return ids[id(task)]
        for ev, f, lk in raw:
            if ev == "Resolve":
                for k in f["keys"]:
                    events.append({"ev": "Request", "key": "%d%d" % k.voigt})
                events.append({"ev": "Start", "qlen": len(f["keys"])})
            elif ev == "Pop":
                new = f["curr"] == len(known)
                if new:
                    known.append(f["task"])
                events.append({"ev": "Pop", "task": pid(f["task"]), "dep": "none" if f["dep"] is None else pid(known[f["dep"]]),
                               "new": bool(new), "ntasks": int(f["ntasks"]), "qlen": int(f["qlen"])})
            elif ev == "Sort":
                events.append({"ev": "Sort", "order": [pid(t) for t in f["data"]],
                               "edges": [[pid(f["tasks"][a]), pid(f["tasks"][b])] for a, b in f["edges"]]})
            elif ev == "Eval":
                events.append({"ev": "Eval", "task": pid(f["task"]), "reads": [[proj.params(p), st] for st, p in lk]})
            elif ev == "Done":
                events.append({"ev": "Done"})
            elif ev == "Gets":
                for st in ("iso", "adi"):
                    for (s, p), k in zip(f[st], keys):
                        events.append({"ev": "Get", "key": "%d%d" % k.voigt, "task": proj.params(p), "store": s})
        universe = sched.all_tasks(inst)
        if any(pid(t) not in universe for t in known):
            # e.g. another (equally valid) axis order inside a degenerate eigenspace: the ordered pair is not one the
            # specification's frame convention produces; index-level comparison is not meaningful then
            raise ProjectionError("task outside the specification's task universe (axis-order convention)")
        allids = [pid(t) for t in known]
        if len(set(allids)) != len(allids):
            # two code tasks carry the same specification id (e.g. (v,w) and (w,v) off-diagonal pairs): counts not comparable
            info["projection"] = "non-injective"
            for e in events:
                if e["ev"] == "Pop":
                    e["ntasks"] = -1
    except ProjectionError as pe:
        info["projection"] = f"failed: {pe}"
        events = None
    return events, tl, (iso, adi), info
