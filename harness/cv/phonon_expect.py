"""Expected phonon tensor, composed from TLC exports only:
   non-shear task values  <- normal forms of C01.tla evaluated at the task's strain-fraction values (ThermoOracle)
   shear task values      <- TargetTerms of SchedInstance.tla (linear combination of dependency values over Q(sqrt d))
"""
from __future__ import annotations

import numpy

from . import sched
from .core import MachineryError


def scenario_of(strain) -> str:
    e = numpy.asarray(strain, dtype=float)
    eq = lambda a, b: numpy.array_equal(e[:, a], e[:, b])
    if eq(0, 1) and eq(1, 2):
        return "isotropic"
    if eq(0, 1) and not eq(0, 2):
        return "uniaxial"
    if eq(0, 2) or eq(1, 2):
        raise MachineryError("strain scenario e1=e3 or e2=e3 is not modelled")
    return "generic"


class PhononExpectation:
    def __init__(self, oracle, inst, case, strain):
        self.oracle, self.inst, self.case = oracle, inst, case
        e = numpy.asarray(strain, dtype=float)
        rows = e.sum(axis=1)
        self.vals = {vid: (e @ c) / rows for vid, c in sched.value_coeffs(inst).items()}
        self.shear = {s["task"]: s for s in inst["shear"]}
        self.roots = {sched.key_str(r["key"]): r["task"] for r in inst["roots"]}
        self.cache = {}

    def task(self, t):
        """-> (iso, adi, scale_iso, scale_adi) arrays (nt, ntv)"""
        if t in self.cache:
            return self.cache[t]
        if t.startswith("L"):
            v = int(t[1:])
            ex = self.oracle.expected("long", self.case, self.vals[v], self.vals[v])
            out = (ex["iso"][0], ex["adi"][0], ex["iso"][1], ex["adi"][1])
        elif t.startswith("O"):
            v, w = (int(x) for x in t[1:].split("_"))
            ex = self.oracle.expected("offd", self.case, self.vals[v], self.vals[w])
            out = (ex["iso"][0], ex["adi"][0], ex["iso"][1], ex["adi"][1])
        else:
            s = self.shear[t]
            d = s["disc"]
            iso = 0.0
            scale = 0.0
            for term in list(s["rot"]) + list(s["own"]):
                c = sched.fld(term["coef"], d)
                di, _, ds, _ = self.task(term["dep"])
                iso = iso + c * di
                scale = scale + abs(c) * ds
            out = (iso, iso, scale, scale)     # C02: adiabatic = isothermal for shear-type components
        self.cache[t] = out
        return out

    def key(self, k):
        return self.task(self.roots[sched.key_str(k)])
