"""Parser for TLA+ values as printed by TLC (PrintT output, state dumps).

<<..>> -> list, {..} -> frozenset (as sorted list if unhashable), "s" -> str, ints, TRUE/FALSE -> bool,
[a |-> v, ..] -> dict, (k :> v @@ ..) -> dict, a..b -> list.
"""
from __future__ import annotations

import re

_TOK = re.compile(r'\s*(<<|>>|\{|\}|\[|\]|\(|\)|,|\|->|:>|@@|\.\.|"(?:[^"\\]|\\.)*"|-?\d+|[A-Za-z_][A-Za-z_0-9]*)')


class TLAParseError(Exception):
    pass


def tokenize(s: str):
    pos, out = 0, []
    s = s.strip()
    while pos < len(s):
        m = _TOK.match(s, pos)
        if not m:
            raise TLAParseError(f"bad token at {s[pos:pos+30]!r}")
        out.append(m.group(1))
        pos = m.end()
    return out


def _freeze(x):
    if isinstance(x, list):
        return tuple(_freeze(y) for y in x)
    if isinstance(x, dict):
        return tuple(sorted((k, _freeze(v)) for k, v in x.items()))
    if isinstance(x, (set, frozenset)):
        return frozenset(_freeze(y) for y in x)
    return x


class _P:
    def __init__(self, toks):
        self.t, self.i = toks, 0

    def peek(self):
        return self.t[self.i] if self.i < len(self.t) else None

    def eat(self, tok=None):
        x = self.peek()
        if tok is not None and x != tok:
            raise TLAParseError(f"expected {tok} got {x}")
        self.i += 1
        return x

    def value(self):
        x = self.peek()
        if x == "<<":
            self.eat()
            out = []
            while self.peek() != ">>":
                out.append(self.value())
                if self.peek() == ",":
                    self.eat()
            self.eat(">>")
            return out
        if x == "{":
            self.eat()
            out = []
            while self.peek() != "}":
                out.append(self.value())
                if self.peek() == ",":
                    self.eat()
            self.eat("}")
            return out                      # sets as lists (TLC prints them in a normalised order)
        if x == "[":
            self.eat()
            out = {}
            while self.peek() != "]":
                k = self.eat()
                self.eat("|->")
                out[k] = self.value()
                if self.peek() == ",":
                    self.eat()
            self.eat("]")
            return out
        if x == "(":
            self.eat()
            out = {}
            while True:
                k = self.value()
                self.eat(":>")
                v = self.value()
                out[_freeze(k) if not isinstance(k, (str, int)) else k] = v
                if self.peek() == "@@":
                    self.eat()
                    continue
                break
            self.eat(")")
            return out
        self.eat()
        if x is None:
            raise TLAParseError("unexpected end")
        if x.startswith('"'):
            return x[1:-1].replace('\\"', '"').replace("\\\\", "\\")
        if x == "TRUE":
            return True
        if x == "FALSE":
            return False
        if re.fullmatch(r"-?\d+", x):
            v = int(x)
            if self.peek() == "..":
                self.eat()
                hi = int(self.eat())
                return list(range(v, hi + 1))
            return v
        return x                            # model value / identifier


def parse(s: str):
    p = _P(tokenize(s))
    v = p.value()
    if p.peek() is not None:
        raise TLAParseError(f"trailing tokens {p.t[p.i:p.i+5]}")
    return v


def printed_values(out: str, tag: str):
    """All values printed by PrintT(<<tag, ...>>) in a TLC output (bracket matching, multi-line safe, 1 worker)."""
    res = []
    needle = '<< "' + tag + '"'
    alt = '<<"' + tag + '"'
    i = 0
    while True:
        j = out.find(needle, i)
        j2 = out.find(alt, i)
        if j < 0 or (0 <= j2 < j):
            j = j2
        if j < 0:
            break
        depth, k, instr = 0, j, False
        while k < len(out):
            c = out[k]
            if instr:
                if c == "\\":
                    k += 1
                elif c == '"':
                    instr = False
            elif c == '"':
                instr = True
            elif out.startswith("<<", k):
                depth += 1
                k += 1
            elif out.startswith(">>", k):
                depth -= 1
                k += 1
                if depth == 0:
                    break
            k += 1
        res.append(parse(out[j:k + 1]))
        i = k + 1
    return res
