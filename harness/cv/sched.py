"""Scheduler problem instances: SchedInstance.tla export (per strain scenario) -> literal data module SchedData.tla.

The export depends only on the specification sources, so it is cached under /verif/.cache keyed by their hash.
"""
from __future__ import annotations

import concurrent.futures
import hashlib
import json
import math
import shutil
from pathlib import Path

from .core import SPEC, VERIF, MachineryError
from .tlc import run_tlc, must_ok, tla

SCENARIOS = ("generic", "uniaxial", "isotropic")
EXTRA_SCENARIOS = ("uniaxial23", "uniaxial13")       # other equal pairs: used for recorded runs of real data (trace validation)
_SRC = ("Rat.tla", "QuadField.tla", "Voigt.tla", "ShearSolver.tla", "SchedInstance.tla")


def _spec_hash():
    h = hashlib.sha1()
    for f in _SRC:
        h.update((SPEC / f).read_bytes())
    return h.hexdigest()[:16]


def _export_one(args):
    scen, scratch = args
    res = run_tlc("SchedInstance", None, scratch, env={"SCENARIO": scen}, workers=1, timeout=900)
    return scen, res


def load_instances(ctx, scenarios=SCENARIOS, use_cache=True) -> dict:
    """scenario -> exported instance (dict).  Runs SchedInstance.tla in TLC for the scenarios not cached."""
    cache = VERIF / ".cache" / f"sched.{_spec_hash()}"
    out, todo = {}, []
    for sc in scenarios:
        p = cache / f"sched_{sc}.json"
        if use_cache and p.exists():
            out[sc] = json.loads(p.read_text())
        else:
            todo.append(sc)
    if todo:
        with concurrent.futures.ThreadPoolExecutor(len(todo)) as ex:
            for sc, res in ex.map(_export_one, [(sc, ctx.subdir(f"inst_{sc}")) for sc in todo]):
                must_ok(res, f"(scenario {sc})")
                ctx.cov["tlc_runs"].append(res.summary())
                out[sc] = res.load(f"sched_{sc}.json")
                cache.mkdir(parents=True, exist_ok=True)
                shutil.copy(res.outdir / f"sched_{sc}.json", cache / f"sched_{sc}.json")
    ctx.cov.setdefault("instances", {})
    for sc in scenarios:
        ctx.cov["instances"][sc] = {"values": len(out[sc]["values"]), "shear_tasks": len(out[sc]["shear"])}
    return out


def key_str(k):
    return f"{k[0]}{k[1]}"


def all_tasks(inst) -> set:
    t = {r["task"] for r in inst["roots"]}
    for s in inst["shear"]:
        t.add(s["task"])
        t |= {d["dep"] for d in s["deps"]}
    return t


def write_data_module(inst, scratch: Path, name="SchedData") -> Path:
    """Literal TLA+ module for one scenario: AllTasks, ShearTasks, DepBagOf, RootOf, AllKeyStrs."""
    tasks = sorted(all_tasks(inst))
    shear = {s["task"]: s for s in inst["shear"]}
    lines = [f"---- MODULE {name} ----", "EXTENDS Integers, Bags",
             f"\\* generated from the SchedInstance.tla export, scenario {inst['scenario']}",
             "AllTasks == " + tla(set(tasks)),
             "ShearTasks == " + tla(set(shear)),
             "AllKeyStrs == " + tla({key_str(r["key"]) for r in inst["roots"]})]
    fn = []
    for t in tasks:
        if t in shear:
            fn.append(f"{tla(t)} :> (" + " @@ ".join(f"{tla(d['dep'])} :> {d['n']}" for d in sorted(shear[t]["deps"], key=lambda d: d["dep"])) + ")")
        else:
            fn.append(f"{tla(t)} :> EmptyBag")
    lines.append("DepBagOf == " + " @@\n  ".join(fn))
    lines.append("RootOf == " + " @@ ".join(f"{tla(key_str(r['key']))} :> {tla(r['task'])}" for r in sorted(inst["roots"], key=lambda r: r["key"])))
    lines.append("====")
    p = Path(scratch) / f"{name}.tla"
    p.write_text("\n".join(lines).replace("EXTENDS Integers, Bags", "EXTENDS Integers, Bags, TLC") + "\n")
    return p


def fld(x, d):
    return x["a"][0] / x["a"][1] + (x["b"][0] / x["b"][1] * math.sqrt(d) if d else 0.0)


def value_coeffs(inst):
    """value id -> numpy coefficient triple over (e1,e2,e3) (collapsed according to the scenario)."""
    import numpy
    return {v["id"]: numpy.array([fld(c, v["d"]) for c in v["c"]]) for v in inst["values"]}
