"""The repository's own tests as drivers: run selected test modules of REPO in this process (on a scratch copy of tests/ and
examples/, so that nothing is written into the repository) while harness-side recorders are active."""
from __future__ import annotations

import os
import shutil
from pathlib import Path

from .core import REPO, MachineryError


def run_tests(scratch: Path, selection: list[str], timeout_note: str = "") -> int:
    """-> pytest exit code (0 all passed, 1 some failed; both are fine for recording purposes)"""
    import pytest
    scratch = Path(scratch)
    for sub in ("tests", "examples"):
        if (scratch / sub).exists():
            shutil.rmtree(scratch / sub)
        shutil.copytree(REPO / sub, scratch / sub)
    import contextlib
    import io
    here = os.getcwd()
    os.chdir(scratch)
    buf = io.StringIO()
    try:
        with contextlib.redirect_stdout(buf):            # pytest's report is not part of the check's output
            rc = pytest.main(["-q", "-p", "no:cacheprovider", "--no-header", "-W", "ignore", "--rootdir", str(scratch)] + [f"tests/{s}" for s in selection])
    finally:
        os.chdir(here)
    if int(rc) not in (0, 1):
        raise MachineryError(f"pytest could not run the repository's tests (exit {rc})")
    return int(rc)
