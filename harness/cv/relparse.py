"""Independent tokenizer/parser for the packaged relation files (cij/data/constraints/<system>).

Grammar (all that the files use): lines of `expr = expr = ...`; expr is a linear expression over symbols cIJ with
+ - * / ( ) and integer literals.  Output: rows of 21 Fractions (columns c11, c12, ..., c16, c22, ..., c66), one row per
equality `first - other = 0`.  No sympy, no code from /repo.
"""
from __future__ import annotations

import re
from fractions import Fraction
from pathlib import Path

SYMS = [f"c{i}{j}" for i in range(1, 7) for j in range(i, 7)]
_TOK = re.compile(r"\s*(c[1-6][1-6]|\d+|[-+*/()])")


class RelParseError(Exception):
    pass


def _tokens(s):
    pos, out = 0, []
    s = s.strip()
    while pos < len(s):
        m = _TOK.match(s, pos)
        if not m:
            raise RelParseError(f"cannot tokenize {s[pos:]!r}")
        out.append(m.group(1))
        pos = m.end()
    return out


class _P:
    def __init__(self, toks):
        self.t, self.i = toks, 0

    def peek(self):
        return self.t[self.i] if self.i < len(self.t) else None

    def eat(self):
        self.i += 1
        return self.t[self.i - 1]

    def expr(self):           # linear form: dict sym -> Fraction, "" -> constant
        v = self.term()
        while self.peek() in ("+", "-"):
            op = self.eat()
            w = self.term()
            for k, c in w.items():
                v[k] = v.get(k, Fraction(0)) + (c if op == "+" else -c)
        return v

    def term(self):
        v = self.factor()
        while self.peek() in ("*", "/"):
            op = self.eat()
            w = self.factor()
            if set(w) - {""}:
                if op == "/" or set(v) - {""}:
                    raise RelParseError("non-linear relation")
                v, w = w, v
            c = w.get("", Fraction(0))
            v = {k: (x * c if op == "*" else x / c) for k, x in v.items()}
        return v

    def factor(self):
        t = self.eat()
        if t == "-":
            return {k: -c for k, c in self.factor().items()}
        if t == "+":
            return self.factor()
        if t == "(":
            v = self.expr()
            if self.eat() != ")":
                raise RelParseError("expected )")
            return v
        if t.isdigit():
            return {"": Fraction(int(t))}
        return {t: Fraction(1)}


def parse_file(path) -> list[list[Fraction]]:
    rows = []
    for line in Path(path).read_text().splitlines():
        if not line.strip():
            continue
        parts = [p for p in line.split("=")]
        forms = []
        for p in parts:
            pr = _P(_tokens(p))
            forms.append(pr.expr())
            if pr.peek() is not None:
                raise RelParseError(f"trailing tokens in {p!r}")
        for other in forms[1:]:
            d = dict(forms[0])
            for k, c in other.items():
                d[k] = d.get(k, Fraction(0)) - c
            if d.get("", Fraction(0)) != 0:
                raise RelParseError("inhomogeneous relation")
            rows.append([d.get(s, Fraction(0)) for s in SYMS])
    return rows


def write_reldata(constraints_dir, scratch, systems) -> Path:
    lines = ["---- MODULE RelData ----", "EXTENDS Integers",
             f"\\* generated from {constraints_dir} by harness/cv/relparse.py"]
    recs = []
    for s in systems:
        rows = parse_file(Path(constraints_dir) / s)
        body = ", ".join("<<" + ", ".join(f"<<{c.numerator}, {c.denominator}>>" for c in r) + ">>" for r in rows)
        recs.append(f'{s} |-> <<{body}>>')
    lines.append("RelRows == [" + ",\n  ".join(recs) + "]")
    lines.append("====")
    p = Path(scratch) / "RelData.tla"
    p.write_text("\n".join(lines) + "\n")
    return p
