"""Duck-typed calculators: the observation point the properties name for the contribution classes.

Only data, no physics: arrays drawn at random within the property's quantifier.
"""
from __future__ import annotations

from types import SimpleNamespace

import numpy


class DuckCalc:
    """What Longitudinal/OffDiagonal/Shear contribution classes and the task list read from a calculator."""

    def __init__(self, case: dict):
        self.case = case
        self.v_array = case["v"]
        self.t_array = case["t"]
        self.freq_array = case["freq"]
        self.mode_gamma = [case["kp"], case["g"], case["g"] ** 2]
        self.nq, self.np, self.na = case["nq"], case["np"], case["na"]
        self.nv = len(self.v_array)
        self.qha_input = SimpleNamespace(weights=[((0.0, 0.0, float(i)), float(w)) for i, w in enumerate(case["w"])])
        vb = SimpleNamespace(pressures=case["ptot"], heat_capacity=case["cv"])
        self.qha_calculator = SimpleNamespace(volume_base=vb)
        self.static_p_array = case["pst"]


def draw_case(rng: numpy.random.Generator, nq=None, nat=None, low_t: bool = True, gamma_zero: bool = None) -> dict:
    nq = int(nq or rng.integers(1, 9))
    nat = int(nat or rng.integers(1, 11))
    np_ = 3 * nat
    ntv = int(rng.integers(2, 6))
    nt = int(rng.integers(2, 6))
    # shape coincidences and singleton grids are part of "all grids": an axis mix-up can hide behind, or only show on, equal extents
    u = rng.random()
    if u < 0.12:
        nt = ntv
    elif u < 0.20 and np_ <= 9:
        nq = np_
    elif u < 0.26:
        nt = ntv = nq
    elif u < 0.32:
        nt = 1
    elif u < 0.38:
        ntv = 1
    v = numpy.sort(rng.uniform(50.0, 2000.0, ntv))[::-1].copy()
    # temperature grid: T >= 0, includes 0 often, and (low_t) values down to 0.5 K
    t = numpy.sort(rng.uniform(20.0, 3000.0, nt))
    if rng.random() < 0.7:
        t[0] = 0.0
    if low_t and nt >= 3 and rng.random() < 0.6:
        t[1] = float(rng.choice([0.5, 1.0, 2.0, 5.0]))
        t = numpy.sort(t)
    # "all temperature grids with T >= 0": the rows need not be ascending, and 0 K need not come first (or only once)
    if nt >= 2 and rng.random() < 0.3:
        t = t[rng.permutation(nt)]
        if nt >= 3 and rng.random() < 0.3:
            t[-1] = 0.0
    if rng.random() < 0.2:
        # integer-typed temperature array (what an integer DT produces); distinct integral values
        ti = numpy.unique(numpy.rint(t).astype(int))
        if len(ti) == nt:
            t = numpy.rint(t).astype(int)
    freq = rng.uniform(30.0, 1500.0, (ntv, nq, np_))
    if gamma_zero is None:
        gamma_zero = rng.random() < 0.7
    if gamma_zero:
        freq[:, 0, :3] = 0.0            # as in real files; otherwise arbitrary (they are masked anyway)
    g = rng.uniform(-3.0, 4.0, (ntv, nq, np_))
    kp = rng.uniform(-5.0, 5.0, (ntv, nq, np_))
    w = rng.uniform(0.1, 20.0, nq)
    if rng.random() < 0.3:
        w = numpy.round(w) + 1.0
    ptot = rng.uniform(-0.01, 0.05, (nt, ntv))
    pst = rng.uniform(-0.01, 0.05, ntv)
    cv = rng.uniform(1e-7, 1e-3, (nt, ntv))
    if rng.random() < 0.3:
        # "all positive heat-capacity fields": also the tiny ones of a stiff one-atom cell at low temperature
        cv = 10.0 ** rng.uniform(-13.0, -3.0, (nt, ntv))
    return dict(nq=nq, na=nat, np=np_, v=v, t=t, freq=freq, g=g, kp=kp, w=w, ptot=ptot, pst=pst, cv=cv)


def twin_cases(rng, cases, every=5):
    """Every `every`-th case becomes a twin of the one before it: the same temperature and volume grids (and shapes) with ANOTHER
    spectrum, evaluated right after it - two materials on one grid in one process."""
    for k in range(4, len(cases), every):
        base = cases[k - 1]
        cases[k] = dict(base, freq=rng.uniform(30.0, 1500.0, base["freq"].shape) * (base["freq"] != 0), g=rng.uniform(-3.0, 4.0, base["g"].shape),
                        kp=rng.uniform(-5.0, 5.0, base["kp"].shape), w=rng.uniform(0.1, 20.0, base["nq"]), twin=True)
    return cases


def draw_fractions(rng, ntv):
    """Positive axial strain fractions in (0.05, 0.9), rows summing to 1."""
    while True:
        e = rng.dirichlet([2.0, 2.0, 2.0], size=ntv)
        if e.min() > 0.05 and e.max() < 0.9:
            return e


def summary(case) -> dict:
    return {"nq": case["nq"], "na": case["na"], "ntv": len(case["v"]), "t": [float(x) for x in case["t"]],
            "w": [round(float(x), 4) for x in case["w"]][:4]}
