"""Common machinery for all checks: context, evidence, violations, known findings, scratch dirs.

No physics and no property-specific logic lives here.
"""
from __future__ import annotations

import atexit
import hashlib
import json
import os
import shutil
import sys
import tempfile
import time
import traceback
from pathlib import Path

VERIF = Path(__file__).resolve().parents[2]
REPO = Path(os.environ.get("CIJ_REPO", "/repo"))
SPEC = VERIF / "spec"
EVIDENCE = VERIF / "evidence"
EVIDENCE_EXT = VERIF / "evidence_ext"
REPLAYS = VERIF / "replays"
if REPO.resolve() != Path("/repo"):
    # a scratch tree (a seeded change or a refactor under study, tools/regress_seeded.sh, tools/try_benign.sh): what the run writes must
    # not end up among the evidence of /repo
    _OUT = Path(tempfile.gettempdir()) / "cijverif.scratch_out" / REPO.name
    EVIDENCE, EVIDENCE_EXT, REPLAYS = _OUT / "evidence", _OUT / "evidence_ext", _OUT / "replays"
KNOWN = VERIF / "known_findings.json"

LEVELS = {"exploration", "fault_enumeration", "model_checking", "proof",
          "translation_validation", "other"}


class MachineryError(Exception):
    """The verification machinery itself failed (exit 2) -- never a verdict on the code."""


def _jsonable(x):
    import numpy
    if isinstance(x, dict):
        return {str(k): _jsonable(v) for k, v in x.items()}
    if isinstance(x, (list, tuple, set, frozenset)):
        return [_jsonable(v) for v in x]
    if isinstance(x, numpy.ndarray):
        return _jsonable(x.tolist())
    if isinstance(x, (numpy.integer,)):
        return int(x)
    if isinstance(x, (numpy.floating,)):
        return float(x)
    if isinstance(x, (numpy.bool_,)):
        return bool(x)
    if isinstance(x, complex):
        return [x.real, x.imag]
    if isinstance(x, Path):
        return str(x)
    if isinstance(x, (str, int, float, bool)) or x is None:
        return x
    return repr(x)


class Ctx:
    """One run of one check."""

    def __init__(self, pid: str, tier: str, level: str):
        assert level in LEVELS
        self.pid = pid
        self.tier = tier
        self.level = level
        self.seed = int(os.environ.get("VERIF_SEED", "0") or 0)
        self.t0 = time.time()
        self.violations = 0
        self.known_hits = []
        self.cov = {
            "evaluations": 0, "distinct_nontrivial": 0, "rule": "", "samples": [],
            "states": 0, "transitions": 0, "traces_validated_against_impl": 0,
            "exhaustive": False, "tlc_runs": [], "controls": {},
        }
        self._distinct = set()
        self.assumptions = []
        self._scratch = Path(tempfile.mkdtemp(prefix=f"cijverif.{pid}."))
        atexit.register(self.cleanup)
        self.known = load_known()
        self._printed_known = set()

    # ----------------------------------------------------------------- scratch
    @property
    def scratch(self) -> Path:
        return self._scratch

    def subdir(self, name: str) -> Path:
        p = self._scratch / name
        p.mkdir(parents=True, exist_ok=True)
        return p

    def cleanup(self):
        shutil.rmtree(self._scratch, ignore_errors=True)

    # ---------------------------------------------------------------- counting
    def count(self, case, nontrivial: bool = True, n: int = 1):
        """Register one evaluated case; `case` is any JSON-able canonical description."""
        self.cov["evaluations"] += n
        if nontrivial:
            h = hashlib.sha1(json.dumps(_jsonable(case), sort_keys=True).encode()).digest()[:10]
            if h not in self._distinct:
                self._distinct.add(h)
                self.cov["distinct_nontrivial"] = len(self._distinct)

    def sample(self, s, limit: int = 6):
        if len(self.cov["samples"]) < limit:
            self.cov["samples"].append(_jsonable(s))

    def add_tlc(self, res):
        self.cov["states"] += res.distinct
        self.cov["transitions"] += res.generated
        self.cov["tlc_runs"].append(res.summary())

    # -------------------------------------------------------------- violations
    def violation(self, what: str, replay: dict, signature: dict | None = None):
        """Report one violating case.  `signature` is matched against open known findings."""
        signature = signature or {}
        for kf in self.known:
            if kf.get("property") != self.pid or kf.get("status") != "open":
                continue
            sig = kf.get("signature", {})
            if sig and all(signature.get(k) == v for k, v in sig.items()):
                key = json.dumps(sig, sort_keys=True)
                if key not in self._printed_known:
                    self._printed_known.add(key)
                    print(f"KNOWN-FINDING: property={self.pid} {kf.get('description', what)}", flush=True)
                self.known_hits.append(key)
                return False
        self.violations += 1
        d = REPLAYS / self.pid
        d.mkdir(parents=True, exist_ok=True)
        body = {"property": self.pid, "what": what, "signature": signature, "tier": self.tier,
                "seed": self.seed, "replay": _jsonable(replay)}
        h = hashlib.sha1(json.dumps(body, sort_keys=True).encode()).hexdigest()[:12]
        path = d / f"{h}.json"
        path.write_text(json.dumps(body, indent=1, sort_keys=True))
        if self.violations <= 20:
            print(f"VIOLATION property={self.pid} replay={path}", flush=True)
            print(f"  -> {what}", flush=True)
        return True

    # ---------------------------------------------------------------- evidence
    def finish(self) -> int:
        wall = time.time() - self.t0
        cov = dict(self.cov)
        if cov["distinct_nontrivial"] < 2 and cov["evaluations"] >= 1 and self.violations == 0:
            # the schema wants >= 2 distinct non-trivial cases; fewer means the run was vacuous
            raise MachineryError(f"{self.pid}: fewer than 2 distinct non-trivial cases explored")
        if not cov["samples"]:
            cov["samples"] = ["(no sample recorded)"]
        cov["known_findings_hit"] = sorted(set(self.known_hits))
        ev = {
            "property_id": self.pid, "tier": self.tier if self.tier in ("quick", "thorough") else "quick",
            "seed": self.seed, "level": self.level, "coverage": _jsonable(cov),
            "assumptions": self.assumptions, "wall_s": round(wall, 3), "violations": self.violations,
        }
        # supplementary models (ids X..) are not listed properties: their evidence is kept apart from /verif/evidence
        evdir = EVIDENCE if not self.pid.startswith("X") else EVIDENCE_EXT
        evdir.mkdir(parents=True, exist_ok=True)
        (evdir / f"{self.pid}.json").write_text(json.dumps(ev, indent=1, sort_keys=True) + "\n")
        status = "VIOLATED" if self.violations else "held"
        print(f"[{self.pid}] {status}: evaluations={cov['evaluations']} distinct={cov['distinct_nontrivial']} "
              f"states={cov['states']} traces={cov['traces_validated_against_impl']} wall={wall:.1f}s", flush=True)
        return 1 if self.violations else 0


def load_known():
    if KNOWN.exists():
        return json.loads(KNOWN.read_text()).get("findings", [])
    return []


def run_check(fn, pid: str, tier: str, level: str, replay: str | None = None) -> int:
    ctx = Ctx(pid, tier, level)
    try:
        fn(ctx, replay) if replay is not None else fn(ctx)
        return ctx.finish()
    except MachineryError as e:
        print(f"MACHINERY-ERROR [{pid}]: {e}", file=sys.stderr, flush=True)
        return 2
    except Exception as e:
        traceback.print_exc()
        # Who raised?  An exception that was raised INSIDE the package under test (innermost frame under REPO) while the check fed it an
        # input of the property's quantifier, and that no clause of the check anticipated, means the package did not deliver a value:
        # that is reported as a violation, not as a failure of the machinery.  AttributeError / TypeError / ImportError are kept as
        # machinery errors: they are what a drift between the harness and the package's (private) interfaces looks like.
        tb = traceback.extract_tb(e.__traceback__)
        # innermost frame that belongs to the package or to the harness (frames of third-party libraries in between are skipped: a
        # numpy error raised for what the package handed to numpy is the package's)
        own = [f for f in tb if str(f.filename).startswith(str(REPO) + os.sep) or str(f.filename).startswith(str(VERIF) + os.sep)]
        tb = tb[:tb.index(own[-1]) + 1] if own else tb
        inner = tb[-1].filename if tb else ""
        in_pkg = str(inner).startswith(str(REPO) + os.sep) and not str(inner).startswith(str(VERIF) + os.sep)
        if in_pkg and not isinstance(e, (AttributeError, TypeError, ImportError, NameError)):
            try:
                where = f"{Path(inner).relative_to(REPO)}:{tb[-1].lineno}"
                called = next((f"{Path(f.filename).name}:{f.lineno}" for f in reversed(tb) if str(f.filename).startswith(str(VERIF))), "?")
                try:
                    text = repr(e)
                except Exception:
                    text = type(e).__name__
                ctx.violation(f"the package raised {text[:200]} at {where} while the check exercised it (from {called}); no value was delivered",
                              {"exception": type(e).__name__, "where": where}, {"clause": "package_raised", "exc": type(e).__name__})
                ctx.cov["evaluations"] = max(ctx.cov["evaluations"], 1)
                return ctx.finish()
            except Exception:
                traceback.print_exc()
        if ctx.violations > 0:
            # violations were already found and reported; what the harness tripped over afterwards is most likely a consequence of the
            # same broken behaviour.  The verdict stands (exit 1); the crash is recorded in the evidence.
            try:
                ctx.cov["harness_exception_after_violations"] = f"{type(e).__name__}: {str(e)[:200]}"
                return ctx.finish()
            except Exception:
                traceback.print_exc()
        print(f"MACHINERY-ERROR [{pid}]: unexpected exception in the harness", file=sys.stderr, flush=True)
        return 2
    finally:
        ctx.cleanup()
