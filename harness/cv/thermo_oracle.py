"""Expected values of the non-shear contribution classes, composed ONLY from TLC-exported normal forms.

per-mode polynomial (C01.tla)  ->  X[q,m]  ->  aggregation polynomial (AggExport.tla)  ->  expected array
"""
from __future__ import annotations

import numpy

from . import consts
from .core import MachineryError
from .polyeval import evaluate
from .tlc import run_tlc, must_ok, write_data_module, raw

_nax = numpy.newaxis


class ThermoOracle:
    def __init__(self, ctx, shapes):
        """shapes: iterable of (nq, nat).  Runs TLC twice: C01 (theorems + machine + polys) and AggExport."""
        res = must_ok(run_tlc("C01", "C01.cfg", ctx.subdir("tlc_c01"), workers=8, timeout=600))
        ctx.add_tlc(res)
        self.model = res
        self.polys = res.load("c01_polys.json")
        sc = ctx.subdir("tlc_agg")
        shapes = sorted(set((int(a), int(b)) for a, b in shapes))
        write_data_module(sc, "AggShapes", {"Shapes": raw("{" + ", ".join(f"<<{a},{b}>>" for a, b in shapes) + "}")})
        res2 = must_ok(run_tlc("AggExport", None, sc, workers=4, timeout=600))
        self.agg = {(r["nq"], r["nat"]): r["poly"] for r in res2.load("agg.json")["shapes"]}
        if set(self.agg) != set(shapes):
            raise MachineryError("aggregation export incomplete")

    # ------------------------------------------------------------------ atoms
    @staticmethod
    def mode_atoms(case, e_i, e_j, zero_point: bool, dq: float = 0.0):
        t = case["t"].astype(float).copy()
        tt = numpy.where(t == 0, 1.0, t) if not zero_point else numpy.ones_like(t)
        T = tt[:, _nax, _nax, _nax]
        w = case["freq"][_nax, :, :, :]
        with numpy.errstate(all="ignore"):
            Q = consts.HC_OVER_K_CM_K * (1.0 + dq) * w / T
            n = 1.0 / numpy.expm1(Q)
        return dict(k=consts.K_RY_PER_K, T=T, V=case["v"][_nax, :, _nax, _nax], Q=Q, n=n,
                    g=case["g"][_nax], kp=case["kp"][_nax],
                    ei=e_i[_nax, :, _nax, _nax], ej=e_j[_nax, :, _nax, _nax])

    def aggregate(self, case, X):
        """X: (nt, ntv, nq, np) -> (nt, ntv) through the exported aggregation polynomial."""
        nq, nat = case["nq"], case["na"]
        atoms = {"Wi": 1.0 / float(numpy.sum(case["w"]))}
        for q in range(nq):
            atoms[f"w_{q+1}"] = float(case["w"][q])
            for m in range(3 * nat):
                atoms[f"X_{q+1}_{m+1}"] = X[:, :, q, m]
        return numpy.zeros(X.shape[:2]) + evaluate(self.agg[(nq, nat)], atoms)

    # hc/k_B differs between CODATA vintages by up to ~5e-10 (scipy ships a pre-2019 "molar Planck constant times c");
    # through e^-Q this is amplified by Q (up to ~4000 at 0.5 K), so the expectation is an envelope over hc/k(1 +- DQ)
    DQ = 1.0e-9

    def _part(self, name, case, e_i, e_j, zero_point):
        at = self.mode_atoms(case, e_i, e_j, zero_point)
        with numpy.errstate(all="ignore"):
            X = numpy.broadcast_to(evaluate(self.polys[name], at), at["Q"].shape)
            Xa = numpy.broadcast_to(evaluate(self.polys[name], at, absolute=True), at["Q"].shape)
        val, scale = self.aggregate(case, X), self.aggregate(case, Xa)
        if not zero_point:
            spread = 0.0
            for dq in (self.DQ, -self.DQ):
                atd = self.mode_atoms(case, e_i, e_j, zero_point, dq)
                with numpy.errstate(all="ignore"):
                    # per-mode |X(dq) - X(0)|, aggregated with positive weights: a bound on the shift of the sum
                    Xd = numpy.abs(numpy.broadcast_to(evaluate(self.polys[name], atd), at["Q"].shape) - X)
                spread = numpy.maximum(spread, self.aggregate(case, Xd))
            scale = scale + (2.0 / consts.CONST_RTOL) * spread   # i.e. an absolute allowance of 2 * spread
        if not zero_point:                       # T_ThVanish: every term carries n -> vanishes at T = 0
            z = case["t"] == 0
            val = numpy.array(val, dtype=float); scale = numpy.array(scale, dtype=float)
            val[z, :] = 0.0
            scale[z, :] = 0.0
        return val, scale

    def expected(self, kind, case, e_i, e_j):
        """-> dict name -> (value, scale) for zp, th, iso, gap, adi of the class `kind` in {long, offd}."""
        pre = "long" if kind == "long" else "off"
        zp, zps = self._part(pre + "_zp", case, e_i, e_j, True)
        th, ths = self._part(pre + "_th", case, e_i, e_j, False)
        zp = numpy.broadcast_to(zp, th.shape)
        zps = numpy.broadcast_to(zps, th.shape)
        iso, isos = zp + th, zps + ths
        if kind == "offd":
            pin = case["ptot"] - case["pst"][_nax, :]
            iso = iso + pin
            isos = isos + numpy.abs(case["ptot"]) + numpy.abs(case["pst"][_nax, :])
        S, Ss = self._part("dpdt", case, e_i, e_j, False)
        gat = dict(T=case["t"][:, _nax].astype(float), V=case["v"][_nax, :], S=S, ei=e_i[_nax, :], ej=e_j[_nax, :], Cv=case["cv"])
        with numpy.errstate(all="ignore"):
            gap = evaluate(self.polys["gap_of_S"], gat)
        gat["S"] = Ss
        with numpy.errstate(all="ignore"):
            gaps = evaluate(self.polys["gap_of_S"], gat)
        z = case["t"] == 0                       # T_GapVanish: every term of the gap carries a Bose factor
        gap = numpy.array(gap, dtype=float); gaps = numpy.array(gaps, dtype=float)
        gap[z, :] = 0.0
        gaps[z, :] = 0.0
        return {"zp": (zp, zps), "th": (th, ths), "iso": (iso, isos), "gap": (gap, gaps), "adi": (iso + gap, isos + gaps)}
