"""End-to-end cases shared by C05/C06/C07/C12/C13/C15: synthetic data sets per crystal system and their Calculator runs."""
from __future__ import annotations

import shutil
import tempfile
from pathlib import Path

import numpy

from . import fillspec
from .synth import Dataset, KEYS21, ORTHO9, run

ISO_BASE = None


def isotropic_plus(exports_sys, rng, scale):
    """isotropic tensor (lambda, mu) plus a random invariant perturbation of the system -> dict over 21 keys"""
    lam, mu = rng.uniform(80, 140), rng.uniform(60, 110)
    base = {}
    for (i, j) in KEYS21:
        base[(i, j)] = (lam + 2 * mu) if i == j <= 3 else lam if (i <= 3 and j <= 3) else mu if i == j else 0.0
    pert = fillspec.invariant_vector(exports_sys, rng, -scale, scale)
    return {k: base[k] + pert[k] for k in KEYS21}


def sufficient_subset(rng, e):
    """A random SUFFICIENT proper subset of the non-vanishing components of a system (the relations then determine the rest):
    components are dropped one at a time as long as the null-space basis restricted to the kept ones keeps full rank."""
    null = numpy.array([[x[0] / x[1] for x in v] for v in e["null"]], dtype=float)          # (d, 21)
    d = null.shape[0]
    van = set(e["vanishing"])
    keep = [n for n in range(1, 22) if n not in van]
    for n in [int(x) for x in rng.permutation(keep)]:
        rest = [m for m in keep if m != n]
        if rest and numpy.linalg.matrix_rank(null[:, [m - 1 for m in rest]], tol=1e-9) == d:
            if rng.random() < 0.8:
                keep = rest
    return sorted(keep)


def system_dataset(rng, exports, system, det_sets=None, minimal=False, **kw):
    """Data set whose static table is an invariant tensor field of `system`; supplies a sufficient subset of columns."""
    e = exports[system]
    if minimal and det_sets is None:
        det_sets = [sufficient_subset(rng, e)]
    c0 = isotropic_plus(e, rng, 12.0)
    c1 = isotropic_plus(e, rng, 60.0)
    c2 = fillspec.invariant_vector(e, rng, -300.0, 300.0)
    c3 = fillspec.invariant_vector(e, rng, -300.0, 300.0)
    polys = {k: (c0[k], c1[k] * 6.0, c2[k], c3[k]) for k in KEYS21}
    van = set(e["vanishing"])
    nonvan = [KEYS21[n - 1] for n in range(1, 22) if n not in van]
    if det_sets:
        S = det_sets[int(rng.integers(0, len(det_sets)))]
        keys = [KEYS21[n - 1] for n in sorted(S)]
    else:
        keys = nonvan
    ds = Dataset(rng, keys=keys, polys=polys, system=system, **kw)
    ds.full_keys = nonvan
    return ds


def free_dataset(rng, extra_shear=0, **kw):
    keys = list(ORTHO9)
    others = [k for k in KEYS21 if k not in keys]
    for n in rng.permutation(len(others))[:extra_shear]:
        keys.append(others[int(n)])
    ds = Dataset(rng, keys=keys, **kw)
    ds.full_keys = list(keys)
    return ds


class Workdir:
    def __init__(self, prefix="cijverif.e2e."):
        self.path = Path(tempfile.mkdtemp(prefix=prefix))

    def sub(self, name):
        p = self.path / name
        p.mkdir(parents=True, exist_ok=True)
        return p

    def close(self):
        shutil.rmtree(self.path, ignore_errors=True)


def full_modulus_of(calc):
    """The calculator's static+phonon assembly object (axial strains, static part).  It is a private attribute of the
    Calculator; found by what it can do rather than by its name, so that a renamed attribute is not a harness failure."""
    fm = getattr(calc, "_full_modulus", None)
    if fm is not None and hasattr(fm, "get_axial_strains"):
        return fm
    for v in list(vars(calc).values()):
        if hasattr(v, "get_axial_strains") and hasattr(v, "get_static_modulus"):
            return v
    from .core import MachineryError
    raise MachineryError("the Calculator exposes no object with get_axial_strains/get_static_modulus")


def phonon_parts(calc, fm=None):
    """(isothermal, adiabatic) phonon contributions per key = reported modulus - reported static part (public quantities)."""
    fm = fm or full_modulus_of(calc)
    iso, adi = {}, {}
    for k in calc.modulus_keys:
        st = numpy.asarray(fm.get_static_modulus(k))[None, :]
        iso[k] = numpy.asarray(calc.modulus_isothermal[k]) - st
        adi[k] = numpy.asarray(calc.modulus_adiabatic[k]) - st
    return iso, adi


def oracle_case(ds, calc):
    """The `case` record ThermoOracle/PhononExpectation read, built from the FILE contents (exact model functions) and from the
    quantities the property names as inputs from the QHA layer (P_total, C_V) and the static pressure."""
    v = numpy.asarray(calc.v_array, dtype=float)
    ntv = len(v)
    if numpy.any(ds.freq_curv):
        # not a power-law data set: the spectrum on the grid is what the CONFIGURED interpolation (method and order as written in the
        # settings file) makes of the file's frequencies.  The interpolation routine itself is C11's subject; calling it here,
        # independently of the Calculator, checks that the calculation uses the configured method and order and nothing else.
        from cij.core.mode_gamma import interpolate_modes
        freq, g, kp = interpolate_modes(calc.qha_input, v, method=ds.interpolator, order=ds.order)
        freq, g, kp = numpy.array(freq), numpy.array(g), numpy.array(kp)
    else:
        freq, g, kp = ds.freq(v), numpy.broadcast_to(ds.gam[None], (ntv, ds.nq, ds.np)).copy(), numpy.zeros((ntv, ds.nq, ds.np))
    return dict(nq=ds.nq, na=ds.nat, np=ds.np, v=v, t=numpy.asarray(calc.t_array, dtype=float),
                freq=freq, g=g, kp=kp, w=ds.weights.copy(),
                ptot=qha_field(calc, "p_tv_au", "pressures"), pst=numpy.asarray(calc.static_p_array),
                cv=qha_field(calc, "cv_tv_au", "heat_capacity"))


def qha_field(calc, raw_name, adapter_name):
    """P_total(T,V) / C_V(T,V) as the QHA layer itself holds them (qha's calculator object); cij's adapter property of the same
    quantity is the fallback when the adapter keeps its qha object elsewhere."""
    adapter = calc.qha_calculator
    raw = getattr(adapter, "calculator", None)
    if raw is not None and hasattr(raw, raw_name):
        return numpy.asarray(getattr(raw, raw_name))
    return numpy.asarray(getattr(adapter.volume_base, adapter_name))
