"""Generic evaluation of polynomials exported by TLC (Poly!PExport) at floating-point atoms."""
from __future__ import annotations

import numpy


def terms(poly):
    """poly: list of {c:[n,d], m:[[atom,exp],...]} -> list of (float coef, {atom:exp})"""
    out = []
    for t in poly:
        n, d = t["c"]
        out.append((n / d, {a: e for a, e in t["m"]}))
    return out


def evaluate(poly, atoms: dict, absolute: bool = False):
    """Evaluate at broadcastable numpy atoms.  With absolute=True returns sum |term| (cancellation-free scale)."""
    tot = 0.0
    for c, mono in terms(poly):
        v = c
        for a, e in mono.items():
            x = atoms[a]
            v = v * (x ** e if e != 1 else x)
        tot = tot + (numpy.abs(v) if absolute else v)
    return tot


def atoms_of(poly):
    s = set()
    for _, mono in terms(poly):
        s |= set(mono)
    return s


def close(impl, spec, scale, rtol, atol=0.0):
    """|impl - spec| <= rtol * scale + atol, elementwise; non-finite impl never passes."""
    impl = numpy.asarray(impl, dtype=float)
    ok = numpy.isfinite(impl) & (numpy.abs(impl - spec) <= rtol * scale + atol)
    return ok
