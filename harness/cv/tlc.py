"""Run TLC on a module of /verif/spec and collect what it decided."""
from __future__ import annotations

import json
import os
import re
import shutil
import subprocess
import time
from dataclasses import dataclass, field
from pathlib import Path

from .core import SPEC, MachineryError

JAR = "/opt/veriftools/tla/tla2tools.jar:/opt/veriftools/tla/CommunityModules-deps.jar"


@dataclass
class TLCResult:
    module: str
    cfg: str
    rc: int
    out: str
    generated: int = 0
    distinct: int = 0
    depth: int = 0
    wall: float = 0.0
    error: str | None = None          # first TLC error block (invariant / assumption / property violated ...)
    violated: str | None = None       # name of violated invariant/property/assumption location
    coverage: dict = field(default_factory=dict)
    outdir: Path | None = None

    @property
    def ok(self) -> bool:
        return self.rc == 0 and self.error is None

    def summary(self) -> dict:
        return {"module": self.module, "cfg": self.cfg, "generated": self.generated, "distinct": self.distinct,
                "depth": self.depth, "wall_s": round(self.wall, 2), "ok": self.ok}

    def load(self, name: str):
        return json.loads((self.outdir / name).read_text())


_RE_STATES = re.compile(r"(\d+) states generated, (\d+) distinct states found")
_RE_DEPTH = re.compile(r"depth of the complete state graph search is (\d+)")
_RE_COV = re.compile(r"^<(\w+) line (\d+), col (\d+) to line (\d+), col (\d+) of module (\w+)>: (\d+):(\d+)", re.M)


def run_tlc(module: str, cfg: str | None, scratch: Path, env: dict | None = None, workers: int | str = "auto",
            timeout: int = 900, extra: list[str] | None = None, libdirs: list[Path] | None = None,
            coverage: bool = False, simulate: str | None = None, depth: int | None = None,
            deadlock: bool = False, seed: int | None = None, jvm: list[str] | None = None) -> TLCResult:
    """Run TLC on SPEC/<module>.tla with SPEC/<cfg>.  Exports land in `scratch/out` (IOEnv.OUTD)."""
    scratch = Path(scratch)
    outdir = scratch / "out"
    outdir.mkdir(parents=True, exist_ok=True)
    meta = scratch / f"meta.{module}.{int(time.time()*1000)%100000}"
    mod_path = Path(module) if os.path.isabs(module) else SPEC / f"{module}.tla"
    if cfg is None:
        cfg_path = scratch / f"{mod_path.stem}.empty.cfg"
        cfg_path.write_text("")
    else:
        cfg_path = Path(cfg) if os.path.isabs(cfg) else SPEC / cfg
    libs = [str(p) for p in (libdirs or [])] + [str(scratch), str(SPEC)]
    # heap: a quarter of the machine at most (the JVM's own default), never more than 8 GiB - the models here are small, and several
    # checks may run side by side
    try:
        phys = os.sysconf("SC_PAGE_SIZE") * os.sysconf("SC_PHYS_PAGES")
    except (ValueError, OSError):
        phys = 16 * 2 ** 30
    heap_mb = max(1024, min(8192, int(phys / 4 / 2 ** 20)))
    cmd = ["java", "-XX:+UseParallelGC", "-Xss16m", f"-Xmx{heap_mb}m", f"-DTLA-Library={os.pathsep.join(libs)}"]
    cmd += (jvm or [])
    cmd += ["-cp", JAR, "tlc2.TLC", "-metadir", str(meta), "-noGenerateSpecTE",
            "-workers", str(workers), "-config", str(cfg_path)]
    if not deadlock:
        cmd += ["-deadlock"]
    if coverage:
        cmd += ["-coverage", "1"]
    if simulate:
        cmd += ["-simulate", simulate]
    if depth is not None:
        cmd += ["-depth", str(depth)]
    if seed is not None:
        cmd += ["-seed", str(seed)]
    cmd += (extra or [])
    cmd += [str(mod_path)]
    e = dict(os.environ)
    e["OUTD"] = str(outdir)
    e.update({k: str(v) for k, v in (env or {}).items()})
    # a timeout is there to end a run that hangs, not to judge a loaded machine: never less than 15 minutes
    timeout = max(int(timeout), 900)
    t0 = time.time()
    try:
        p = subprocess.run(cmd, cwd=str(scratch), env=e, capture_output=True, text=True, timeout=timeout)
        out, rc = p.stdout + p.stderr, p.returncode
    except subprocess.TimeoutExpired as ex:
        subprocess.run(["pkill", "-f", str(meta)], check=False)
        raise MachineryError(f"TLC timed out after {timeout}s on {module}") from ex
    finally:
        shutil.rmtree(meta, ignore_errors=True)
    res = TLCResult(module=mod_path.stem, cfg=str(cfg or ""), rc=rc, out=out, wall=time.time() - t0, outdir=outdir)
    m = None
    for m in _RE_STATES.finditer(out):
        pass
    if m:
        res.generated, res.distinct = int(m.group(1)), int(m.group(2))
    m = _RE_DEPTH.search(out)
    if m:
        res.depth = int(m.group(1))
    for m in _RE_COV.finditer(out):
        res.coverage[m.group(1)] = res.coverage.get(m.group(1), 0) + int(m.group(7))
    if "Error:" in out or rc != 0:
        i = out.find("Error:")
        res.error = out[i:i + 3000] if i >= 0 else out[-3000:]
        mm = re.search(r"Invariant (\w+) is violated", out) or re.search(r"property (\w+) (?:is|was) violated", out) \
            or re.search(r"Assumption line (\d+), col \d+ to line \d+, col \d+ of module (\w+) is false", out)
        if mm:
            res.violated = " ".join(g for g in mm.groups() if g)
    return res


def must_ok(res: TLCResult, what: str = ""):
    """TLC failing on the *model itself* (as opposed to a conformance data module) is machinery failure."""
    if not res.ok:
        raise MachineryError(f"TLC failed on {res.module} {what}:\n{res.error or res.out[-2000:]}")
    return res


# ---------------------------------------------------------------------------- TLA+ value printing
def tla(v) -> str:
    """Render a Python value as a TLA+ expression (ints, bools, strings, lists->tuples, dicts->records, sets)."""
    if isinstance(v, bool):
        return "TRUE" if v else "FALSE"
    if isinstance(v, int):
        return str(v) if v >= 0 else f"({v})"
    if isinstance(v, str):
        return '"' + v.replace("\\", "\\\\").replace('"', '\\"') + '"'
    if isinstance(v, (list, tuple)):
        return "<<" + ", ".join(tla(x) for x in v) + ">>"
    if isinstance(v, (set, frozenset)):
        return "{" + ", ".join(tla(x) for x in sorted(v, key=repr)) + "}"
    if isinstance(v, dict):
        if not v:
            return "<<>>"
        return "[" + ", ".join(f"{k} |-> {tla(x)}" for k, x in v.items()) + "]"
    raise TypeError(f"cannot render {type(v)} as TLA+")


def write_data_module(scratch: Path, name: str, defs: dict, extends: str = "Integers, Sequences") -> Path:
    lines = [f"---- MODULE {name} ----", f"EXTENDS {extends}"]
    for k, v in defs.items():
        lines.append(f"{k} == {v if isinstance(v, _Raw) else tla(v)}")
    lines.append("====")
    p = Path(scratch) / f"{name}.tla"
    p.write_text("\n".join(lines) + "\n")
    return p


class _Raw(str):
    pass


def raw(s: str) -> _Raw:
    return _Raw(s)
