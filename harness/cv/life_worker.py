"""Executed as a fresh interpreter process by checks/c14.py: runs one history (list of actions) and logs observations.

usage: life_worker.py <job.json>    job = {datasets: {cfg: settings_path}, systems: {cfg: system or null}, actions: [...],
                                           out: events.ndjson, mode: "ref" | "run"}
"""
import hashlib
import json
import os
import subprocess
import sys
import tempfile
import warnings
from pathlib import Path

warnings.filterwarnings("ignore")
import logging
logging.disable(logging.CRITICAL)
import numpy


def h(b: bytes) -> str:
    return hashlib.sha256(b).hexdigest()[:20]


def arr_digest(arrs) -> str:
    m = hashlib.sha256()
    for a in arrs:
        a = numpy.ascontiguousarray(numpy.asarray(a, dtype=float))
        m.update(str(a.shape).encode())
        m.update(a.tobytes())
    return m.hexdigest()[:20]


def shared_digest() -> str:
    """Semantic digest of the module-level shared state: the writer rules and what the shared unit registry converts to
    (the registry's internal caches grow lazily with use; that is not a change of state)."""
    from cij.util import units
    import cij.io.output.results_writer as rw
    probes = [units.Quantity(1.0, "rydberg / bohr ** 3").to("GPa").magnitude, units.Quantity(1.0, "bohr ** 3").to("angstrom ** 3").magnitude,
              units.Quantity(1.0, "rydberg").to("eV").magnitude]
    return h((json.dumps(rw.DEFAULT_WRITER_RULES, sort_keys=True) + repr(probes)).encode())


def observe(calc, q):
    keys = sorted(calc.modulus_keys, key=lambda k: k.voigt)
    if q == "modulus_adiabatic":
        return arr_digest([calc.modulus_adiabatic[k] for k in keys])
    if q == "modulus_isothermal":
        return arr_digest([calc.modulus_isothermal[k] for k in keys])
    if q == "tp_bulk_vrh":
        return arr_digest([calc.pressure_base.bulk_modulus_voigt_reuss_hill])
    if q == "tp_vp":
        return arr_digest([calc.pressure_base.primary_velocities])
    if q == "tp_modulus_adiabatic":
        return arr_digest([calc.pressure_base.modulus_adiabatic[k] for k in keys])
    if q == "tp_modulus_isothermal":
        return arr_digest([calc.pressure_base.modulus_isothermal[k] for k in keys])
    if q == "tp_volumes":
        return arr_digest([calc.pressure_base.volumes])
    if q in ("tp_attr_adiabatic", "tp_attr_isothermal"):
        # attribute-style names of the pressure base (c11s, c11t, ...): the longitudinal and off-diagonal components, whose two
        # tensors differ
        ns = [k for k in keys if k.voigt[0] <= 3 and k.voigt[1] <= 3][:4]
        suf = "s" if q == "tp_attr_adiabatic" else "t"
        return arr_digest([numpy.asarray(getattr(calc.pressure_base, "c%d%d%s" % (*k.voigt, suf))) for k in ns])
    if q == "compliances":
        out = []                                   # through the public attributes s11 .. s66 of the volume base
        for i in range(1, 7):
            for j in range(i, 7):
                try:
                    out.append(numpy.asarray(getattr(calc.volume_base, "s%d%d" % (i, j))))
                except AttributeError:
                    out.append(numpy.zeros(1))
        return arr_digest(out)
    if q == "static_table":
        m = hashlib.sha256()
        for v in calc.elast_data.volumes:
            m.update(repr(float(v.volume)).encode())
            for k in sorted(v.static_elastic_modulus, key=lambda k: k.voigt):
                # (to nine significant digits: re-solving the least-squares system reproduces the table to rounding, not bitwise)
                m.update(repr((k.voigt, "%.8e" % float(v.static_elastic_modulus[k]))).encode())
        return m.hexdigest()[:20]
    raise KeyError(q)


def files_digest(d: Path) -> str:
    m = hashlib.sha256()
    for p in sorted(d.iterdir()):
        if p.is_file():
            m.update(p.name.encode())
            m.update(p.read_bytes())
    return m.hexdigest()[:20]


SHADOW = {}          # unrelated entries every working directory of this process holds (job["cwd_files"])


def in_tmp(fn):
    old = os.getcwd()
    with tempfile.TemporaryDirectory(prefix="cijverif.life.") as t:
        for name, content in SHADOW.items():
            (Path(t) / name).parent.mkdir(parents=True, exist_ok=True)
            (Path(t) / name).write_text(content)
        os.chdir(t)
        try:
            fn()
            for name in SHADOW:                     # the unrelated entries are not output (and must still be what they were)
                f = Path(t) / name
                if not f.exists() or f.read_text() != SHADOW[name]:
                    return "UNRELATED-ENTRY-TOUCHED:" + name
                f.unlink()
            return files_digest(Path(t))
        finally:
            os.chdir(old)


def main():
    job = json.loads(Path(sys.argv[1]).read_text())
    SHADOW.update(job.get("cwd_files", {}))
    out = open(job["out"], "w")

    home = os.getcwd()

    def emit(**e):
        e["wd"] = "start" if os.getcwd() == home else "moved:" + os.getcwd()
        out.write(json.dumps(e, sort_keys=True) + "\n")
        out.flush()

    import cij.core.calculator as C
    from cij.io.output import ResultsWriter
    from cij.io.traditional.elast_dat import apply_symetry_on_elast_data
    live = {}
    emitted_cli = []
    if job["mode"] == "run":
        emit(ev="Start", shared=shared_digest(), seed=os.environ.get("PYTHONHASHSEED", ""), cwd=job.get("cwd_kind", ""))

    def obs_event(i, q, digest):
        if job["mode"] == "ref":
            emit(ev="Ref", cfg=live[i][0], q=q, digest=digest, shared=shared_digest())
        else:
            emit(ev="Observe", id=str(i), q=q, digest=digest, shared=shared_digest())
            for j in live:                                   # frame condition: every other calculator is untouched
                if j != i:
                    emit(ev="Observe", id=str(j), q="modulus_adiabatic", digest=observe(live[j][1], "modulus_adiabatic"), shared=shared_digest())

    for act in job["actions"]:
        name = act[0]
        with numpy.errstate(all="ignore"):
            if name == "Construct":
                i, c = act[1], act[2]
                live[i] = (c, C.Calculator(job["datasets"][c]))
                if job["mode"] == "run":
                    emit(ev="Construct", id=str(i), cfg=c, shared=shared_digest())
            elif name == "Rewrite":
                # the files at path c are replaced by those of data set d (originals are kept in <dir>.orig by the harness)
                c, d = act[1], act[2]
                dst = Path(job["datasets"][c]).parent
                src = Path(job["originals"][d])
                for f in src.iterdir():
                    if f.is_file():
                        (dst / f.name).write_bytes(f.read_bytes())
                if job["mode"] == "run":
                    emit(ev="Rewrite", path=c, data=d, shared=shared_digest())
            elif name == "Read":
                i, q = act[1], act[2]
                obs_event(i, q, observe(live[i][1], q))
            elif name == "Write":
                i, base, kw = act[1], act[2], act[3]
                b = live[i][1].pressure_base if base == "tp" else live[i][1].volume_base
                obs_event(i, f"write:{base}:{kw}", in_tmp(lambda: ResultsWriter(b).write(kw)))
            elif name == "WriteOutput":
                i = act[1]
                obs_event(i, "write_output", in_tmp(lambda: live[i][1].write_output()))
            elif name == "Refill":
                i = act[1]
                sysname = job["systems"].get(live[i][0])
                if sysname:
                    apply_symetry_on_elast_data(live[i][1].elast_data, {"system": sysname})
                obs_event(i, "static_table", observe(live[i][1], "static_table"))
            elif name == "CliFill":
                # `cij fill -s SYSTEM TABLE` in a child process (same hash seed): what it prints, byte for byte
                c = act[1]
                table = str(Path(job["datasets"][c]).parent / "elast.dat")
                r = subprocess.run([sys.executable, "-W", "ignore", "-m", "cij.cli.cij", "fill", "-s", job["systems"][c], table], capture_output=True,
                                   env=dict(os.environ))
                digest = h(r.stdout) if r.returncode == 0 else "FAILED:" + r.stderr.decode(errors="replace")[-200:]
                if job["mode"] == "ref":
                    emit(ev="Ref", cfg=c, q="cli_fill", digest=digest, shared=shared_digest())
                else:
                    cid = f"fill{c}{len(emitted_cli)}"
                    emitted_cli.append(cid)
                    emit(ev="Construct", id=cid, cfg=c, shared=shared_digest())
                    emit(ev="Observe", id=cid, q="cli_fill", digest=digest, shared=shared_digest())
            elif name == "CliRun":
                c = act[1]
                with tempfile.TemporaryDirectory(prefix="cijverif.cli.") as t:
                    for extra in job.get("cwd_entries", []):
                        (Path(t) / extra).mkdir()
                    for name, content in job.get("cwd_files", {}).items():
                        (Path(t) / name).parent.mkdir(parents=True, exist_ok=True)
                        (Path(t) / name).write_text(content)
                    r = subprocess.run([sys.executable, "-m", "cij.cli.cij", "run", job["datasets"][c]], cwd=t, capture_output=True, text=True,
                                       env=dict(os.environ))
                    for extra in job.get("cwd_entries", []):
                        (Path(t) / extra).rmdir()
                    for name in job.get("cwd_files", {}):
                        if (Path(t) / name).exists():
                            (Path(t) / name).unlink()
                    digest = files_digest(Path(t)) if r.returncode == 0 else "FAILED:" + r.stderr[-200:]
                live["cli"] = (c, None)
                if job["mode"] == "ref":
                    emit(ev="Ref", cfg=c, q="cli_files", digest=digest, shared=shared_digest())
                else:
                    cid = f"cli{c}{len([1 for x in emitted_cli])}"
                    emitted_cli.append(cid)
                    emit(ev="Construct", id=cid, cfg=c, shared=shared_digest())
                    emit(ev="Observe", id=cid, q="cli_files", digest=digest, shared=shared_digest())
                del live["cli"]
    out.close()


if __name__ == "__main__":
    main()
