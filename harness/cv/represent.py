"""Text-level re-presentation of REAL input files (phonon file, static table): the same physical data in another order.

Independent of cij's readers and writers: the files are cut into lines/blocks and the blocks are re-ordered verbatim, so every
number keeps its printed digits.  `pres` has the same keys as cv.synth.Dataset.write(pres=...):
    q_perm, mode_perms {q: perm}, w_scale, vol_perm            (phonon file)
    col_perm, upper, row_perm                                 (static table)
"""
from __future__ import annotations

from pathlib import Path


def parse_phonon(text: str):
    lines = text.splitlines()
    # header: everything up to and including the counts line (first line consisting of five integers)
    hi = None
    for i, l in enumerate(lines):
        tok = l.split()
        if len(tok) == 5 and all(t.lstrip("-").isdigit() for t in tok):
            hi = i
            break
    if hi is None:
        raise ValueError("no counts line")
    nv, nq, np_, nm, na = (int(t) for t in lines[hi].split())
    body = [l for l in lines[hi + 1:] if l.strip()]
    pos = 0
    vols = []
    for _ in range(nv):
        head = body[pos]; pos += 1
        if "V=" not in head.replace(" ", "").upper() and "V" not in head:
            raise ValueError(f"volume header expected, got {head!r}")
        qs = []
        for _ in range(nq):
            coord = body[pos]; pos += 1
            modes = body[pos:pos + np_]; pos += np_
            qs.append((coord, modes))
        vols.append((head, qs))
    if body[pos].strip().lower() != "weight":
        raise ValueError(f"'weight' expected, got {body[pos]!r}")
    pos += 1
    weights = body[pos:pos + nq]
    return {"header": lines[:hi + 1], "counts": (nv, nq, np_, nm, na), "vols": vols, "weights": weights, "tail": body[pos + nq:]}


def render_phonon(doc, pres) -> str:
    nv, nq, np_, nm, na = doc["counts"]
    vperm = pres.get("vol_perm") or list(range(nv))
    qperm = pres.get("q_perm") or list(range(nq))
    mperms = pres.get("mode_perms") or {}
    ws = pres.get("w_scale", 1.0)
    out = list(doc["header"]) + [""]
    for i in vperm:
        head, qs = doc["vols"][i]
        out.append(head)
        for q in qperm:
            coord, modes = qs[q]
            out.append(coord)
            out += [modes[m] for m in (mperms.get(q) or range(np_))]
        out.append("")
    out.append(" weight")
    for q in qperm:
        tok = doc["weights"][q].split()
        w = float(tok[3]) * ws
        out.append("  ".join(tok[:3]) + f"  {w!r}")
    out += doc["tail"]
    return "\n".join(out) + "\n"


def parse_static(text: str):
    lines = [l for l in text.splitlines()]
    head = lines[:3]
    names = head[2].split()
    rows, lattice, mode = [], [], "rows"
    n = int(head[1].split()[1])
    for l in lines[3:]:
        if not l.strip():
            continue
        if mode == "rows" and len(rows) < n:
            rows.append(l.split())
            continue
        if not lattice and not _is_numbers(l):
            lattice.append(l)                 # the title line of the lattice block
            mode = "lat"
            continue
        lattice.append(l)
    return {"head": head, "names": names, "rows": rows, "lattice": lattice}


def _is_numbers(l):
    try:
        [float(x) for x in l.split()]
        return True
    except ValueError:
        return False


def render_static(doc, pres) -> str:
    names, rows = doc["names"], doc["rows"]
    ncol = len(names) - 1
    cperm = pres.get("col_perm") or list(range(ncol))
    rperm = pres.get("row_perm") or list(range(len(rows)))
    nm = [names[1 + c] for c in cperm]
    if pres.get("upper"):
        nm = [x.upper() for x in nm]
    out = [doc["head"][0], doc["head"][1], " ".join([names[0]] + nm)]
    for r in rperm:
        out.append(" ".join([rows[r][0]] + [rows[r][1 + c] for c in cperm]))
    if doc["lattice"]:
        out.append(doc["lattice"][0])
        lat = doc["lattice"][1:]
        out += [lat[r] for r in rperm] if len(lat) == len(rows) else lat
    return "\n".join(out) + "\n"


def represent(src_dir: Path, dst_dir: Path, phonon: str, static: str, pres: dict):
    dst_dir.mkdir(parents=True, exist_ok=True)
    p = parse_phonon((Path(src_dir) / phonon).read_text())
    (dst_dir / phonon).write_text(render_phonon(p, pres))
    s = parse_static((Path(src_dir) / static).read_text())
    (dst_dir / static).write_text(render_static(s, pres))
    return p["counts"], len(s["names"]) - 1, len(s["rows"])
