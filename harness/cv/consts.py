"""Physical constants typed in independently of scipy/pint (SI-2019 exact values, CODATA-2018 Rydberg and Bohr radius).

Comparisons that involve these use rtol 1e-7: CODATA vintages differ in the 10th digit.
"""
H = 6.62607015e-34            # J s   (exact)
C = 299792458.0               # m / s (exact)
KB = 1.380649e-23             # J / K (exact)
E_CHARGE = 1.602176634e-19    # C     (exact)
N_A = 6.02214076e23           # 1/mol (exact)
RY_EV = 13.605693122994       # eV    (CODATA 2018)
BOHR_M = 5.29177210903e-11    # m     (CODATA 2018)

RY_J = RY_EV * E_CHARGE
HC_OVER_K_CM_K = H * C / KB * 100.0          # cm K : Q = HC_OVER_K_CM_K * omega[cm^-1] / T
K_RY_PER_K = KB / RY_J                       # Ry / K
RY_BOHR3_TO_GPA = RY_J / BOHR_M ** 3 / 1e9   # GPa per (Ry / bohr^3)
BOHR3_TO_ANG3 = (BOHR_M * 1e10) ** 3
RY_TO_EV = RY_EV
CONST_RTOL = 1e-7
