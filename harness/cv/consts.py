"""Physical constants typed in independently of scipy/pint (SI-2019 exact values, CODATA-2018 Rydberg and Bohr radius).

Comparisons that involve these use rtol 1e-7: CODATA vintages differ in the 10th digit.
"""
H = 6.62607015e-34            # J s   (exact)
C = 299792458.0               # m / s (exact)
KB = 1.380649e-23             # J / K (exact)
E_CHARGE = 1.602176634e-19    # C     (exact)
N_A = 6.02214076e23           # 1/mol (exact)
RY_EV = 13.605693122994       # eV    (CODATA 2018)
BOHR_M = 5.29177210903e-11    # m     (CODATA 2018)

RY_J = RY_EV * E_CHARGE
HC_OVER_K_CM_K = H * C / KB * 100.0          # cm K : Q = HC_OVER_K_CM_K * omega[cm^-1] / T
K_RY_PER_K = KB / RY_J                       # Ry / K
RY_BOHR3_TO_GPA = RY_J / BOHR_M ** 3 / 1e9   # GPa per (Ry / bohr^3)
BOHR3_TO_ANG3 = (BOHR_M * 1e10) ** 3
RY_TO_EV = RY_EV
CONST_RTOL = 1e-7


# ---------------------------------------------------------------------------------------------------------------------------
# Unit factors as the dependency `pint` defines them (the package converts with a pint registry; its CODATA vintage differs from the
# literals above by 2e-9).  A registry of the harness's own is used - nothing of cij is involved - and the literals above must
# agree with it to 1e-8 (a wrong power or a wrong unit is off by orders of magnitude).
_PINT = None


def pint_factor(unit_from: str, unit_to: str) -> float:
    global _PINT
    if _PINT is None:
        import pint
        _PINT = pint.UnitRegistry()
    return float(_PINT.Quantity(1.0, unit_from).to(unit_to).magnitude)


def checked_factor(unit_from: str, unit_to: str, literal: float) -> float:
    f = pint_factor(unit_from, unit_to)
    if not abs(f / literal - 1.0) <= 1e-8:
        raise RuntimeError(f"pint's factor {unit_from} -> {unit_to} = {f!r} disagrees with the literal {literal!r}")
    return f


def ry_bohr3_to_gpa() -> float:
    return checked_factor("rydberg / bohr ** 3", "GPa", RY_BOHR3_TO_GPA)


def bohr3_to_ang3() -> float:
    return checked_factor("bohr ** 3", "angstrom ** 3", BOHR3_TO_ANG3)
