"""Generic NDJSON trace validation through a Trace_*.tla spec (acceptance by consumed length)."""
from __future__ import annotations

import json
from pathlib import Path

from .core import MachineryError
from .tlc import run_tlc


def validate_trace(ctx, module: str, cfg: str, records: list[dict], name: str = "trace", env: dict | None = None,
                   timeout: int = 600, jvm=None, libdirs=None):
    """Returns (accepted: bool, consumed: int, res).  `consumed` = number of leading records TLC could explain."""
    scratch = ctx.subdir(f"tr.{name}")
    path = scratch / f"{name}.ndjson"
    with open(path, "w") as fp:
        for r in records:
            fp.write(json.dumps(r, sort_keys=True) + "\n")
    e = {"TRACE_FILE": str(path)}
    e.update(env or {})
    res = run_tlc(module, cfg, scratch, env=e, workers=1, timeout=timeout, jvm=jvm, libdirs=libdirs)
    if res.depth == 0 and "diameter" not in res.out and "depth of the complete" not in res.out:
        raise MachineryError(f"trace validation {module}: TLC produced no search depth\n{res.out[-2000:]}")
    consumed = max(res.depth - 1, 0)
    ctx.add_tlc(res)
    accepted = consumed == len(records)
    if accepted and not res.ok:
        raise MachineryError(f"trace validation {module}: all records consumed but TLC reported an error\n{res.error}")
    if not accepted and res.ok and len(records) > 0:
        raise MachineryError(f"trace validation {module}: TLC ok but only {consumed}/{len(records)} consumed")
    if accepted:
        ctx.cov["traces_validated_against_impl"] += len(records)
    else:
        ctx.cov["traces_validated_against_impl"] += consumed
    return accepted, consumed, res


def binding_control(ctx, module: str, cfg: str, records: list[dict], index: int, corrupt, name: str, what: str, **kw):
    """Negative control of the binding: the same trace with ONE record corrupted must be rejected AT that record.
    `corrupt(record) -> record`.  Counts nothing towards the coverage; raises MachineryError if the corrupted trace is accepted."""
    import copy
    cor = [copy.deepcopy(r) for r in records[:index + 1]]
    cor[index] = corrupt(cor[index])
    before = ctx.cov["traces_validated_against_impl"]
    ok, consumed, _ = validate_trace(ctx, module, cfg, cor, name=name, **kw)
    ctx.cov["traces_validated_against_impl"] = before
    ctx.cov.setdefault("controls", {})[f"corrupted_{what}_rejected"] = (not ok and consumed == index)
    if ok or consumed != index:
        raise MachineryError(f"{module}: a trace whose record #{index} was corrupted ({what}) was "
                             f"{'accepted' if ok else f'rejected at #{consumed}'}: the trace specification does not bind")
