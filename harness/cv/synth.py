"""Synthetic-but-physical data sets (input01, elast.dat, settings.yaml) for end-to-end runs.

In-class by construction, so that every dependency is exact on them:
  * frequencies are exact power laws  a_qm (V/V0)^(-g_qm)  with pairwise distinct exponents (gamma = g, V dgamma/dV = 0),
  * static energies are a third-order Birch-Murnaghan form (cubic in Eulerian strain),
  * V*c_K(V) is exactly cubic in the Eulerian strain referred to the first (largest) volume,
  * lattice parameters are power laws a_i ~ V^{s_i}, sum s_i = 1.
No physics of cij is used here; this is data generation only.
"""
from __future__ import annotations

import copy
from pathlib import Path

import numpy

from . import consts

KEYS21 = [(i, j) for i in range(1, 7) for j in range(i, 7)]
ORTHO9 = [(1, 1), (2, 2), (3, 3), (1, 2), (1, 3), (2, 3), (4, 4), (5, 5), (6, 6)]


_VOIGT = {(1, 1): 1, (2, 2): 2, (3, 3): 3, (2, 3): 4, (3, 2): 4, (1, 3): 5, (3, 1): 5, (1, 2): 6, (2, 1): 6}


def spell(rng, key, style=None):
    """A random column label for the component with Voigt key (I, J), I <= J: prefix, case, index order and two- or four-index
    spelling vary; all of them name the same component (minor and major symmetry)."""
    I, J = key
    style = int(rng.integers(0, 7)) if style is None else style
    if style == 5:                                   # two-index label in lower-triangle order
        return "c%d%d" % (J, I)
    if style == 6:                                   # any four-index member of the class
        members = [(a, b, c, d) for (a, b), va in _VOIGT.items() for (c, d), vb in _VOIGT.items() if {va, vb} == {I, J} and (va, vb) in ((I, J), (J, I))]
        return str(rng.choice(["c", "C", "c_"])) + "%d%d%d%d" % members[int(rng.integers(0, len(members)))]
    return ["c%d%d", "C%d%d", "c_%d%d", "Cij%d%d", "S%d%d"][style] % (I, J)


def eulerian(v0, v):
    return ((v0 / v) ** (2.0 / 3.0) - 1.0) / 2.0


class Dataset:
    def __init__(self, rng: numpy.random.Generator, nv=None, nq=None, nat=None, lattice=None, keys=None, tensor0=None,
                 settings=None, interpolator="lsq_poly", order=3, system=None, vmax=None, polys=None, nv_static=None, freq_curv=0.0, axis_split=None):
        self.rng = rng
        self.nv = int(nv or rng.integers(4, 13))
        self.nq = int(nq or rng.integers(1, 9))
        self.nat = int(nat or rng.choice([1, 1, 2, 2, 3, 4, 5, 7, 10]))
        self.np = 3 * self.nat
        self.nm = int(rng.choice([1, 1, 2, 4]))            # formula units per cell (enters no quantity cij computes)
        self.lattice = bool(rng.random() < 0.5) if lattice is None else lattice
        vmax = vmax or float(rng.uniform(300.0, 900.0))
        self.volumes = numpy.linspace(vmax, vmax * float(rng.uniform(0.74, 0.82)), self.nv)
        self.v0 = self.volumes[0]
        # ---- static EoS (third-order Birch-Murnaghan about veq)
        self.veq = vmax * float(rng.uniform(0.95, 0.99))
        self.k0 = float(rng.uniform(120.0, 260.0)) / consts.RY_BOHR3_TO_GPA
        self.kp = float(rng.uniform(3.6, 4.8))
        self.e0 = -float(rng.uniform(50.0, 400.0))
        f = eulerian(self.veq, self.volumes)
        self.energies = self.e0 + 4.5 * self.k0 * self.veq * f ** 2 * (1.0 + (self.kp - 4.0) * f)
        # ---- phonons
        self.amp = rng.uniform(100.0, 1100.0, (self.nq, self.np))
        g = numpy.linspace(0.7, 2.1, self.nq * self.np)
        self.gam = rng.permutation(g).reshape(self.nq, self.np) + rng.uniform(-0.01, 0.01, (self.nq, self.np))
        self.amp[0, :3] = 0.0
        # optional departure from power laws (ln omega gets a non-polynomial term c (cosh(4 ln V/V0) - 1)); zero for the in-class sets the exact oracles need
        self.freq_curv = rng.uniform(-freq_curv, freq_curv, (self.nq, self.np)) if freq_curv else numpy.zeros((self.nq, self.np))
        self.qcoords = rng.uniform(-0.5, 0.5, (self.nq, 3))
        self.qcoords[0] = 0.0
        self.weights = rng.uniform(0.5, 12.0, self.nq)
        # ---- static tensor: V c_K(V) = v0 c0_K (1 + a_K f + b_K f^2 + d_K f^3),  f relative to the first volume
        self.keys = list(keys) if keys is not None else list(ORTHO9)
        if tensor0 is None:
            lam, mu = rng.uniform(80, 140), rng.uniform(60, 110)
            tensor0 = {}
            for (i, j) in KEYS21:
                base = (lam + 2 * mu) if i == j <= 3 else lam if (i <= 3 and j <= 3) else mu if i == j else 0.0
                tensor0[(i, j)] = base + rng.uniform(-12, 12)
        # polynomial coefficients per key: V c_K = v0 (p0 + p1 f + p2 f^2 + p3 f^3)
        if polys is not None:
            self.polys = {k: tuple(float(x) for x in polys[k]) for k in polys}
        else:
            self.polys = {}
            for k in self.keys:
                c0 = float(tensor0[k])
                self.polys[k] = (c0, c0 * float(rng.uniform(8.0, 16.0)), c0 * float(rng.uniform(-20.0, 20.0)), c0 * float(rng.uniform(-30.0, 30.0)))
        self.cellmass = float(rng.uniform(15.0, 30.0)) * self.nat
        # the static table has its own volume grid (different points, possibly a different count) and its own header V_0
        self.nv_static = int(nv_static) if nv_static else int(self.nv + rng.integers(-1, 3))
        self.static_volumes = numpy.linspace(self.volumes[0] * float(rng.uniform(0.97, 1.03)), self.volumes[-1] * float(rng.uniform(0.97, 1.03)),
                                             max(self.nv_static, 4))
        self.nv_static = len(self.static_volumes)
        self.vref = float(self.v0 * rng.uniform(0.9, 0.98))
        # ---- lattice parameters
        s = rng.dirichlet([6.0, 6.0, 6.0])
        while s.min() < 0.2 or min(abs(s[0] - s[1]), abs(s[0] - s[2]), abs(s[1] - s[2])) < 0.03:
            s = rng.dirichlet([6.0, 6.0, 6.0])
        c = rng.uniform(-0.08, 0.08, 3)
        c = c - c.mean()
        if axis_split:
            # nearly (not exactly) equal strain fractions of the first two axes, constant in volume
            s = numpy.array([(1 - s[2]) / 2 + axis_split / 2, (1 - s[2]) / 2 - axis_split / 2, s[2]])
            c = numpy.zeros(3)
        self.axis_exp = s
        self.axis_curv = c          # fractions vary with volume: e_i(V) = s_i + 2 t_i ln(V/V0), sum = 1
        self.axis0 = rng.uniform(0.8, 3.0, 3)
        self.system = system
        self.interpolator, self.order = interpolator, order
        self.settings = {"T_MIN": 0, "DT": 100, "NT": 8, "P_MIN": 0, "DELTA_P": 1.0, "NTV": 11, "order": 3,
                         "static_only": False, "volume_ratio": 1.2, "DT_SAMPLE": 100, "DELTA_P_SAMPLE": 1.0}
        self.settings.update(settings or {})
        if not (settings and "DT_SAMPLE" in settings):
            self.settings["DT_SAMPLE"] = self.settings["DT"]          # QHA needs the sampling steps to be multiples of the grid steps

    # ------------------------------------------------------------------ exact model functions
    def freq(self, v):
        v = numpy.asarray(v, dtype=float)
        x = numpy.log(v[:, None, None] / self.v0)
        return self.amp[None] * numpy.exp(-self.gam[None] * x + self.freq_curv[None] * (numpy.cosh(4.0 * x) - 1.0))

    def static_gpa(self, key, v):
        f = eulerian(self.v0, numpy.asarray(v, dtype=float))
        p = self.polys[key]
        return self.v0 * (p[0] + p[1] * f + p[2] * f ** 2 + p[3] * f ** 3) / v

    def axes(self, v):
        v = numpy.asarray(v, dtype=float)
        x = numpy.log(v[:, None] / self.v0)
        return self.axis0[None, :] * numpy.exp(self.axis_exp[None, :] * x + self.axis_curv[None, :] * x ** 2)

    def strain_fractions(self, v):
        """normalised logarithmic derivatives d ln a_i / d ln V (they sum to one)"""
        x = numpy.log(numpy.asarray(v, dtype=float)[:, None] / self.v0)
        return self.axis_exp[None, :] + 2.0 * self.axis_curv[None, :] * x

    # ------------------------------------------------------------------ files
    def write(self, d: Path, fmt_settings="yaml", table_cols=None, upper=False, pres=None):
        """pres: optional re-presentation {vol_perm, q_perm, mode_perms {q: perm}, w_scale, col_perm, upper, row_perm}"""
        pres = pres or {}
        d = Path(d)
        d.mkdir(parents=True, exist_ok=True)
        fr = self.freq(self.volumes)
        lines = ["synthetic", "", "nv nq np nm na", f"{self.nv} {self.nq} {self.np} {self.nm} {self.nat}", ""]
        pst = -numpy.gradient(self.energies) / numpy.gradient(self.volumes) * consts.RY_BOHR3_TO_GPA * 10.0
        vperm = pres.get("vol_perm") or list(range(self.nv))
        qperm = pres.get("q_perm") or list(range(self.nq))
        mperms = pres.get("mode_perms") or {}
        wscale = pres.get("w_scale", 1.0)
        for i in vperm:
            v = self.volumes[i]
            lines.append(f"P= {pst[i]:.8f} V= {v:.10f} E= {self.energies[i]:.12f}")
            for q in qperm:
                lines.append(" ".join(f"{c:.8f}" for c in self.qcoords[q]))
                for m in (mperms.get(q) or range(self.np)):
                    lines.append(f"{fr[i, q, m]:.10f}")
        lines += ["", "weight"]
        for q in qperm:
            lines.append(" ".join(f"{c:.8f}" for c in self.qcoords[q]) + f" {float(self.weights[q] * wscale)!r}")
        (d / "input01").write_text("\n".join(lines) + "\n")
        cols = table_cols or self.keys
        if pres.get("col_perm"):
            cols = [cols[i] for i in pres["col_perm"]]
        upper = upper or bool(pres.get("upper"))
        names = [("C%d%d" if upper else "c%d%d") % k for k in cols]
        if pres.get("spell"):                        # arbitrary spellings of the same components (seeded by the data set's generator)
            names = [spell(self.rng, k, 6 if pres["spell"] == "four" else None) for k in cols]
        t = ["synthetic static table", f"{self.vref:.8f} {self.nv_static} {self.cellmass:.6f}", "V " + " ".join(names)]
        rperm = pres.get("row_perm") or list(range(self.nv_static))
        for i in rperm:
            v = self.static_volumes[i]
            fmt = "%.12E" if pres.get("exponent") else "%.10f"          # (exponent notation carries as many digits as the plain one)
            t.append(f"{v:.10f} " + " ".join(fmt % self.static_gpa(k, numpy.array([v]))[0] for k in cols))
        if self.lattice:
            t.append(str(self.rng.choice(["lattice parameters", "lattice_a lattice_b lattice_c", "a b c", "# axes (bohr)"])))
            ax = self.axes(self.static_volumes)
            for i in rperm:
                t.append(" ".join(f"{x:.12f}" for x in ax[i]))
        (d / "elast.dat").write_text("\n".join(t) + "\n")
        cfg = self.config()
        if fmt_settings == "yaml":
            import yaml
            (d / "settings.yaml").write_text(yaml.safe_dump(cfg))
            return d / "settings.yaml"
        import json
        (d / "settings.json").write_text(json.dumps(cfg))
        return d / "settings.json"

    def config(self):
        el = {"mode_gamma": {k: v for k, v in (("interpolator", self.interpolator), ("order", self.order)) if k not in getattr(self, "omit", ())}}
        if not el["mode_gamma"]:
            del el["mode_gamma"]
        if self.system:
            el["symmetry"] = {"system": self.system, **getattr(self, "symmetry_flags", {})}
        return {"qha": {"input": "input01", "settings": copy.deepcopy(self.settings)},
                "elast": {"input": "elast.dat", "settings": el},
                "output": copy.deepcopy(getattr(self, "output", None)) or {"pressure_base": ["cij", "bm_VRH", "G_VRH", "v", "vs", "vp"], "volume_base": ["p"]}}

    def fit_pressure_window(self, d: Path, ntv=None, margin=0.08):
        """Two-pass: run the QHA layer once to learn the reachable pressure range, then set P_MIN / DELTA_P / NTV inside it."""
        import warnings
        from cij.core.qha_adapter import QHACalculatorAdapter
        from cij.io.traditional import read_energy
        probe = copy.deepcopy(self.settings)
        probe.update({"P_MIN": -1000.0, "DELTA_P": 0.001, "NTV": max(int(ntv or self.settings["NTV"]), 5)})
        with warnings.catch_warnings():
            warnings.simplefilter("ignore")
            self.write(d)
            ad = QHACalculatorAdapter(probe, read_energy(str(Path(d) / "input01")))
        p = ad.calculator.p_tv_gpa
        lo, hi = float(p[:, 0].max()), float(p[:, -1].min())
        span = hi - lo
        n = int(ntv or self.settings["NTV"])
        pmin = lo + margin * span
        pmax = hi - margin * span
        self.settings.update({"P_MIN": round(pmin, 3), "NTV": n, "DELTA_P": round((pmax - pmin) / (n - 1), 4)})
        self.settings["DELTA_P_SAMPLE"] = self.settings["DELTA_P"]
        return lo, hi


def run(settings_path):
    import warnings
    import cij.core.calculator as C
    with warnings.catch_warnings(), numpy.errstate(all="ignore"):
        warnings.simplefilter("ignore")
        return C.Calculator(str(settings_path))
