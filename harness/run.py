#!/venv/bin/python
"""Entry point: /verif/check <ID> [--tier quick|thorough] [--replay PATH]"""
import argparse
import importlib
import os
import sys
from pathlib import Path

sys.path.insert(0, str(Path(__file__).resolve().parent))
os.environ.setdefault("PYTHONHASHSEED", "0")
os.environ.setdefault("CIJ_VERIF_TRACE", "1")
os.environ.setdefault("NUMBA_CACHE_DIR", "/tmp/cijverif.numba")
os.environ.setdefault("MPLBACKEND", "Agg")
os.environ.setdefault("PYTHONWARNINGS", "ignore")
import warnings
warnings.filterwarnings("ignore")

from cv.core import run_check  # noqa: E402


def main():
    ap = argparse.ArgumentParser()
    ap.add_argument("pid")
    ap.add_argument("--tier", default=os.environ.get("VERIF_TIER", "quick"), choices=["quick", "thorough"])
    ap.add_argument("--replay", default=None)
    a = ap.parse_args()
    pid = a.pid.upper()
    mod = importlib.import_module(f"checks.{pid.lower()}")
    sys.exit(run_check(mod.main, pid, a.tier, getattr(mod, "LEVEL", "model_checking"), a.replay))


if __name__ == "__main__":
    main()
