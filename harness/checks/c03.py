"""C03 -- shear components obtained by strain-energy rotation are exact tensor algebra.

Model level (spec/ShearSolver.tla, QuadField.tla, C03.tla): for all 15 keys (and three orthonormal splits of the degenerate
eigenspace) TLC verifies the spectrum/projectors of the fictitious strain over Q(sqrt d) and decides
Target(K) = c_K as an identity of linear forms over the 21 components, the count theorem behind the multiplicity, that the
target is never requested, and trace preservation of the rotated strains.
Binding (R): request bags, eigenframe, rotated strains and exactness are replayed on the real solver.
"""
import itertools
import math
from collections import Counter

import numpy

from cv.core import MachineryError
from cv.duck import draw_fractions
from cv.tlc import run_tlc, must_ok

LEVEL = "model_checking"


def fld(x, d):
    return x["a"][0] / x["a"][1] + x["b"][0] / x["b"][1] * math.sqrt(d)


_V = {(1, 1): 1, (2, 2): 2, (3, 3): 3, (2, 3): 4, (1, 3): 5, (1, 2): 6}


def canon(i, j, k, l):
    """canonical Voigt pair of a standard tuple (harness-side, independent of cij.util.voigt)"""
    a, b = _V[tuple(sorted((i, j)))], _V[tuple(sorted((k, l)))]
    return (min(a, b), max(a, b))


def full_tensor(comp):
    """comp: dict voigt pair (I<=J) -> array(n) ; -> array (n,3,3,3,3) with minor and major symmetry."""
    n = len(next(iter(comp.values())))
    C = numpy.zeros((n, 3, 3, 3, 3))
    for i, j, k, l in itertools.product(range(3), repeat=4):
        C[:, i, j, k, l] = comp[canon(i + 1, j + 1, k + 1, l + 1)]
    return C


def main(ctx, replay=None):
    from cij.util import c_
    from cij.core.phonon_contribution.shear import ShearElasticModulusPhononContribution as S

    res = must_ok(run_tlc("C03", "C03.cfg", ctx.subdir("tlc"), workers=16, timeout=900))
    ctx.add_tlc(res)
    if res.distinct != 21:
        raise MachineryError(f"C03 model explored {res.distinct} states, expected 21")
    rows = res.load("c03_keys.json")["rows"]
    if len(rows) != 15:
        raise MachineryError("expected 15 shear keys in the export")
    ctx.cov["exhaustive"] = True
    ctx.cov["rule"] = ("all 15 shear keys x {21 basis tensors + random symmetric tensors} x random positive strain fields; a case is "
                       "(key, tensor, strain field); all non-trivial; expected bags/strains/target from TLC")
    ctx.assumptions += ["float rotation of test tensors with the solver's own eigenvectors (numpy.einsum) in the harness"]
    rng = numpy.random.default_rng(ctx.seed + 303)
    nrand = 8 if ctx.tier == "quick" else 200
    nstrain = 1 if ctx.tier == "quick" else 6
    keys21 = [(I, J) for I in range(1, 7) for J in range(I, 7)]

    # keys as the package itself hands them out (the solvers' own request lists: built from array indices, i.e. numpy integers)
    handed = {}
    for row in rows:
        try:
            s0 = S(numpy.array([[0.2, 0.3, 0.5]]), c_(*row["key"]))
            for k in list(s0.get_modulus_keys()) + list(s0.get_modulus_keys_rotated()):
                handed.setdefault(canon(*k.standard), k)
        except Exception:
            pass                                  # (a failing solver is reported below, where it is exercised)
    for row in sorted(rows, key=lambda r: r["key"]):
        I, J = row["key"]
        d = row["disc"]
        K = c_(I, J)
        sig = {"key": f"{I}{J}"}
        sp = [fld(x, d) for x in row["spectrum"]]
        import logging
        lg = logging.getLogger("cij")
        base_level, base_prop = lg.level, lg.propagate
        for sn in range(nstrain + 2):
            lg.setLevel(base_level)
            lg.propagate = base_prop
            # number of volumes: 3 (as many as axes: a transposed strain field has the same shape) for every key, and 1, 2, 4, 6 in turn
            ntv = 3 if sn == 0 else (4, 1, 6, 2)[(I + J + sn) % 4]
            e = draw_fractions(rng, ntv) * rng.uniform(0.5, 3.0)       # positive triples (not normalised)
            if sn == nstrain:
                e = rng.integers(1, 12, (ntv, 3))                     # ... also given as whole numbers (an integer-typed array)
            Kuse = K
            if sn == nstrain + 1:
                # a pseudo-cubic cell: three strains that differ in the sixth digit; the key handed over with numpy integers as fields
                # (what numpy.argwhere and friends produce; equal to, and hashing like, the key built from Python integers); the
                # package's logger at DEBUG level (`cij run --debug DEBUG`) - none of which is input
                e = (1.0 / 3.0) * (1.0 + 2e-6 * rng.uniform(-1.0, 1.0, (ntv, 3)))
                Kuse = handed.get((I, J), c_(numpy.int64(I), numpy.int64(J)))
                lg.setLevel(logging.DEBUG)
                lg.propagate = False
                if not any(isinstance(h, logging.NullHandler) for h in lg.handlers):
                    lg.addHandler(logging.NullHandler())
            s = S(e, Kuse)
            case = {"key": [I, J], "strain": e}
            # -- (1) own-frame requests
            try:
                got = Counter(canon(*k.standard) for k in s.get_modulus_keys())
            except Exception as ex:
                ctx.violation(f"c{I}{J}: get_modulus_keys raised {ex!r}", case, {**sig, "clause": "modkeys"})
                continue
            want = Counter({tuple(b["key"]): b["n"] for b in row["modkeys"]})
            ctx.count({"k": [I, J], "what": "requests"})
            if got != want:
                ctx.violation(f"c{I}{J}: requests {dict(got)} in the crystal frame, specification {dict(want)}",
                              {**case, "got": dict(got), "want": dict(want)}, {**sig, "clause": "modkeys"})
            if (I, J) in got:
                ctx.violation(f"c{I}{J}: the solver asks for its own target", case, {**sig, "clause": "target_requested"})
            # -- (2) the eigenframe
            try:
                T = numpy.asarray(s.transformation_matrix)
                D = numpy.asarray(s.fictitious_strain_rotated)
                M = numpy.asarray(s.fictitious_strain)
            except Exception as ex:
                ctx.violation(f"c{I}{J}: diagonalisation raised {ex!r}", case, {**sig, "clause": "frame"})
                continue
            if numpy.iscomplexobj(T) or numpy.iscomplexobj(D):
                # a complex-typed frame with vanishing imaginary part is the same frame (realness of results is C12's business)
                if not (numpy.allclose(T.imag, 0, atol=1e-14) and numpy.allclose(D.imag, 0, atol=1e-14)):
                    ctx.violation(f"c{I}{J}: eigenframe has a non-vanishing imaginary part", case, {**sig, "clause": "frame_real"})
                    continue
                T, D = T.real, D.real
            if not numpy.array_equal(M, numpy.array(row["fict"], dtype=float)):
                ctx.violation(f"c{I}{J}: fictitious strain {M.tolist()} differs from the specification", case, {**sig, "clause": "fict"})
            if not (numpy.allclose(T.T @ T, numpy.eye(3), atol=1e-12) and numpy.allclose(T.T @ M @ T, D, atol=1e-12)
                    and numpy.allclose(D, numpy.diag(numpy.diag(D)), atol=1e-12)):
                ctx.violation(f"c{I}{J}: transformation matrix is not an orthonormal frame diagonalising the fictitious strain",
                              {**case, "T": T, "D": D}, {**sig, "clause": "frame_orthonormal"})
                continue
            lam = numpy.diag(D)
            if sorted(numpy.round(lam, 9)) != sorted(numpy.round(sp, 9)):
                ctx.violation(f"c{I}{J}: eigenvalues {lam.tolist()} differ from the specification {sp}", case, {**sig, "clause": "spectrum"})
                continue
            # -- (3) rotated-frame requests, compared as bags of eigenvalue pairs (independent of eig/eigh ordering)
            def lp(a, b):
                return tuple(sorted((round(float(a), 9), round(float(b), 9))))
            gotr = Counter()
            for k in s.get_modulus_keys_rotated():
                a, b = k.voigt
                if a > 3 or b > 3:
                    ctx.violation(f"c{I}{J}: rotated-frame request {k} is not longitudinal/off-diagonal", case, {**sig, "clause": "rotkeys"})
                    continue
                gotr[lp(lam[a - 1], lam[b - 1])] += 1
            wantr = Counter()
            for bsp in row["rotkeys"]:
                a, b = bsp["key"]
                wantr[lp(sp[a - 1], sp[b - 1])] += bsp["n"]
            if gotr != wantr:
                ctx.violation(f"c{I}{J}: rotated-frame requests {dict(gotr)} (by eigenvalue pair), specification {dict(wantr)}",
                              {**case, "got": {str(k): v for k, v in gotr.items()}}, {**sig, "clause": "rotkeys"})
            # -- (4) rotated axial strain fractions = diag(T^T diag(e) T), per eigenspace
            sr = numpy.asarray(s.strain_rotated)
            if numpy.iscomplexobj(sr):
                sr = sr.real
            coeff = numpy.array([[fld(x, d) for x in r] for r in row["strainrot"]])     # [axis a][i]
            for val in sorted(set(numpy.round(sp, 9))):
                spec_axes = [a for a in range(3) if round(sp[a], 9) == val]
                impl_axes = [a for a in range(3) if round(float(lam[a]), 9) == val]
                want_s = sum(e @ coeff[a] for a in spec_axes)
                got_s = sr[:, impl_axes].sum(axis=1)
                if not numpy.allclose(got_s, want_s, rtol=1e-12, atol=1e-13):
                    ctx.violation(f"c{I}{J}: rotated strain of the eigenspace lambda={val} is {got_s.tolist()}, specification {want_s.tolist()}",
                                  {**case, "lambda": val}, {**sig, "clause": "strain_rotated"})
            if not numpy.allclose(sr.sum(axis=1), e.sum(axis=1), rtol=1e-12):
                ctx.violation(f"c{I}{J}: rotated strains do not preserve the trace", case, {**sig, "clause": "trace"})
            # -- (5) exactness on basis and random tensors, rotated with the solver's own frame
            tensors = []
            for bk in keys21:
                tensors.append(("basis", {k: numpy.full(ntv, 1.0 if k == bk else 0.0) for k in keys21}))
            for _r in range(nrand):
                tensors.append(("random", {k: rng.normal(size=ntv) * 10 ** rng.uniform(-2, 2) for k in keys21}))
            # the map is linear: the same holds for tensors in any unit - all components tiny (1e-12) or huge (1e+9)
            for sc10 in (-12.0, 9.0):
                tensors.append(("random", {k: rng.normal(size=ntv) * 10 ** (sc10 + rng.uniform(-1, 1)) for k in keys21}))
            s2 = None
            for tn, (kind, comp) in enumerate(tensors):
                C = full_tensor(comp)
                Crot = numpy.einsum("ia,ja,kb,lb,nijkl->nab", T, T, T, T, C)
                # the inputs are handed over by assignment: a solver object that is given a second tensor must answer for that one
                # (every third tensor goes to a fresh object, the others re-use the previous one)
                if s2 is None or tn % 3 == 0:
                    s2 = S(e, Kuse)
                s2.modulus = {k: comp[canon(*k.standard)] for k in s2.get_modulus_keys()}
                s2.modulus_rotated = {k: Crot[:, k.voigt[0] - 1, k.voigt[1] - 1] for k in s2.get_modulus_keys_rotated()}
                try:
                    out = numpy.asarray(s2.get_target_elastic_modulus())
                except Exception as ex:
                    ctx.violation(f"c{I}{J}: get_target_elastic_modulus raised {ex!r}", case, {**sig, "clause": "target"})
                    break
                ctx.count({"k": [I, J], "t": kind, "h": float(sum(v.sum() for v in comp.values())) if kind == "random" else
                           [k for k in keys21 if comp[k][0] == 1.0]})
                scale = max(float(numpy.max(numpy.abs(C))), 1e-300)
                if numpy.iscomplexobj(out):
                    out = out.real if numpy.allclose(out.imag, 0) else out
                if numpy.iscomplexobj(out) or not numpy.allclose(out, comp[(I, J)], rtol=0, atol=1e-10 * scale):
                    ctx.violation(f"c{I}{J}: solver returns {numpy.atleast_1d(numpy.asarray(out))[:2].tolist()} for a tensor whose c{I}{J} is "
                                  f"{comp[(I, J)][:2].tolist()} ({kind})", {**case, "tensor": comp},
                                  {**sig, "clause": "target_exact", "tensor": kind})
                    break
        lg.setLevel(base_level)
        lg.propagate = base_prop
        ctx.sample({"key": [I, J], "class": row["class"], "modkeys": row["modkeys"][:3]}, limit=4)
