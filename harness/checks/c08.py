"""C08 -- packaged symmetry relations = Laue-class invariants; fill returns the invariant tensor.

Model (spec/Symmetry.tla, Fill.tla, LinAlg.tla, C08.tla): for each of the nine systems TLC closes the rotation group of the
Laue class (orders asserted), builds the action on the 21-dimensional tensor space and the Reynolds projector, computes the
null space of the packaged relations (regenerated from /repo on every run by an independent parser) and decides both
inclusions exactly, plus the dimensions.  It exports the invariant subspace; C09.tla's lattice gives the sufficient subsets.
Binding (R): fill_cij / apply_symetry_on_elast_data on TLC-computed invariant tensors restricted to sufficient subsets.
"""
from fractions import Fraction

import numpy

from cv import fillspec
from cv.core import MachineryError
from cv.relparse import SYMS

LEVEL = "model_checking"
WHAT = {"GroupOK": "rotation group of the Laue class (order / orthogonality)", "RelInInv": "a tensor satisfying the packaged relations is not invariant under the Laue class (relations too weak or wrong sign/factor)",
        "InvInRel": "an invariant tensor violates a packaged relation (a relation too many, or wrong sign/factor)", "DimOK": "dimension of the relation subspace differs from the invariant subspace"}


def main(ctx, replay=None):
    import pandas
    from cij.util.fill import fill_cij

    rng = numpy.random.default_rng(ctx.seed + 808)
    ctx.cov["rule"] = ("nine systems decided exactly by TLC (both subspace inclusions); fill cases = (system, sufficient subset from the "
                       "C09 lattice, TLC-computed invariant tensor, number of volume rows 1-3); distinct by (system, subset, rows); "
                       "non-trivial = subset is a proper subset of the non-vanishing components")
    ctx.assumptions += ["crystallographic generators of Symmetry.tla (standard setting)", "float comparison 1e-9"]
    results, exports = fillspec.run_c08(ctx)
    for s, res in results.items():
        ctx.count({"system": s, "what": "inclusions"})
        if not res.ok:
            if res.violated and res.violated.split()[0] in WHAT:
                inv = res.violated.split()[0]
                ctx.violation(f"{s}: packaged relations cij/data/constraints/{s} vs Laue-class invariants: {WHAT[inv]} [{inv}]",
                              {"system": s, "invariant": inv}, {"system": s, "clause": inv})
            else:
                raise MachineryError(f"C08 model failed for {s}:\n{res.error}")
    if len(exports) < 9:
        return                                   # relations wrong: the fill half has no oracle for those systems
    lres, table = fillspec.run_lattice(ctx, exports, agree=False)
    if not lres.ok:
        raise MachineryError(f"C09 lattice failed: {lres.error}")
    suff = {}
    for s, S, det in table:
        if det:
            suff.setdefault(s, []).append(S)
    per = 12 if ctx.tier == "quick" else 400
    for s in fillspec.SYSTEMS:
        e = exports[s]
        tensors = [[Fraction(x[0], x[1]) for x in t] for t in e["tensors"]]
        nonvan = set(range(1, 22)) - set(e["vanishing"])
        cand = suff[s]
        idx = rng.permutation(len(cand))[:per]
        # always include the smallest sufficient sets
        small = sorted(range(len(cand)), key=lambda i: len(cand[i]))[:3]
        full21 = frozenset(range(1, 22))                      # every component supplied, the vanishing ones as zeros
        for ci in [-1] + list(dict.fromkeys(list(small) + [int(i) for i in idx])):
            S = full21 if ci == -1 else cand[ci]
            nrows = int(rng.integers(1, 4))
            rows = [tensors[r] for r in rng.permutation(3)[:nrows]]
            # a supplied INDEPENDENT component that happens to vanish at every volume (the null-space basis is in reduced form: leaving
            # one basis tensor out zeroes its pivot component): it is still a known value, and the table still determines the tensor
            zero_comp = None
            if ci != -1 and s != "triclinic" and e["dim"] >= 2 and rng.random() < 0.3:
                null = [[Fraction(x[0], x[1]) for x in v] for v in e["null"]]
                j = int(rng.integers(0, len(null)))
                piv = [n for n in range(21) if null[j][n] != 0 and all(null[k][n] == 0 for k in range(len(null)) if k != j)]
                if piv and (piv[0] + 1) in S:
                    zero_comp = piv[0] + 1
                    # ... or is tiny but not zero (a few thousandths of a GPa next to hundreds): then it is a value like any other
                    tiny = bool(rng.random() < 0.5)
                    rows = []
                    for _r in range(nrows):
                        co = [Fraction(int(rng.integers(-9, 10)) or 1, int(rng.integers(1, 5))) * 40 for _ in null]
                        co[j] = Fraction(int(rng.integers(1, 9)), 1000) if tiny else Fraction(0)
                        rows.append([sum(c * vec[n] for c, vec in zip(co, null)) for n in range(21)])
                    if tiny:
                        zero_comp = -zero_comp
            # values with many decimals: every row is multiplied by its own factor (the relations are homogeneous)
            if rng.random() < 0.5 and not (zero_comp is not None and zero_comp < 0):
                facs = [Fraction(int(rng.integers(100000, 999999)), 1000003) for _ in rows]
                rows = [[x * f for x in r] for r, f in zip(rows, facs)]
            zero_row = False
            if zero_comp is None and nrows >= 2 and rng.random() < 0.4:
                # a symmetry-allowed component that is exactly zero at one volume and not at the others (e.g. a sign change under
                # compression): the combination below is still an invariant tensor (the subspace is linear)
                n0 = int(rng.choice(sorted(nonvan))) - 1
                a, b = rows[0], tensors[[r for r in range(3) if tensors[r] is not rows[0]][0]]
                if a[n0] != 0 and b[n0] != 0:
                    rows[1] = [x * b[n0] - y * a[n0] for x, y in zip(a, b)]
                    zero_row = True
            with_zero_col = ci != -1 and rng.random() < 0.3 and len(e["vanishing"]) > 0
            cols = sorted(S)
            if with_zero_col:
                cols = cols + [int(rng.choice(sorted(e["vanishing"])))]
            df = pandas.DataFrame({SYMS[n - 1]: [float(r[n - 1]) for r in rows] for n in cols})
            df = df[list(rng.permutation(df.columns))]
            index_kind = str(rng.choice(["default", "default", "offset", "shuffled", "float"]))
            if index_kind == "offset":
                df.index = [10 + 5 * i for i in range(nrows)]
            elif index_kind == "shuffled":
                df.index = [int(i) for i in rng.permutation(nrows)]
            elif index_kind == "float":
                df.index = [100.5 - 7.25 * i for i in range(nrows)]
            case = {"system": s, "supplied": [SYMS[n - 1] for n in cols], "rows": nrows, "index": index_kind, "zero_row": zero_row, "zero_independent": zero_comp}
            ctx.count(case, nontrivial=set(S) != nonvan)
            sig = {"system": s}
            try:
                out = fill_cij(df.copy(), s)
            except BaseException as ex:                      # fill raises Warning (an Exception subclass) on refusal
                ctx.violation(f"{s}: fill of a consistent sufficient table {case['supplied']} raised {ex!r}", case, {**sig, "clause": "raises", "exc": type(ex).__name__})
                continue
            exp = {SYMS[n]: [float(r[n]) for r in rows] for n in range(21) if any(r[n] != 0 for r in rows)}
            got = {c: out[c].to_numpy(dtype=float).tolist() for c in out.columns}
            scale = max(abs(float(x)) for r in rows for x in r)
            bad = None
            if set(got) != set(exp):
                bad = f"columns {sorted(set(got) ^ set(exp))} present/absent wrongly"
            else:
                for c in exp:
                    if not numpy.allclose(got[c], exp[c], rtol=0, atol=1e-9 * scale):
                        bad = f"{c} = {got[c]} expected {exp[c]}"
                        break
            if bad:
                ctx.violation(f"{s}: fill from {case['supplied']} -> {bad}", {**case, "got": got, "expected": exp}, {**sig, "clause": "fill_value"})
        ctx.sample({"system": s, "dim": e["dim"], "smallest_sufficient": [SYMS[n - 1] for n in sorted(cand[small[0]])]}, limit=9)
    noise_level_drop(ctx, exports, suff, rng, fill_cij)
    elast_data_path(ctx, exports, suff, rng)


def noise_level_drop(ctx, exports, suff, rng, fill_cij):
    """A drop tolerance raised to a noise level (0.5 / 1 GPa): an allowed component that is below it at SOME volumes only is a value like any
    other - supplied values stay, its dependent partners are generated from it at every volume; only columns below it at ALL volumes go."""
    import pandas
    for s in fillspec.SYSTEMS:
        if s == "triclinic":
            continue
        e = exports[s]
        null = [[Fraction(x[0], x[1]) for x in v] for v in e["null"]]
        done = 0
        for _try in range(12):
            if done >= (2 if ctx.tier == "quick" else 12):
                break
            atol = float(rng.choice([0.5, 1.0]))
            nrows = int(rng.integers(2, 5))
            j = int(rng.integers(0, len(null)))
            small_at = int(rng.integers(0, nrows))
            rows = []
            for r in range(nrows):
                co = [Fraction(int(rng.integers(-9, 10)) or 1, int(rng.integers(1, 5))) * 40 for _ in null]
                if r == small_at:
                    co[j] = Fraction(int(rng.integers(1, 90)) * int(rng.choice([-1, 1])), 1000)      # |.| < 0.09: far below the tolerance
                rows.append([sum(c * vec[n] for c, vec in zip(co, null)) for n in range(21)])
            mx = [max(abs(float(r[n])) for r in rows) for n in range(21)]
            if any(atol / 4 < m < atol * 4 for m in mx):
                continue                                     # a column near the tolerance: which side it falls on is not the point here
            if not any(0 < abs(float(rows[small_at][n])) < atol / 4 < atol * 4 < mx[n] for n in range(21)):
                continue
            S = suff[s][int(rng.integers(0, len(suff[s])))]
            df = pandas.DataFrame({SYMS[n - 1]: [float(r[n - 1]) for r in rows] for n in sorted(S)})
            case = {"system": s, "supplied": [SYMS[n - 1] for n in sorted(S)], "rows": nrows, "drop_atol": atol, "small_at_row": small_at}
            ctx.count(case)
            done += 1
            try:
                out = fill_cij(df.copy(), s, drop_atol=atol)
            except BaseException as ex:
                ctx.violation(f"{s}: fill with drop_atol={atol} of a consistent sufficient table raised {ex!r}", case, {"system": s, "clause": "raises", "exc": type(ex).__name__})
                continue
            exp = {SYMS[n]: [float(r[n]) for r in rows] for n in range(21) if mx[n] > atol}
            got = {c: out[c].to_numpy(dtype=float).tolist() for c in out.columns}
            scale = max(mx)
            bad = None
            if set(got) != set(exp):
                bad = f"columns {sorted(set(got) ^ set(exp))} present/absent wrongly"
            else:
                for c in exp:
                    if not numpy.allclose(got[c], exp[c], rtol=0, atol=1e-9 * scale):
                        bad = f"{c} = {got[c]} expected {exp[c]}"
                        break
            if bad:
                ctx.violation(f"{s}: fill with drop_atol={atol} from {case['supplied']} -> {bad}", {**case, "got": got, "expected": exp}, {"system": s, "clause": "fill_value_drop_atol"})


def elast_data_path(ctx, exports, suff, rng):
    """apply_symetry_on_elast_data on parsed static tables."""
    from collections import OrderedDict
    from cij.io.traditional.elast_dat import ElastData, ElastVolumeData, apply_symetry_on_elast_data
    from cij.util import c_
    for s in fillspec.SYSTEMS:
        if s == "triclinic":
            continue
        e = exports[s]
        tensors = [[Fraction(x[0], x[1]) for x in t] for t in e["tensors"]]
        sym = {"system": s}                                   # ONE settings dictionary for every table of this system, as a batch run has it
        order = sorted(suff[s], key=len)
        for use, S in enumerate([order[0], order[min(1, len(order) - 1)], order[0]]):
            vols = [ElastVolumeData(100.0 - 5 * i, OrderedDict((c_(SYMS[n - 1][1:]), float(t[n - 1])) for n in sorted(S))) for i, t in enumerate(tensors)]
            data = ElastData(100.0, 3, 50.0, vols, [])
            ctx.count({"system": s, "path": "elast_data", "use_of_the_settings": use + 1, "supplied": len(S)})
            try:
                apply_symetry_on_elast_data(data, sym)
            except BaseException as ex:
                ctx.violation(f"{s}: apply_symetry_on_elast_data raised {ex!r} (use {use + 1} of one settings dictionary)", {"system": s}, {"system": s, "clause": "elast_data_raises"})
                break
            bad = False
            for i, t in enumerate(tensors):
                exp = {c_(SYMS[n][1:]): float(t[n]) for n in range(21) if any(tt[n] != 0 for tt in tensors)}
                got = dict(data.volumes[i].static_elastic_modulus)
                if set(got) != set(exp) or any(not abs(got[k] - exp[k]) <= 1e-9 * 100 for k in exp) or data.volumes[i].volume != 100.0 - 5 * i:
                    ctx.violation(f"{s}: apply_symetry_on_elast_data row {i} differs from the invariant tensor (use {use + 1} of one settings dictionary)",
                                  {"system": s, "use": use + 1, "got": {str(k): v for k, v in got.items()}}, {"system": s, "clause": "elast_data_value"})
                    bad = True
                    break
            if bad:
                break
