"""X05 (supplementary, not a listed property) -- `cij plot`: what a picture of an output table shows is decided by the file name.

Model (spec/QuickPlot.tla, on top of Writer.tla): file names are formed as results_writer.py forms them and searched as
cij/plot/quick.py searches them (regular-expression search with the writer's patterns, first rule in file order), on TLC's strings.
Invariants over all 810 (keyword, base, component, directory) states: the name is well formed, the search recovers rule, base and
component (RoundTrip), no other rule's pattern occurs in the name (Unambiguous), curves are isotherms against P (tp) or V (tv) with
the documented unit of the quantity (Axes).
Binding (R): every state TLC prints is replayed through cij.plot.quick: _guess_unit / PlotUnits.guess on the name, and (a sample)
plot_table on a real table of that name, with the axis labels, legend and curves read off the figure before it is saved.
"""
import os
from pathlib import Path

import numpy

from cv.core import MachineryError
from cv.tlaparse import printed_values
from cv.tlc import run_tlc, must_ok

LEVEL = "model_checking"
UNIT_TEXT = {"A^3": "Å^3", "GPa": "GPa", "K": "K"}            # the specification writes the angstrom sign as 'A'
ZUNIT = {"GPa": "GPa", "km/s": "km/s", "ang3": "angstrom^3"}   # Writer.tla's unit tokens as the rules file spells them


def main(ctx, replay=None):
    import matplotlib
    matplotlib.use("Agg")
    from matplotlib import pyplot as plt
    import yaml
    import cij.plot.quick as quick
    from cij.data import get_data_fname
    rng = numpy.random.default_rng(ctx.seed + 5005)
    res = must_ok(run_tlc("QuickPlot", "QuickPlot.cfg", ctx.subdir("tlc"), workers=1, timeout=900))
    ctx.add_tlc(res)
    table = printed_values(res.out, "PIC")
    table = sorted({tuple(r) for r in table})
    if len(table) != 312 or res.distinct != 810:
        raise MachineryError(f"{len(table)} file names from {res.distinct} states instead of 312 from 810")
    ctx.cov["exhaustive"] = True
    ctx.cov["rule"] = ("every file name `cij run` can write (35 keywords x 2 bases x 21 components for the two tensor keywords x 3 directory prefixes = 810 "
                       "states, 312 different names, enumerated by TLC) through quick._guess_unit / PlotUnits.guess; 60 (quick) / all (thorough) of them also through plot_table on a real "
                       "table; distinct by name; all non-trivial")
    ctx.assumptions += ["supplementary model: not one of the listed properties",
                        "the quantity's axis text is the rule's description in writer_rules.yml (read by the harness: data, not behaviour)"]
    rules = yaml.safe_load(Path(get_data_fname("output/writer_rules.yml")).read_text())
    by_pat = {r["fname_pattern"]: r for r in rules}
    # ---- the search
    for _, name, rule, base, ij, xsym, xunit, cunit, zunit in table:
        case = {"name": name, "rule": rule, "base": base, "ij": ij}
        ctx.count(case)
        sig = {"rule": int(rule)}
        try:
            r, key, b = quick._guess_unit(name)
            u = quick.PlotUnits.guess(name)
        except Exception as ex:                                    # noqa: BLE001
            ctx.violation(f"cij.plot.quick cannot tell what {name!r} holds: {ex!r}", case, {**sig, "clause": "raises"})
            continue
        if b != base:
            ctx.violation(f"{name!r}: base recovered as {b!r}, the writer used {base!r}", case, {**sig, "clause": "base"})
            continue
        want_rule = [x for x in rules if x["fname_pattern"].format(ij=ij, base=base) == os.path.basename(name)]
        if len(want_rule) != 1 or r["fname_pattern"] != want_rule[0]["fname_pattern"]:
            ctx.violation(f"{name!r}: taken for a file of the rule {r['fname_pattern']!r}", case, {**sig, "clause": "rule"})
            continue
        got = (u.x_label, u.x_unit, u.y_unit, u.z_unit, u.z_label)
        want = (xsym, UNIT_TEXT[xunit], UNIT_TEXT[cunit], ZUNIT[zunit], by_pat[r["fname_pattern"]]["description"])
        if got != want:
            ctx.violation(f"{name!r}: axes (x label, x unit, curve unit, quantity unit, quantity) {got}, the specification has {want}", case, {**sig, "clause": "axes"})
    # ---- the picture
    n = len(table) if ctx.tier == "thorough" else 60
    picks = [table[int(i)] for i in rng.permutation(len(table))[:n]]
    work = ctx.subdir("plots")
    here = os.getcwd()
    os.chdir(work)
    captured = {}
    real_savefig = plt.savefig

    def fake_savefig(fname, *a, **k):
        ax = plt.gca()
        leg = ax.get_legend()
        captured.update(fname=str(fname), xlabel=ax.get_xlabel(), ylabel=ax.get_ylabel(),
                        legend=[t.get_text() for t in leg.get_texts()] if leg else [],
                        lines=[(numpy.asarray(l.get_xdata(), dtype=float), numpy.asarray(l.get_ydata(), dtype=float)) for l in ax.get_lines()],
                        xlim=tuple(ax.get_xlim()))
    try:
        plt.savefig = fake_savefig
        quick.plt.savefig = fake_savefig
        for _, name, rule, base, ij, xsym, xunit, cunit, zunit in picks:
            nt, nx = int(rng.integers(2, 5)), int(rng.integers(2, 6))
            tv = 300.0 * numpy.arange(nt) + float(rng.choice([0.0, 300.0]))
            xv = numpy.sort(rng.uniform(0.0, 150.0, nx)) if base == "tp" else numpy.sort(rng.uniform(300.0, 900.0, nx))[::-1]
            z = rng.uniform(1.0, 500.0, (nt, nx))
            f = work / name
            f.parent.mkdir(parents=True, exist_ok=True)
            head = "%16s" % ("T(K)\\P(GPa)" if base == "tp" else "T(K)\\V(A^3)")
            with open(f, "w") as fp:
                fp.write(head + "".join("%16.6f" % x for x in xv) + "\n")
                for i in range(nt):
                    fp.write("%16.6f" % tv[i] + "".join("%16.8e" % v for v in z[i]) + "\n")
            zr = numpy.loadtxt(f, skiprows=1)[:, 1:].reshape(nt, nx)
            xr = numpy.array([float(x) for x in f.read_text().splitlines()[0].split()[1:]])
            case = {"plot": name, "nt": nt, "nx": nx}
            ctx.count(case)
            sig = {"rule": int(rule)}
            captured.clear()
            try:
                quick.plot_table(str(name))
            except Exception as ex:                                # noqa: BLE001
                ctx.violation(f"plot_table({name!r}) raised {ex!r}", case, {**sig, "clause": "plot_raises"})
                continue
            finally:
                plt.close("all")
            desc = by_pat[[x for x in rules if x["fname_pattern"].format(ij=ij, base=base) == os.path.basename(name)][0]["fname_pattern"]]["description"]
            want_x = f"{xsym} ({UNIT_TEXT[xunit]})"
            want_y = f"{desc} ({ZUNIT[zunit]})"
            if not captured:
                ctx.violation(f"plot_table({name!r}) saved no figure", case, {**sig, "clause": "no_figure"})
                continue
            if captured["fname"] != Path(name).stem + ".png":
                ctx.violation(f"plot_table({name!r}) saved {captured['fname']!r}, documented: the stem of the table with .png in the working directory", case,
                              {**sig, "clause": "picture_name"})
            if (captured["xlabel"], captured["ylabel"]) != (want_x, want_y):
                ctx.violation(f"plot_table({name!r}): axis labels {captured['xlabel']!r} / {captured['ylabel']!r}, the specification has {want_x!r} / {want_y!r}",
                              case, {**sig, "clause": "labels"})
                continue
            lines = captured["lines"]
            ok = len(lines) == nt and all(lx.shape == (nx,) and numpy.allclose(lx, xr, rtol=1e-12, atol=0) and numpy.allclose(ly, zr[i], rtol=1e-12, atol=0)
                                          for i, (lx, ly) in enumerate(lines))
            if not ok:
                ctx.violation(f"plot_table({name!r}): the curves are not the {nt} table rows against the {nx} column labels", case, {**sig, "clause": "curves"})
                continue
            want_leg = ["%.0f %s" % (t, UNIT_TEXT[cunit]) for t in tv]
            if captured["legend"] != want_leg:
                ctx.violation(f"plot_table({name!r}): legend {captured['legend']}, one isotherm per row expected: {want_leg}", case, {**sig, "clause": "legend"})
    finally:
        plt.savefig = real_savefig
        quick.plt.savefig = real_savefig
        os.chdir(here)
    ctx.sample({"case": [str(x) for x in picks[0][1:]]})
