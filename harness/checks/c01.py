"""C01 -- thermal c11..c33, c12, c13, c23 are strain derivatives of the QHA free energy.

Model level (spec/C01.tla, Thermo.tla, Poly.tla): TLC decides the identities CLong(F)=Impl, A/(15eiej)=Impl for the
zero-point and thermal parts as equalities of normal forms, the aggregation theorem, and explores the lazily evaluated
contribution object (all read orders).  Binding: the exported normal forms are evaluated at float atoms and compared with
the real classes on duck-typed calculators (R); TLC-simulated read orders are replayed on real objects (R).
"""
import warnings

import numpy

from cv import consts
from cv.core import MachineryError
from cv.duck import DuckCalc, draw_case, draw_fractions, summary, twin_cases
from cv.polyeval import close
from cv.thermo_oracle import ThermoOracle
from cv.tlc import run_tlc, must_ok
from cv.tlaparse import printed_values

LEVEL = "model_checking"
RTOL = consts.CONST_RTOL

ATTR = {"prefactors": "prefactors", "mode_gamma": "mode_gamma", "Q": "Q", "Q1": "Q1", "Q2": "Q2",
        "zp": "zero_point_contribution", "th": "thermal_contribution", "iso": "value_isothermal",
        "gap": "isothermal_to_adiabatic", "adi": "value_adiabatic"}


def make_obj(kind, duck, ei, ej):
    from cij.core.phonon_contribution.nonshear import (LongitudinalElasticModulusPhononContribution as L,
                                                       OffDiagonalElasticModulusPhononContribution as O)
    return (L if kind == "long" else O)(duck, (ei, ej))


def read(obj, name):
    with warnings.catch_warnings(), numpy.errstate(all="ignore"):
        warnings.simplefilter("ignore")
        return getattr(obj, ATTR[name])


def worst(impl, spec, scale):
    impl = numpy.asarray(impl, dtype=float)
    with numpy.errstate(all="ignore"):
        err = numpy.abs(impl - spec) / numpy.where(scale > 0, scale, 1.0)
    impl = numpy.broadcast_to(impl, err.shape)
    if not numpy.all(numpy.isfinite(impl)):
        idx = numpy.argwhere(~numpy.isfinite(impl))[0]
    else:
        idx = numpy.unravel_index(numpy.nanargmax(err), err.shape)
    idx = tuple(int(i) for i in idx)
    if len(idx) == 1:
        idx = (0,) + idx
        impl, err = impl[None, :], err[None, :]
    return idx, float(impl[idx]), float(numpy.broadcast_to(spec, err.shape)[idx])


def compare(ctx, pid_clause, kind, case, ei, ej, exp, names, obj=None, extra=None):
    """Compare members `names` of one contribution object with the TLC-derived expectation."""
    duck = DuckCalc(case)
    obj = obj or make_obj(kind, duck, ei, ej)
    nviol = 0
    for nm in names:
        val = read(obj, nm)
        if nm == "gapdiff":
            continue
        spec, scale = exp[nm]
        if numpy.iscomplexobj(val) or not numpy.issubdtype(numpy.asarray(val).dtype, numpy.floating):
            ctx.violation(f"{kind}.{ATTR[nm]} is not a real floating array ({numpy.asarray(val).dtype})",
                          {"case": summary(case), "kind": kind}, {"clause": nm, "kind": kind, "what": "dtype"})
            nviol += 1
            continue
        ok = close(val, spec, scale, RTOL, atol=1e-300)
        if not numpy.all(ok):
            idx, got, want = worst(val, spec, scale)
            t = float(case["t"][idx[0]])
            lowt = bool(0 < t <= 10.0 and not numpy.isfinite(got))
            ctx.violation(
                f"{kind}.{ATTR[nm]}[T={t:g} K, iv={idx[1]}] = {got!r}, specification gives {want!r} "
                f"(nq={case['nq']}, N={case['na']})",
                {"case": {k: v for k, v in case.items()}, "kind": kind, "ei": ei, "ej": ej, "member": nm,
                 "index": idx, "observed": got, "expected": want, **(extra or {})},
                {"clause": nm, "kind": kind, "nonfinite_low_T": lowt})
            nviol += 1
    return obj, nviol


def assembled(ctx, oracle, cases, rng, members, pid):
    """The same identity where users meet it: the six non-shear components as the package's task list assembles them from AXIAL STRAINS
    (not yet fractions): all ones (a static table without lattice block), fractions, and rows multiplied by positive factors.  The strain
    fractions of the statement are e_i = s_i / (s_1 + s_2 + s_3) at every volume."""
    from cij.core.tasks import PhononContributionTaskList
    from cij.util import c_
    keys = [(1, 1), (2, 2), (3, 3), (1, 2), (1, 3), (2, 3)]
    picks = list(range(0, len(cases), max(1, len(cases) // (16 if len(cases) <= 80 else 80))))
    for n, ci in enumerate(picks):
        case = cases[ci]
        ntv = len(case["v"])
        e = draw_fractions(rng, ntv)
        form = ("ones", "fractions", "scaled_rows", "near_equal")[n % 4]
        raw = numpy.ones((ntv, 3)) if form == "ones" else e if form == "fractions" else e * rng.uniform(0.3, 5.0, (ntv, 1))
        if form == "near_equal":
            # two axes whose strains differ by 2e-5 .. 1e-3 relative (a pseudo-tetragonal cell): different numbers - each component gets its
            # own e_i.  Every other time the fractions do not change along the volume grid (self-similar compression), so that the
            # two columns are equally close at EVERY volume; the separations walk down a ladder that ends just above what the task
            # equality (numpy.allclose, rtol 1e-5) regards as equal.
            raw = e.copy()
            rung = (2e-5, 5e-5, 2e-4, 1e-3)[(n // 4) % 4]
            if (n // 4) % 2 == 0 or ntv < 2:
                raw = numpy.tile(e[0], (ntv, 1))
                raw[:, 1] = raw[:, 0] * (1.0 + rung)
            else:
                raw[:, 1] = raw[:, 0] * (1.0 + rung * rng.uniform(1.0, 1.5, ntv))
        frac = raw / raw.sum(axis=1, keepdims=True)
        ctx.count({"assembled": ci, "strain_form": form, "h": float(case["freq"].sum())})
        duck = DuckCalc(case)
        try:
            with warnings.catch_warnings(), numpy.errstate(all="ignore"):
                warnings.simplefilter("ignore")
                tl = PhononContributionTaskList(duck)
                tl.resolve(raw.copy(), [c_(*k) for k in keys])
                tl.calculate()
                iso, adi = tl.get_isothermal_results(), tl.get_adiabatic_results()
        except Exception as ex:
            ctx.violation(f"task list on axial strains given as {form} raised {ex!r}", {"case": summary(case), "form": form}, {"clause": "assembled_raises", "form": form})
            continue
        for (i, j) in keys:
            kind = "long" if i == j else "offd"
            exp = oracle.expected(kind, case, frac[:, i - 1], frac[:, j - 1])
            for nm in members:
                if nm == "iso":
                    val, (spec, scale) = numpy.asarray(iso[c_(i, j)], dtype=float), exp["iso"]
                else:                                   # "gap": adiabatic - isothermal of the assembled components
                    val, (spec, scale) = numpy.asarray(adi[c_(i, j)], dtype=float) - numpy.asarray(iso[c_(i, j)], dtype=float), exp["gap"]
                    # (a difference of two published numbers: their rounding, 64 ulp of each, is part of the allowance - it is not relative to the gap)
                    scale = scale + 64 * numpy.finfo(float).eps / RTOL * (numpy.abs(numpy.asarray(iso[c_(i, j)], dtype=float)) + numpy.abs(numpy.asarray(adi[c_(i, j)], dtype=float)))
                ok = close(val, spec, scale, RTOL, atol=1e-300)
                if not numpy.all(ok):
                    idx, got, want = worst(val, spec, scale)
                    ctx.violation(f"assembled c{i}{j} ({'isothermal' if nm == 'iso' else 'adiabatic - isothermal'}) from axial strains given as {form}: "
                                  f"[T={float(case['t'][idx[0]]):g} K, iv={idx[1]}] = {got!r}, the specification with e = s/sum(s) gives {want!r}",
                                  {"case": case, "raw_strain": raw, "key": [i, j], "form": form}, {"clause": "assembled_" + nm, "form": form, "kind": kind})
                    break


def behaviours(ctx, n, seed):
    """TLC -simulate on the object machine -> list of (kind, reads, cache-after-each-read)."""
    res = must_ok(run_tlc("C01", "C01_sim.cfg", ctx.subdir("tlc_sim"), workers=1, simulate=f"num={n}", depth=8,
                          seed=seed, timeout=300))
    steps = {}
    for _, kind, hist, cache in printed_values(res.out, "STEP"):
        steps[(kind, tuple(hist))] = sorted(cache)
    full = [(k, h) for (k, h) in steps if len(h) == max(len(x[1]) for x in steps)]
    return full, steps


def main(ctx, replay=None):
    rng = numpy.random.default_rng(ctx.seed + 101)
    ncases = 40 if ctx.tier == "quick" else 1200
    cases = [draw_case(rng) for _ in range(ncases)]
    # make sure the corners of the quantifier are present
    cases[0] = draw_case(rng, nq=1, nat=1)
    cases[1] = draw_case(rng, nq=8, nat=10)
    cases[2] = draw_case(rng, nq=2, nat=2, gamma_zero=False)
    twin_cases(rng, cases)
    oracle = ThermoOracle(ctx, [(c["nq"], c["na"]) for c in cases])
    ctx.cov["rule"] = ("random spectra within the property's quantifier (1-8 q-points, N=1-10, 30-1500 cm^-1, arbitrary gamma and "
                       "V dgamma/dV, positive weights, T grids with 0 and down to 0.5 K, strain fractions in (0.05,0.9)); a case is "
                       "(spectrum, class, strain pair); distinct by content hash; all non-trivial.  Expected values: TLC normal forms.")
    ctx.assumptions += ["the four differentiation rules of Thermo.tla (calculus facts)", "float evaluation of expm1",
                        "CODATA literals in cv/consts.py (rtol 1e-7)"]
    prev = None
    for ci, case in enumerate(cases):
        e = draw_fractions(rng, len(case["v"]))
        i, j = rng.choice(3, size=2, replace=False)
        if case.get("twin") and prev is not None and len(prev[0]) == len(case["v"]):
            e, i, j = prev                      # a twin keeps the strain fractions of its base too: same cell shape, another material
        prev = (e, i, j)
        for kind, ei, ej in (("long", e[:, i], e[:, i]), ("offd", e[:, i], e[:, j])):
            ctx.count({"c": ci, "k": kind, "seed": ctx.seed, "h": float(case["freq"].sum())})
            exp = oracle.expected(kind, case, ei, ej)
            obj, _ = compare(ctx, "C01", kind, case, ei, ej, exp, ["zp", "th", "iso"])
            if kind == "offd":
                # the pressure term is exactly the supplied total minus the supplied static pressure
                with numpy.errstate(all="ignore"):
                    resid = read(obj, "iso") - read(obj, "zp") - read(obj, "th")
                pin = case["ptot"] - case["pst"][None, :]
                tol = 8 * numpy.finfo(float).eps * (numpy.abs(read(obj, "zp")) + numpy.abs(read(obj, "th"))
                                                    + numpy.abs(case["ptot"]) + numpy.abs(case["pst"][None, :]))
                bad = ~(numpy.abs(resid - pin) <= tol)
                if numpy.any(bad):
                    idx = tuple(int(x) for x in numpy.argwhere(bad)[0])
                    ctx.violation(f"off-diagonal pressure term is {resid[idx]!r}, supplied P_total-P_static is {pin[idx]!r}",
                                  {"case": case, "ei": ei, "ej": ej, "index": idx}, {"clause": "pressure_term", "kind": kind})
        if ci < 2:
            ctx.sample({"case": summary(case), "strain_pair": [int(i), int(j)]})

    assembled(ctx, oracle, cases, rng, ("iso",), "C01")
    replay_behaviours(ctx, oracle, cases, rng, ("zp", "th", "iso"), check_cache=True)


def replay_behaviours(ctx, oracle, cases, rng, members, check_cache):
    """Read orders simulated by TLC on the object machine of C01.tla, replayed on the real classes."""
    nb = 30 if ctx.tier == "quick" else 400
    full, steps = behaviours(ctx, nb, ctx.seed + 7)
    if not full:
        raise MachineryError("no behaviours from the simulator")
    lazy_names = set(ATTR) - {"adi"}
    for bi, (kind, hist) in enumerate(full):
        case = cases[bi % len(cases)]
        e = draw_fractions(rng, len(case["v"]))
        ei, ej = (e[:, 0], e[:, 0]) if kind == "long" else (e[:, 0], e[:, 2])
        exp = oracle.expected(kind, case, ei, ej)
        obj = make_obj(kind, DuckCalc(case), ei, ej)
        ctx.count({"behaviour": [kind, list(hist)]})
        for k, nm in enumerate(hist):
            if nm in members:
                compare(ctx, ctx.pid, kind, case, ei, ej, exp, [nm], obj=obj, extra={"reads": list(hist[:k + 1])})
            else:
                read(obj, nm)
            # (WHICH intermediate results the object keeps after a read is the model's bookkeeping, not a clause of the property: a first
            #  version compared it with the private attributes of the `lazy_property` package and raised a false alarm on a refactor
            #  to functools.cached_property.  What is bound is what the property states: every value, whatever was read before.)
    ctx.sample({"behaviour": [full[0][0], list(full[0][1])]})
    ctx.cov["behaviours_replayed"] = len(full)
