"""X04 (supplementary, not a listed property) -- cij/plot/plotter.py: which line of which table the plotter draws, in which units.

Model (spec/Plotter.tla, on top of Extract.tla): the curve is a line of the ADIABATIC tensor of the PRESSURE base for the requested
component, along the grid line nearest to the requested temperature (against pressure) or pressure (against temperature) - the same
nearest-line rule as `cij extract` -, complete and in grid order, moduli and pressures in GPa, temperatures in K.
Binding (R): every case TLC enumerates (17 k; a sample in the quick tier) is replayed through Plotter.index_t / index_p /
plot_cij_p_with / plot_cij_t_with / plot_cij_p on a calculator stand-in whose tables encode (base, tensor, key, iT, iP) in their values.
"""
from types import SimpleNamespace

import numpy

from cv import consts
from cv.core import MachineryError
from cv.tlaparse import printed_values
from cv.tlc import run_tlc, must_ok

LEVEL = "model_checking"
G = consts.RY_BOHR3_TO_GPA
KEYS = {"11": (1, 1), "12": (1, 2), "44": (4, 4), "15": (1, 5)}


def code(base, tensor, k, it, ip):
    """one number per (base, tensor, key, row, column): GPa values, distinct in the third decimal"""
    return 1000.0 * (1 + ["pressure_base", "volume_base"].index(base)) + 100.0 * (1 + ["adiabatic", "isothermal"].index(tensor)) \
        + 10.0 * list(KEYS).index(k) + 0.5 * it + 0.01 * ip


def main(ctx, replay=None):
    from cij.plot.plotter import Plotter
    from cij.util import c_
    rng = numpy.random.default_rng(ctx.seed + 4004)
    res = must_ok(run_tlc("Plotter", "Plotter.cfg", ctx.subdir("tlc"), workers=1, timeout=600))
    ctx.add_tlc(res)
    table = printed_values(res.out, "PLOT")
    if len(table) < 5000:
        raise MachineryError(f"only {len(table)} plot cases")
    ctx.cov["exhaustive"] = ctx.tier == "thorough"
    ctx.cov["rule"] = ("plot cases enumerated by TLC (grids of 2-4 nodes with spacings 1/2/5, tie-free requests, both orientations, four component "
                       "classes): all in the thorough tier, a random 600 in the quick tier; distinct by content; all non-trivial")
    ctx.assumptions += ["requests with two equally near grid lines are not generated", "supplementary model: not one of the listed properties",
                        "unit factor Ry/bohr^3 -> GPa of cv/consts.py (rtol 1e-7)"]
    n = len(table) if ctx.tier == "thorough" else 600
    picks = [table[int(i)] for i in rng.permutation(len(table))[:n]]
    for _, kind, tg, pg, want, key, near in picks:
        t0 = 0.0 if rng.random() < 0.5 else 300.0
        tu = float(rng.choice([50.0, 12.5, 0.25]))
        p0 = float(rng.choice([0.0, -2.5, 10.0]))
        tv = numpy.array([t0 + tu * x for x in tg])
        pv = numpy.array([p0 + 2.5 * x for x in pg])                      # GPa
        nt, npp = len(tv), len(pv)

        def tens(base, tensor):
            return {c_(*KEYS[k]): numpy.array([[code(base, tensor, k, i + 1, j + 1) for j in range(npp)] for i in range(nt)]) / G for k in KEYS}
        pb = SimpleNamespace(t_array=tv, p_array=pv / G, modulus_adiabatic=tens("pressure_base", "adiabatic"), modulus_isothermal=tens("pressure_base", "isothermal"))
        vb = SimpleNamespace(t_array=tv, v_array=numpy.linspace(900.0, 700.0, npp), modulus_adiabatic=tens("volume_base", "adiabatic"),
                             modulus_isothermal=tens("volume_base", "isothermal"))
        calc = SimpleNamespace(pressure_base=pb, volume_base=vb, modulus_adiabatic=vb.modulus_adiabatic, modulus_isothermal=vb.modulus_isothermal,
                               qha_calculator=SimpleNamespace(pressure_base=SimpleNamespace(volumes=numpy.ones((nt, npp)))), qha_input=SimpleNamespace(volumes=[]))
        case = {"kind": kind, "tg": list(tg), "pg": list(pg), "want": want, "key": key, "t0": t0, "tu": tu, "p0": p0}
        ctx.count(case)
        sig = {"kind": kind}
        got = {}
        try:
            pl = Plotter(calc)
            if kind == "cij_p":
                t = t0 + tu * want
                idx = int(pl.index_t(t))
                got["with"] = pl.plot_cij_p_with(lambda x, y: (numpy.asarray(x, dtype=float), numpy.asarray(y, dtype=float)), int(key), t)
                import matplotlib
                matplotlib.use("Agg")
                from matplotlib.figure import Figure
                ax = Figure().subplots()
                line = pl.plot_cij_p(ax, int(key), t)
                got["ax"] = (numpy.asarray(line.get_xdata(), dtype=float), numpy.asarray(line.get_ydata(), dtype=float))
                wantx = pv
                wanty = numpy.array([code("pressure_base", "adiabatic", key, near, j + 1) for j in range(npp)])
            else:
                p = p0 + 2.5 * want
                idx = int(pl.index_p(p / G))
                got["with"] = pl.plot_cij_t_with(lambda x, y: (numpy.asarray(x, dtype=float), numpy.asarray(y, dtype=float)), int(key), p)
                wantx = tv
                wanty = numpy.array([code("pressure_base", "adiabatic", key, i + 1, near) for i in range(nt)])
        except Exception as ex:                                    # noqa: BLE001
            ctx.violation(f"plotter {kind} raised {ex!r} for {case}", case, {**sig, "clause": "raises"})
            continue
        if idx != near - 1:
            ctx.violation(f"plotter index for the request {want} on the grid {list(tg if kind == 'cij_p' else pg)} is {idx + 1}, the nearest grid line is {near}",
                          case, {**sig, "clause": "nearest"})
            continue
        for how, (x, y) in got.items():
            if x.shape != wantx.shape or y.shape != wanty.shape or not numpy.allclose(x, wantx, rtol=1e-7, atol=1e-9) or not numpy.allclose(y, wanty, rtol=1e-7, atol=0):
                ctx.violation(f"plotter {kind} ({how}): the curve handed over is not the line {near} of the adiabatic pressure-base c{key} in GPa against "
                              f"{'pressure in GPa' if kind == 'cij_p' else 'temperature in K'} (first points x={x[:2].tolist()} y={y[:2].tolist()}, "
                              f"expected x={wantx[:2].tolist()} y={wanty[:2].tolist()})", case, {**sig, "clause": "curve", "how": how})
                break
    ctx.sample({"case": [str(x) for x in picks[0][1:]]})
