"""C02 -- adiabatic - isothermal gap = T V (dP/dT)^2 / (9 ei ej Cv); zero for shear components and at T = 0.

Model level: spec/C01.tla (T_dPdT, T_Gap, T_GapSquare, T_GapVanish; the object machine's `gap`/`adi` members) and
spec/C04.tla (shear tasks: adi = iso, dependencies read from the isothermal store only).  Binding: exported normal forms
replayed on the real classes; shear identity on the real solver and through the real scheduler.
"""
import numpy

from cv.core import MachineryError
from cv.duck import DuckCalc, draw_case, draw_fractions, summary, twin_cases
from cv.thermo_oracle import ThermoOracle
from checks.c01 import assembled, compare, make_obj, read, replay_behaviours

LEVEL = "model_checking"


def main(ctx, replay=None):
    rng = numpy.random.default_rng(ctx.seed + 202)
    ncases = 40 if ctx.tier == "quick" else 1200
    cases = [draw_case(rng) for _ in range(ncases)]
    cases[0] = draw_case(rng, nq=1, nat=2)
    cases[1] = draw_case(rng, nq=8, nat=10)
    twin_cases(rng, cases)
    oracle = ThermoOracle(ctx, [(c["nq"], c["na"]) for c in cases])
    ctx.cov["rule"] = ("random spectra as in C01 with arbitrary positive heat-capacity fields; a case is (spectrum, class, strain "
                       "pair); plus all 15 shear keys x strain fields for adi==iso; expected values from TLC normal forms")
    ctx.assumptions += ["differentiation rules of Thermo.tla", "float evaluation of expm1", "CODATA literals (rtol 1e-7)"]
    prev = None
    for ci, case in enumerate(cases):
        e = draw_fractions(rng, len(case["v"]))
        i, j = rng.choice(3, size=2, replace=False)
        if case.get("twin") and prev is not None and len(prev[0]) == len(case["v"]):
            e, i, j = prev                      # a twin keeps the strain fractions of its base too: same cell shape, another material
        prev = (e, i, j)
        for kind, ei, ej in (("long", e[:, i], e[:, i]), ("offd", e[:, i], e[:, j])):
            ctx.count({"c": ci, "k": kind, "seed": ctx.seed, "h": float(case["freq"].sum())})
            exp = oracle.expected(kind, case, ei, ej)
            obj, nv = compare(ctx, "C02", kind, case, ei, ej, exp, ["gap", "adi"])
            with numpy.errstate(all="ignore"):
                diff = read(obj, "adi") - read(obj, "iso")
            spec, scale = exp["gap"]
            tol = 1e-7 * scale + 64 * numpy.finfo(float).eps * (numpy.abs(read(obj, "iso")) + numpy.abs(read(obj, "adi")))
            bad = ~(numpy.abs(diff - spec) <= tol)
            if numpy.any(bad):
                idx = tuple(int(x) for x in numpy.argwhere(bad)[0])
                ctx.violation(f"{kind}: adiabatic-isothermal = {diff[idx]!r} at T={case['t'][idx[0]]:g}, specification {spec[idx]!r}",
                              {"case": case, "ei": ei, "ej": ej, "index": idx}, {"clause": "adi_minus_iso", "kind": kind})
            z = case["t"] == 0
            if numpy.any(z) and not numpy.all(diff[z, :] == 0):
                ctx.violation(f"{kind}: gap at T=0 is {diff[z, :].ravel()[:3]}, must be exactly 0", {"case": case},
                              {"clause": "zero_at_T0", "kind": kind})
            if kind == "long" and nv == 0 and numpy.any(diff < 0):
                ctx.violation("diagonal gap negative with C_V > 0", {"case": case, "ei": ei}, {"clause": "nonneg", "kind": kind})
        if ci < 2:
            ctx.sample({"case": summary(case), "cv_min": float(case["cv"].min())})
    assembled(ctx, oracle, cases, rng, ("gap",), "C02")
    replay_behaviours(ctx, oracle, cases, rng, ("gap", "adi"), check_cache=False)
    shear_identity(ctx, rng)
    scheduler_identity(ctx, rng, cases)
    end_to_end(ctx, rng)


def shear_identity(ctx, rng):
    """value_adiabatic is value_isothermal for every component carrying a Voigt index 4-6 (class level)."""
    from cij.util import c_
    from cij.core.phonon_contribution.shear import ShearElasticModulusPhononContribution as S
    n = 0
    for I in range(1, 7):
        for J in range(I, 7):
            if I < 4 and J < 4:
                continue
            key = c_(I, J)
            e = draw_fractions(rng, 3)
            s = S(e, key)
            shape = (4, 3)
            try:
                s.modulus = {k: rng.normal(size=shape) for k in s.get_modulus_keys()}
                s.modulus_rotated = {k: rng.normal(size=shape) for k in s.get_modulus_keys_rotated()}
                iso, adi = s.value_isothermal, s.value_adiabatic
            except Exception as ex:
                ctx.violation(f"shear solver for c{I}{J} raised {ex!r}", {"key": [I, J]}, {"clause": "shear_runs", "exc": type(ex).__name__})
                continue
            ctx.count({"shear_key": [I, J]})
            n += 1
            if not (numpy.shape(iso) == numpy.shape(adi) and numpy.array_equal(numpy.asarray(iso), numpy.asarray(adi))):
                ctx.violation(f"c{I}{J}: adiabatic differs from isothermal", {"key": [I, J]}, {"clause": "shear_adi_eq_iso"})
    ctx.cov["shear_keys_checked"] = n


def scheduler_identity(ctx, rng, cases):
    """Through the real scheduler: shear tasks read isothermal dependencies only and store adi == iso (trace-validated)."""
    from cij.util import c_
    from cv import sched
    from cv.schedtrace import record
    from cv.trace import validate_trace
    inst = sched.load_instances(ctx, scenarios=("generic",))["generic"]
    keys = [c_(I, J) for I in range(1, 7) for J in range(I, 7)]
    nruns = 2 if ctx.tier == "quick" else 12
    records = []
    for r in range(nruns):
        case = cases[(r * 7) % len(cases)]
        ntv = len(case["v"])
        while True:
            e = draw_fractions(rng, ntv)
            if min(numpy.min(numpy.abs(e[:, a] - e[:, b])) for a, b in ((0, 1), (0, 2), (1, 2))) > 2e-2:
                break
        order = [keys[i] for i in rng.permutation(len(keys))]
        events, tl, (iso, adi), info = record(inst, DuckCalc(case), e, order)
        ctx.count({"scheduler_run": r, "h": float(e.sum())})
        if info["error"] is not None or iso is None:
            continue                      # a failing run is C04's business (completeness)
        for k in order:
            if k.is_shear and not numpy.array_equal(numpy.asarray(iso[k]), numpy.asarray(adi[k])):
                d = float(numpy.max(numpy.abs(numpy.asarray(iso[k]) - numpy.asarray(adi[k]))))
                ctx.violation(f"scheduler: c{k.voigt[0]}{k.voigt[1]} adiabatic differs from isothermal by {d:.3g} (unequal axial strains)",
                              {"key": list(k.voigt), "strain": e, "case": case}, {"clause": "shear_adi_eq_iso_scheduler"})
        if events is None:
            continue
        for ev in events:
            if ev["ev"] != "Eval":
                continue
            t = next(t for t in tl.data if _pid(inst, e, t) == ev["task"])
            a = tl.modulus_adiabatic_values[t.task_params]
            b = tl.modulus_isothermal_values[t.task_params]
            records.append({"task": f"{r}:{ev['task']}", "shear": ev["task"].startswith("S"),
                            "reads": [[f"{r}:{d}", st] for d, st in ev["reads"]], "same": bool(numpy.array_equal(a, b))})
    if records:
        ok, consumed, _ = validate_trace(ctx, "Trace_ShearAdi", "Trace_ShearAdi.cfg", records, name="shear_adi")
        if not ok:
            bad = records[consumed]
            ctx.violation(f"scheduler: evaluation record {bad} violates 'shear tasks read isothermal dependencies only and store adi = iso'",
                          {"record": bad, "index": consumed}, {"clause": "shear_trace"})
    if ctx.tier == "thorough" and records:
        from cv.trace import binding_control
        k = next((i for i, r in enumerate(records) if r["shear"] and r["reads"]), None)
        if k is not None:
            binding_control(ctx, "Trace_ShearAdi", "Trace_ShearAdi.cfg", records, k,
                            lambda r: dict(r, reads=[[r["reads"][0][0], "adi"]] + r["reads"][1:]), "shear_adi_neg", "read_store")
    ctx.cov["scheduler_eval_records"] = len(records)


def _pid(inst, strain, task):
    from cv.schedtrace import Projector
    key = (id(inst), strain.tobytes())
    if getattr(_pid, "_k", None) != key:
        _pid._k, _pid._p = key, Projector(inst, strain)
    return _pid._p.params(task.task_params)


def end_to_end(ctx, rng):
    """Calculator.modulus_adiabatic - modulus_isothermal on a real run: the gap formula with the heat capacity and the pressure the QHA
    layer itself holds (qha's own C_V(T,V), not a copy that passed through cij); zero for every component with an index 4-6."""
    from cij.util import c_
    from cv import fillspec, sched
    from cv.e2e import Workdir, free_dataset, full_modulus_of, oracle_case
    from cv.phonon_expect import PhononExpectation, scenario_of
    from cv.synth import run
    wd = Workdir()
    try:
        ds = free_dataset(rng, extra_shear=3, lattice=True, nq=2, nat=2, settings={"NT": 5, "DT": 300, "NTV": 8})
        ds.nm = int(rng.choice([2, 4]))               # several formula units per cell (C_V is the cell's, whatever their number)
        d = wd.sub("gap")
        try:
            ds.fit_pressure_window(d)
            calc = run(ds.write(d))
        except Exception:
            return                                       # completion is C12's business
        ctx.count({"end_to_end": True, "keys": ["%d%d" % k for k in ds.keys]})
        strains = numpy.asarray(full_modulus_of(calc).get_axial_strains(), dtype=float)
        case = oracle_case(ds, calc)
        oracle = ThermoOracle(ctx, [(ds.nq, ds.nat)])
        scen = scenario_of(strains)
        pe = PhononExpectation(oracle, sched.load_instances(ctx, scenarios=(scen,))[scen], case, strains)
        for k in ds.keys:
            gap = numpy.asarray(calc.modulus_adiabatic[c_(*k)]) - numpy.asarray(calc.modulus_isothermal[c_(*k)])
            if k[0] >= 4 or k[1] >= 4:
                if not numpy.all(gap == 0):
                    ctx.violation(f"Calculator: c{k[0]}{k[1]} adiabatic differs from isothermal by {float(numpy.nanmax(numpy.abs(gap))):.3g}",
                                  {"key": list(k)}, {"clause": "shear_adi_eq_iso_calculator"})
                continue
            iso_p, adi_p, scale_i, scale_a = pe.key(k)
            want = adi_p - iso_p
            ok = numpy.isfinite(want)
            with numpy.errstate(all="ignore"):
                err = numpy.abs(gap - want) / numpy.maximum(numpy.abs(want), 1e-12 * scale_a)
            if not numpy.all(err[ok] <= 2e-6):
                i = tuple(int(x) for x in numpy.argwhere(ok & ~(err <= 2e-6))[0])
                ctx.violation(f"Calculator: c{k[0]}{k[1]} adiabatic - isothermal at T={case['t'][i[0]]:g}, V#{i[1]} is {gap[i]!r}; "
                              f"T V (dP/dT)^2 / (9 e_i e_j C_V) with the QHA layer's C_V gives {want[i]!r}", {"key": list(k), "index": i},
                              {"clause": "gap_calculator"})
                return
    finally:
        wd.close()
