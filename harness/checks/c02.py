"""C02 -- adiabatic - isothermal gap = T V (dP/dT)^2 / (9 ei ej Cv); zero for shear components and at T = 0.

Model level: spec/C01.tla (T_dPdT, T_Gap, T_GapSquare, T_GapVanish; the object machine's `gap`/`adi` members) and
spec/C04.tla (shear tasks: adi = iso, dependencies read from the isothermal store only).  Binding: exported normal forms
replayed on the real classes; shear identity on the real solver and through the real scheduler.
"""
import numpy

from cv.core import MachineryError
from cv.duck import DuckCalc, draw_case, draw_fractions, summary
from cv.thermo_oracle import ThermoOracle
from checks.c01 import compare, make_obj, read, replay_behaviours

LEVEL = "model_checking"


def main(ctx, replay=None):
    rng = numpy.random.default_rng(ctx.seed + 202)
    ncases = 40 if ctx.tier == "quick" else 1200
    cases = [draw_case(rng) for _ in range(ncases)]
    cases[0] = draw_case(rng, nq=1, nat=2)
    cases[1] = draw_case(rng, nq=8, nat=10)
    oracle = ThermoOracle(ctx, [(c["nq"], c["na"]) for c in cases])
    ctx.cov["rule"] = ("random spectra as in C01 with arbitrary positive heat-capacity fields; a case is (spectrum, class, strain "
                       "pair); plus all 15 shear keys x strain fields for adi==iso; expected values from TLC normal forms")
    ctx.assumptions += ["differentiation rules of Thermo.tla", "float evaluation of expm1", "CODATA literals (rtol 1e-7)"]
    for ci, case in enumerate(cases):
        e = draw_fractions(rng, len(case["v"]))
        i, j = rng.choice(3, size=2, replace=False)
        for kind, ei, ej in (("long", e[:, i], e[:, i]), ("offd", e[:, i], e[:, j])):
            ctx.count({"c": ci, "k": kind, "seed": ctx.seed, "h": float(case["freq"].sum())})
            exp = oracle.expected(kind, case, ei, ej)
            obj, nv = compare(ctx, "C02", kind, case, ei, ej, exp, ["gap", "adi"])
            with numpy.errstate(all="ignore"):
                diff = read(obj, "adi") - read(obj, "iso")
            spec, scale = exp["gap"]
            tol = 1e-7 * scale + 64 * numpy.finfo(float).eps * (numpy.abs(read(obj, "iso")) + numpy.abs(read(obj, "adi")))
            bad = ~(numpy.abs(diff - spec) <= tol)
            if numpy.any(bad):
                idx = tuple(int(x) for x in numpy.argwhere(bad)[0])
                ctx.violation(f"{kind}: adiabatic-isothermal = {diff[idx]!r} at T={case['t'][idx[0]]:g}, specification {spec[idx]!r}",
                              {"case": case, "ei": ei, "ej": ej, "index": idx}, {"clause": "adi_minus_iso", "kind": kind})
            z = case["t"] == 0
            if numpy.any(z) and not numpy.all(diff[z, :] == 0):
                ctx.violation(f"{kind}: gap at T=0 is {diff[z, :].ravel()[:3]}, must be exactly 0", {"case": case},
                              {"clause": "zero_at_T0", "kind": kind})
            if kind == "long" and nv == 0 and numpy.any(diff < 0):
                ctx.violation("diagonal gap negative with C_V > 0", {"case": case, "ei": ei}, {"clause": "nonneg", "kind": kind})
        if ci < 2:
            ctx.sample({"case": summary(case), "cv_min": float(case["cv"].min())})
    replay_behaviours(ctx, oracle, cases, rng, ("gap", "adi"), check_cache=False)
    shear_identity(ctx, rng)


def shear_identity(ctx, rng):
    """value_adiabatic is value_isothermal for every component carrying a Voigt index 4-6 (class level)."""
    from cij.util import c_
    from cij.core.phonon_contribution.shear import ShearElasticModulusPhononContribution as S
    n = 0
    for I in range(1, 7):
        for J in range(I, 7):
            if I < 4 and J < 4:
                continue
            key = c_(I, J)
            e = draw_fractions(rng, 3)
            s = S(e, key)
            shape = (4, 3)
            try:
                s.modulus = {k: rng.normal(size=shape) for k in s.get_modulus_keys()}
                s.modulus_rotated = {k: rng.normal(size=shape) for k in s.get_modulus_keys_rotated()}
                iso, adi = s.value_isothermal, s.value_adiabatic
            except Exception as ex:
                ctx.violation(f"shear solver for c{I}{J} raised {ex!r}", {"key": [I, J]}, {"clause": "shear_runs", "exc": type(ex).__name__})
                continue
            ctx.count({"shear_key": [I, J]})
            n += 1
            if not (numpy.shape(iso) == numpy.shape(adi) and numpy.array_equal(numpy.asarray(iso), numpy.asarray(adi))):
                ctx.violation(f"c{I}{J}: adiabatic differs from isothermal", {"key": [I, J]}, {"clause": "shear_adi_eq_iso"})
    ctx.cov["shear_keys_checked"] = n
