"""C04 -- phonon tensor assembly: complete, request-independent, acyclic, isotropic in the limit, axis-covariant.

Model (spec/TaskScheduler.tla on the instance exported by SchedInstance.tla from ShearSolver.tla, three strain scenarios):
TLC explores every request subset/order up to a bound and EVERY pop order, checking Final (tasks = dependency closure, edges
exact), acyclicity, DepsFirst, NoStuck, Complete, IsoReadsOnly, termination; the isotropic limit is an ASSUME-theorem.
Binding: (T) hook-recorded runs of the real PhononContributionTaskList are validated event by event against the faithful
(bag) model by Trace_Sched.tla; (R) TLC-simulated request sequences are replayed on the real class and the stated relations
(completeness, request independence, topological order, isotropy, axis permutation) are checked on the numbers.
"""
import itertools

import numpy

from cv import sched
from cv.core import MachineryError
from cv.duck import DuckCalc, draw_case, draw_fractions
from cv.schedtrace import record
from cv.tlaparse import printed_values
from cv.tlc import run_tlc, must_ok
from cv.trace import validate_trace

LEVEL = "model_checking"
ALLKEYS = [(I, J) for I in range(1, 7) for J in range(I, 7)]


def base_strain(rng, scenario, ntv):
    if scenario == "isotropic":
        return numpy.ones((ntv, 3)) if rng.random() < 0.5 else numpy.full((ntv, 3), 1.0 / 3.0)
    while True:
        e = draw_fractions(rng, ntv)
        if scenario == "uniaxial":
            e[:, 1] = e[:, 0]
            e = e / e.sum(axis=1, keepdims=True)
            e[:, 1] = e[:, 0]
            if numpy.min(numpy.abs(e[:, 0] - e[:, 2])) > 2e-2:
                return e
        else:
            d = [numpy.min(numpy.abs(e[:, a] - e[:, b])) for a, b in ((0, 1), (0, 2), (1, 2))]
            if min(d) > 2e-2:
                return e


def simulate_requests(ctx, scratch, maxreq, num, seed):
    cfg = scratch / f"sim{maxreq}.cfg"
    allk = ", ".join(f'"{i}{j}"' for i, j in ALLKEYS)
    cfg.write_text(f"SPECIFICATION SchedSpec\nCONSTANTS\n  Pool = {{{allk}}}\n  MaxReq = {maxreq}\n  Faithful = FALSE\nCONSTRAINT EmitRequest\n")
    res = must_ok(run_tlc("TaskScheduler", str(cfg), scratch, workers=1, simulate=f"num={num}", depth=maxreq + 3, seed=seed, timeout=300))
    return [tuple(v[1]) for v in printed_values(res.out, "REQ")]


def relerr(a, b, scale):
    e = float(numpy.max(numpy.abs(numpy.asarray(a) - numpy.asarray(b))) / scale)
    return e if e == e else float("inf")            # a NaN never compares as close


def main(ctx, replay=None):
    from cij.util import c_
    rng = numpy.random.default_rng(ctx.seed + 404)
    insts = sched.load_instances(ctx)
    ctx.cov["rule"] = ("request sequences simulated by TLC (subset, order) x strain field (generic / e1=e2 / isotropic / two fractions 3e-4 apart / "
                       "equal at the grid ends only / rearranged along the grid) x random spectrum, every third request on a re-used task list; "
                       "plus the scheduler run of the shipped example (thorough: of the repository's own tests); a case is (field, request "
                       "sequence); non-trivial = at least one shear-type key or >=2 keys; distinct by (field, sequence).  Model: all requests "
                       "<= MaxReq keys of a 9-key pool, every pop order.")
    ctx.assumptions += ["synthetic strain fractions closer than the code's task equality (numpy.allclose, rtol 1e-5) but not identical are not generated; the "
                        "shipped akimotoite data have two fractions 6e-8 apart, which the code merges: that run is validated against the e2 = e3 instance",
                        "float comparison of values across requests (rtol 1e-9 of the tensor scale)"]

    # ---- M: exhaustive model checking per scenario ------------------------------------------------------
    mc_cfg = "Sched_mc2.cfg" if ctx.tier == "quick" else "Sched_mc3.cfg"
    scr = {}
    for sc in sched.SCENARIOS:
        scr[sc] = ctx.subdir(f"mc_{sc}")
        sched.write_data_module(insts[sc], scr[sc])
        if ctx.tier == "quick" and sc == "uniaxial":
            continue                                   # quick: generic + isotropic exhaustively; uniaxial by traces/replay
        # thorough: <= 3 requested keys exhaustively for the generic and the isotropic instance (12 M + 1 M states); the e1 = e2 instance,
        # whose <= 3-key exploration alone took 25 minutes, stays at <= 2 keys
        cfg_here = "Sched_mc2.cfg" if (ctx.tier == "thorough" and sc == "uniaxial") else mc_cfg
        res = must_ok(run_tlc("TaskScheduler", cfg_here, scr[sc], workers=16, timeout=3000, coverage=False))
        ctx.add_tlc(res)
        if res.distinct < 1000:
            raise MachineryError(f"scheduler model for {sc} explored only {res.distinct} states")

    # coarse model: every SUBSET of the pool as a state (closure exact, complete, request-independent); the fine model's
    # invariant Final is the refinement link (tasks at the end of resolve = closure of the requested roots)
    ccfg = "SchedCoarse_small.cfg" if ctx.tier == "quick" else "SchedCoarse_full.cfg"
    for sc in sched.SCENARIOS:
        res = must_ok(run_tlc("SchedCoarse", ccfg, scr[sc], workers=16, timeout=1800))
        ctx.add_tlc(res)
        if res.distinct not in (512, 2 ** 21):
            raise MachineryError(f"coarse scheduler model explored {res.distinct} states")

    # ---- request sequences from TLC ----------------------------------------------------------------------
    seqs = []
    plan = ((1, 6), (2, 8), (3, 6), (5, 5), (9, 4), (21, 2)) if ctx.tier == "quick" else \
           ((1, 21), (2, 60), (3, 60), (4, 40), (6, 40), (9, 30), (14, 20), (21, 12))
    for mr, num in plan:
        seqs += simulate_requests(ctx, scr["generic"], mr, num, ctx.seed + mr)
    seqs = list(dict.fromkeys(seqs))
    full = tuple(f"{i}{j}" for i, j in ALLKEYS)
    if full not in seqs:
        seqs.append(full)
    if len(seqs) < 10:
        raise MachineryError("simulator produced too few request sequences")
    ctx.cov["request_sequences"] = len(seqs)

    # ---- T + R ---------------------------------------------------------------------------------------------
    traces = {sc: [] for sc in sched.SCENARIOS}
    trace_meta = {sc: [] for sc in sched.SCENARIOS}
    proj_failed = 0
    noninj = 0
    for sc_run in sched.SCENARIOS + ("neardeg", "endsame", "rearranged", "constant"):
        # "neardeg": three different strain fractions of which two are 3e-4 apart (relative) - different for the code's task equality
        # (numpy.allclose, rtol 1e-5), so the problem instance is the generic one
        # (separations just above that equality - 3e-5, say - are not generated: strains of the rotated frames, which are combinations of
        #  the axial ones, then come within the equality's tolerance of each other and the package merges them by design, at ~5e-8 of the result)
        # "endsame": two fraction FIELDS that agree at the first and the last volume and differ in between;
        # "rearranged": two fields holding the same values in another order along the volume grid.  Different fields, different tasks.
        # "constant": three different fractions that do not change along the volume grid (a cell compressing self-similarly)
        sc = "generic" if sc_run in ("neardeg", "neardeg5", "endsame", "rearranged", "constant") else sc_run
        case = draw_case(rng, nq=int(rng.integers(1, 4)), nat=int(rng.integers(1, 4)), low_t=False)
        while sc_run in ("endsame", "rearranged") and len(case["v"]) < 3:
            case = draw_case(rng, nq=int(rng.integers(1, 4)), nat=int(rng.integers(1, 4)), low_t=False)
        duck = DuckCalc(case)
        ntv = len(case["v"])
        strain = base_strain(rng, sc, ntv)
        if sc_run in ("constant", "neardeg5"):
            strain = numpy.tile(strain[0], (ntv, 1))
        if sc_run == "neardeg5":
            a, b = (0, 1) if rng.random() < 0.5 else (1, 2)
            strain[:, b] = strain[:, a] * (1.0 + 3e-5)
            strain = strain / strain.sum(axis=1, keepdims=True)
        if sc_run == "neardeg":
            a, b = (0, 1) if rng.random() < 0.5 else (1, 2)
            strain[:, b] = strain[:, a] * (1.0 + 3e-4 * rng.uniform(0.8, 1.2, ntv))
            strain = strain / strain.sum(axis=1, keepdims=True)
        if sc_run in ("endsame", "rearranged"):
            a, b = (0, 1) if rng.random() < 0.5 else (1, 2)
            c = 3 - a - b
            for _try in range(200):
                ea = rng.uniform(0.2, 0.4, ntv)
                if sc_run == "endsame":
                    eb = ea.copy()
                    eb[1:-1] = ea[1:-1] + rng.choice([-1.0, 1.0], ntv - 2) * rng.uniform(0.03, 0.06, ntv - 2)
                else:
                    eb = ea[::-1].copy()
                ec = 1.0 - ea - eb
                st = numpy.empty((ntv, 3))
                st[:, a], st[:, b], st[:, c] = ea, eb, ec
                inner = slice(1, -1) if sc_run == "endsame" else slice(None)
                # apart wherever they are meant to differ, and the third one apart from both everywhere
                if (numpy.min(numpy.abs(ea - eb)[inner][numpy.abs(ea - eb)[inner] > 0], initial=1.0) > 2e-2 and numpy.any(numpy.abs(ea - eb)[inner] > 2e-2)
                        and numpy.min(numpy.abs(ec - ea)) > 2e-2 and numpy.min(numpy.abs(ec - eb)) > 2e-2 and ec.min() > 0.05):
                    strain = st
                    break
        single = {}
        last_tl = [None]

        def run(keys, strain=strain, duck=duck, reuse=False):
            out = record(insts[sc], duck, strain, [c_(int(k[0]), int(k[1])) for k in keys], tl=last_tl[0] if reuse else None)
            last_tl[0] = out[1]
            return out

        def value_of(key):
            if key not in single:
                ev, tl, (iso, adi), info = run([key])
                single[key] = None if info["error"] or iso is None else (iso[c_(int(key[0]), int(key[1]))], adi[c_(int(key[0]), int(key[1]))])
            return single[key]

        # the scale of the assembled tensor (requests consisting of vanishing components have no scale of their own)
        _ev, _tl, (iso_full, adi_full), _info = run([f"{i}{j}" for i, j in ALLKEYS])
        tensor_scale = 1.0
        adi_scale = 1.0
        if iso_full is not None:
            tensor_scale = max(float(numpy.max(numpy.abs(numpy.nan_to_num(numpy.asarray(v))))) for v in iso_full.values()) or 1.0
            # (with a tiny heat capacity the adiabatic tensor is orders of magnitude larger than the isothermal one: its own scale)
            adi_scale = max([tensor_scale] + [float(numpy.max(numpy.abs(numpy.nan_to_num(numpy.asarray(v), posinf=0.0, neginf=0.0)))) for v in (adi_full or {}).values()])

        for sn, seq in enumerate(seqs if sc_run in sched.SCENARIOS else seqs[::4] if sc_run == "neardeg5" else seqs[::2]):
            nontrivial = len(seq) >= 2 or any(int(k[0]) >= 4 or int(k[1]) >= 4 for k in seq)
            ctx.count({"sc": sc_run, "seq": list(seq)}, nontrivial=nontrivial)
            # every third request goes to the task list of the previous request (resolve() on a used list starts over: Reset)
            reuse = bool(sn % 3 == 2)
            events, tl, (iso, adi), info = run(seq, reuse=reuse)
            sig = {"scenario": sc_run}
            rep = {"scenario": sc_run, "request": list(seq), "strain": strain, "case": case, "reused_task_list": reuse}
            if info["error"] is not None:
                ctx.violation(f"[{sc_run}] request {list(seq)}: resolve/calculate raised {info['error']!r}", rep, {**sig, "clause": "complete_raises"})
                continue
            # (1) complete
            missing = [k for k in seq if c_(int(k[0]), int(k[1])) not in iso or c_(int(k[0]), int(k[1])) not in adi]
            if missing:
                ctx.violation(f"[{sc_run}] request {list(seq)}{' on a re-used task list' if reuse else ''}: no value for {missing}", rep, {**sig, "clause": "complete"})
                continue
            vals = {k: (numpy.asarray(iso[c_(int(k[0]), int(k[1]))]), numpy.asarray(adi[c_(int(k[0]), int(k[1]))])) for k in seq}
            scale = tensor_scale
            # (2) request independence: same value as when requested alone
            for k in seq:
                ref = value_of(k)
                if ref is None:
                    continue
                for which, name in ((0, "isothermal"), (1, "adiabatic")):
                    sc_w = scale if which == 0 else adi_scale
                    if not numpy.all(numpy.isfinite(vals[k][which])) or relerr(vals[k][which], ref[which], sc_w) > 1e-9:
                        ctx.violation(f"[{sc_run}] c{k} ({name}) differs when requested within {list(seq)} from when requested alone "
                                      f"(rel. {relerr(vals[k][which], ref[which], sc_w):.2e})", {**rep, "key": k},
                                      {**sig, "clause": "request_independent"})
                        break
            # (3) every task comes after everything it depends on
            order = list(tl.data)
            for pos, task in enumerate(order):
                for dstrain, dkey in task.get_dependencies():
                    from cij.core.tasks import PhononContributionTaskParams as PP
                    dp = PP.create(dstrain, dkey)
                    where = [n for n, t in enumerate(order) if t.task_params == dp]
                    if not where or min(where) > pos:
                        ctx.violation(f"[{sc_run}] request {list(seq)}: task for c{task.key.voigt} is scheduled before its dependency c{dkey.voigt}",
                                      rep, {**sig, "clause": "deps_first"})
                        break
            # (5) isotropic limit
            if sc_run == "isotropic":
                check_isotropy(ctx, vals, scale, rep, sig)
            # traces
            if events is None:
                proj_failed += 1
            elif info["projection"] == "non-injective":
                # two code tasks ((v,w) and (w,v) off-diagonal pairs) carry one specification id: index-level events of this
                # run cannot be compared with the (coarser) model; the run still went through checks (1)-(5) above
                noninj += 1
            else:
                if traces[sc]:
                    traces[sc].append({"ev": "Reset"})
                traces[sc] += events
                trace_meta[sc].append((len(traces[sc]), list(seq), info["projection"]))
        # (5b) only the strain FRACTIONS matter: the same field with every row multiplied by its own positive factor gives the same tensor
        if sc_run in ("generic", "uniaxial", "neardeg", "neardeg5"):
            fac = rng.uniform(0.3, 4.0, (ntv, 1))
            full = [f"{i}{j}" for i, j in ALLKEYS]
            _e1, _t1, (iso_a, _a1), info_a = run(full)
            _e2, _t2, (iso_b, _a2), info_b = run(full, strain=strain * fac)
            ctx.count({"sc": sc_run, "unnormalised_rows": True})
            if info_a["error"] is None and iso_a is not None:
                if info_b["error"] is not None or iso_b is None:
                    ctx.violation(f"[{sc_run}] strain rows multiplied by positive factors: resolve/calculate raised {info_b['error']!r}",
                                  {"scenario": sc_run, "strain": strain * fac}, {"scenario": sc_run, "clause": "complete_raises"})
                else:
                    for k in full:
                        ck = c_(int(k[0]), int(k[1]))
                        if relerr(iso_b[ck], iso_a[ck], tensor_scale) > 1e-9:
                            ctx.violation(f"[{sc_run}] c{k} changes (rel. {relerr(iso_b[ck], iso_a[ck], tensor_scale):.2e}) when every row of the strain field is "
                                          f"multiplied by its own positive factor (same fractions)", {"scenario": sc_run, "key": k, "strain": strain, "factors": fac},
                                          {"scenario": sc_run, "clause": "fractions_only"})
                            break
        # (5c) whole numbers in an integer-typed array are the same strains as the same numbers in a float array;
        # (5d) a task list that has served one strain field and is resolved again with ANOTHER one answers like a fresh list
        if sc_run in ("generic", "uniaxial", "isotropic"):
            full = [f"{i}{j}" for i, j in ALLKEYS]
            pat = {"generic": (3, 4, 5), "uniaxial": (2, 2, 5), "isotropic": (1, 1, 1)}[sc_run]
            ints = numpy.array([pat] * ntv, dtype=int) * rng.integers(1, 4, (ntv, 1))
            other = numpy.array([(3.0, 4.0, 5.0)] * ntv) if sc_run == "isotropic" else numpy.ones((ntv, 3))
            _e, _t, (iso_f, _a), info_f = run(full, strain=ints.astype(float))
            _e, _t, (iso_i, _a), info_i = run(full, strain=ints)
            _e, _t, (iso_o, _a), info_o = run(full, strain=other)
            run(full)                                                   # the list now holds the scenario's own field ...
            _e, _t, (iso_r, _a), info_r = run(full, strain=other, reuse=True)       # ... and is resolved again with another one
            ctx.count({"sc": sc_run, "integer_typed_strain": True})
            ctx.count({"sc": sc_run, "reused_list_other_strain": True})
            for name, clause, ref, got, info_ref, info_got, what in (
                    ("whole-number strains in an integer-typed array", "integer_strain", iso_f, iso_i, info_f, info_i, ints),
                    ("a used task list resolved again with another strain field", "reused_other_strain", iso_o, iso_r, info_o, info_r, other)):
                if info_ref["error"] is not None or ref is None:
                    continue
                if info_got["error"] is not None or got is None:
                    ctx.violation(f"[{sc_run}] {name}: resolve/calculate raised {info_got['error']!r}", {"scenario": sc_run, "strain": what},
                                  {"scenario": sc_run, "clause": "complete_raises"})
                    continue
                for k in full:
                    ck = c_(int(k[0]), int(k[1]))
                    if ck not in got or not numpy.all(numpy.isfinite(numpy.asarray(got[ck], dtype=float))) or relerr(got[ck], ref[ck], tensor_scale) > 1e-9:
                        ctx.violation(f"[{sc_run}] {name}: c{k} differs from the same strains given to a fresh list as floats "
                                      f"(rel. {relerr(got[ck], ref[ck], tensor_scale) if ck in got else float('nan'):.2e})",
                                      {"scenario": sc_run, "key": k, "strain": what, "first_strain": strain}, {"scenario": sc_run, "clause": clause})
                        break
        # (6) axis relabelling, on the full tensor
        if sc_run in sched.SCENARIOS or sc_run == "constant":
            check_permutations(ctx, rng, sc, insts[sc], case, strain, run)
        ctx.sample({"scenario": sc_run, "request": list(seqs[min(3, len(seqs) - 1)]), "strain_row0": strain[0].tolist()})

    # ---- the shipped example(s): the scheduler run of a real calculation is a behaviour of the same specification ------
    real_runs(ctx, insts, traces, trace_meta, scr)

    # ---- the repository's own tests as drivers (thorough): every task-list run they cause is validated too ----------------
    if ctx.tier == "thorough":
        repo_test_runs(ctx, insts, traces, trace_meta, scr)

    # ---- T: validate the recorded runs, one TLC invocation per scenario ----------------------------------
    for sc in list(traces):
        if not traces[sc]:
            continue
        ok, consumed, res = validate_trace(ctx, "Trace_Sched", "Trace_Sched.cfg", traces[sc], name=f"sched_{sc}",
                                           timeout=1200, libdirs=[scr[sc]])
        if not ok:
            # The faithful model is shaped like the implementation's work list (queue lengths, duplicate pushes, creation order), which
            # C04 does not state.  A rejected trace is therefore given to the relaxed specification, which keeps exactly what C04 states
            # (closure, real edges, dependencies first, reads, look-ups): only if that rejects it too is the run a violation.
            ok2, consumed2, _ = validate_trace(ctx, "Trace_SchedRelaxed", "Trace_SchedRelaxed.cfg", traces[sc], name=f"sched_relaxed_{sc}",
                                               timeout=1200, libdirs=[scr[sc]])
            if ok2:
                ctx.cov.setdefault("work_list_deviates_from_faithful_model", []).append(
                    {"scenario": sc, "first_unexplained_event": consumed, "event": traces[sc][consumed]})
                continue
            consumed = consumed2
            bad = traces[sc][consumed]
            run_no = next((n for n, (end, _, _) in enumerate(trace_meta[sc]) if consumed < end), -1)
            seq = trace_meta[sc][run_no][1] if run_no >= 0 else None
            ctx.violation(f"[{sc}] request {seq}: recorded event #{consumed} {bad} is not a step of the scheduler specification",
                          {"scenario": sc, "request": seq, "event": bad, "index": consumed,
                           "context": traces[sc][max(0, consumed - 3):consumed + 1]},
                          {"scenario": sc, "clause": "trace", "event": bad["ev"]})
    ctx.cov["trace_events"] = {sc: len(t) for sc, t in traces.items()}
    ctx.cov["trace_projection_failed_runs"] = proj_failed
    ctx.cov["trace_noninjective_runs_skipped"] = noninj
    ctx.cov["trace_runs_validated"] = {sc: len(m) for sc, m in trace_meta.items()}
    if proj_failed and all(not t for t in traces.values()):
        print("note: no recorded run could be projected onto the specification's task ids; trace validation skipped")

    if ctx.tier == "thorough":
        negative_control(ctx, traces)
        relaxed_controls(ctx, traces, scr)


def real_runs(ctx, insts, traces, trace_meta, scr):
    """Record the task list of a real Calculator (shipped data, lattice-derived strain fractions) and queue it for validation."""
    import shutil
    import tempfile
    import yaml
    from pathlib import Path
    from cv.core import REPO
    from cv.synth import run as run_calc
    names = ["akimotoite"] + (["diopside"] if ctx.tier == "thorough" else [])
    tmp = Path(tempfile.mkdtemp(prefix="cijverif.c04real."))
    try:
        for name in names:
            d = tmp / name
            shutil.copytree(REPO / "examples" / name, d)
            cfg = yaml.safe_load((d / "settings.yaml").read_text())
            cfg["qha"]["settings"].update({"NT": 3, "DT": 500, "DT_SAMPLE": 500, "NTV": 21, "DELTA_P": 1.0, "DELTA_P_SAMPLE": 1.0})
            (d / "settings.yaml").write_text(yaml.safe_dump(cfg))
            case = {"example": name}
            ctx.count(case)
            try:
                calc = run_calc(d / "settings.yaml")
            except Exception as ex:
                # does the same calculation run in an interpreter of its own?  Then it fails HERE because of what this process has assembled
                # before (other requests, other strains): a component does not receive its value because of earlier requests.
                import subprocess
                import sys
                pr = subprocess.run([sys.executable, "-W", "ignore", "-c",
                                     "import sys; from cij.core.calculator import Calculator; Calculator(sys.argv[1])", str(d / "settings.yaml")],
                                    capture_output=True, text=True, timeout=900)
                if pr.returncode == 0:
                    ctx.violation(f"the task list of examples/{name} cannot be assembled in this process ({ex!r}) although the same calculation runs in an "
                                  f"interpreter of its own: the assembly depends on what was requested before", case, {"clause": "complete_raises", "example": name})
                    continue
                raise MachineryError(f"examples/{name} does not run: {ex!r}")
            from cv.e2e import full_modulus_of, phonon_parts
            fm = full_modulus_of(calc)
            used_iso, used_adi = phonon_parts(calc, fm)
            strain = fm.get_axial_strains()
            # the code's own task equality is numpy.allclose (rtol 1e-5): fractions closer than 1e-6 are "equal" for it, fractions further
            # apart than 1e-3 are certainly different; anything between is left alone here
            same = lambda a, b: bool(numpy.allclose(strain[:, a], strain[:, b], rtol=1e-6, atol=0))
            apart = lambda a, b: bool(numpy.min(numpy.abs(strain[:, a] - strain[:, b])) > 1e-3 * numpy.max(numpy.abs(strain)))
            if same(0, 1) and same(0, 2):
                sc = "isotropic"
            elif same(0, 1) and apart(0, 2):
                sc = "uniaxial"
            elif same(1, 2) and apart(0, 1):
                sc = "uniaxial23"
            elif same(0, 2) and apart(0, 1):
                sc = "uniaxial13"
            elif apart(0, 1) and apart(0, 2) and apart(1, 2):
                sc = "generic"
            else:
                ctx.cov.setdefault("real_runs_skipped", []).append(name)      # a strain pattern none of the three instances describes
                continue
            if sc not in insts:
                insts.update(sched.load_instances(ctx, scenarios=(sc,)))
                scr[sc] = ctx.subdir(f"mc_{sc}")
                sched.write_data_module(insts[sc], scr[sc])
                traces[sc], trace_meta[sc] = [], []
            keys = list(calc.modulus_keys)
            events, tl, (iso, adi), info = record(insts[sc], calc, strain, keys, rtol=2e-5, atol=1e-8)
            rep = {"example": name, "scenario": sc, "request": ["%d%d" % k.voigt for k in keys]}
            sig = {"scenario": sc, "example": name}
            if info["error"] is not None:
                ctx.violation(f"examples/{name}: resolve/calculate raised {info['error']!r}", rep, {**sig, "clause": "complete_raises"})
                continue
            missing = ["%d%d" % k.voigt for k in keys if k not in iso or k not in adi]
            if missing:
                ctx.violation(f"examples/{name}: no value for {missing}", rep, {**sig, "clause": "complete"})
                continue
            # the same request on the same calculator gives the values the calculation itself used
            scale = max(float(numpy.max(numpy.abs(numpy.nan_to_num(numpy.asarray(v))))) for v in iso.values()) or 1.0
            for k in keys:
                if relerr(iso[k], used_iso[k], scale) > 1e-9 or relerr(adi[k], used_adi[k], scale) > 1e-9:
                    ctx.violation(f"examples/{name}: c{k.voigt[0]}{k.voigt[1]} of a second task list on the same calculator differs from the "
                                  f"value the calculation used", {**rep, "key": list(k.voigt)}, {**sig, "clause": "request_independent"})
                    break
            if events is None:
                ctx.cov.setdefault("real_runs_unprojected", []).append([name, info["projection"]])
                continue
            if info["projection"] == "non-injective":
                ctx.cov.setdefault("real_runs_unprojected", []).append([name, "non-injective"])
                continue
            if traces[sc]:
                traces[sc].append({"ev": "Reset"})
            traces[sc] += events
            trace_meta[sc].append((len(traces[sc]), rep["request"], f"examples/{name}"))
            ctx.cov.setdefault("real_runs_validated", []).append([name, sc, len(events)])
    finally:
        shutil.rmtree(tmp, ignore_errors=True)


def classify_strain(strain):
    """Which problem instance describes a strain-fraction field (by the code's own task equality), or None."""
    same = lambda a, b: bool(numpy.allclose(strain[:, a], strain[:, b], rtol=1e-6, atol=0))
    apart = lambda a, b: bool(numpy.min(numpy.abs(strain[:, a] - strain[:, b])) > 1e-3 * numpy.max(numpy.abs(strain)))
    if same(0, 1) and same(0, 2):
        return "isotropic"
    if same(0, 1) and apart(0, 2):
        return "uniaxial"
    if same(1, 2) and apart(0, 1):
        return "uniaxial23"
    if same(0, 2) and apart(0, 1):
        return "uniaxial13"
    if apart(0, 1) and apart(0, 2) and apart(1, 2):
        return "generic"
    return None


def repo_test_runs(ctx, insts, traces, trace_meta, scr):
    """tests/test_cij_cli_run.py of the repository, executed in this process under the recorder: the shipped examples at their full
    settings.  Whatever the tests assert, every resolve/calculate/get run they trigger must be a behaviour of TaskScheduler."""
    from cv.repotests import run_tests
    from cv.schedtrace import Capture, project_run
    with Capture() as cap:
        rc = run_tests(ctx.subdir("repotests"), ["test_cij_cli_run.py"])
    ctx.cov["repo_tests"] = {"module": "tests/test_cij_cli_run.py", "pytest_exit": rc, "task_list_runs": len(cap.runs)}
    for n, run in enumerate(cap.runs):
        strain = numpy.asarray(run["strain"], dtype=float)
        if strain.ndim != 2:
            continue
        sc = classify_strain(strain)
        case = {"repo_test_run": n, "scenario": sc, "request": ["%d%d" % k.voigt for k in run["keys"]]}
        ctx.count(case)
        if sc is None:
            ctx.cov.setdefault("real_runs_skipped", []).append(f"repo test run {n}")
            continue
        if sc not in insts:
            insts.update(sched.load_instances(ctx, scenarios=(sc,)))
            scr[sc] = ctx.subdir(f"mc_{sc}")
            sched.write_data_module(insts[sc], scr[sc])
            traces[sc], trace_meta[sc] = [], []
        events, info = project_run(insts[sc], run, rtol=2e-5, atol=1e-8)
        if events is None or info["projection"] == "non-injective":
            ctx.cov.setdefault("real_runs_unprojected", []).append([f"repo test run {n}", info["projection"]])
            continue
        if traces[sc]:
            traces[sc].append({"ev": "Reset"})
        traces[sc] += events
        trace_meta[sc].append((len(traces[sc]), case["request"], f"repository test run {n}"))
        ctx.cov.setdefault("real_runs_validated", []).append([f"repo test run {n}", sc, len(events)])


def check_isotropy(ctx, vals, scale, rep, sig):
    def get(k):
        return vals.get(k)
    groups = (("11", "22", "33"), ("12", "13", "23"), ("44", "55", "66"))
    for which, name in ((0, "isothermal"), (1, "adiabatic")):
        for g in groups:
            have = [k for k in g if k in vals]
            for a, b in itertools.combinations(have, 2):
                if relerr(vals[a][which], vals[b][which], scale) > 1e-9:
                    ctx.violation(f"[isotropic] c{a} != c{b} ({name}) with equal axial strains", {**rep, "keys": [a, b]},
                                  {**sig, "clause": "isotropic_equal"})
        for k in vals:
            if (int(k[0]) >= 4 or int(k[1]) >= 4) and k not in ("44", "55", "66"):
                if not float(numpy.max(numpy.abs(vals[k][which]))) <= 1e-9 * scale:
                    ctx.violation(f"[isotropic] c{k} ({name}) does not vanish with equal axial strains", {**rep, "key": k},
                                  {**sig, "clause": "isotropic_zero"})
        for s, l, o in (("44", "11", "12"), ("55", "22", "13"), ("66", "33", "23")):
            for ss in ("44", "55", "66"):
                if ss in vals and l in vals and o in vals:
                    if relerr(vals[ss][which], (vals[l][which] - vals[o][which]) / 2, scale) > 1e-9:
                        ctx.violation(f"[isotropic] c{ss} != (c{l}-c{o})/2 ({name})", {**rep, "keys": [ss, l, o]},
                                      {**sig, "clause": "isotropic_shear"})


def check_permutations(ctx, rng, sc, inst, case, strain, run):
    """Relabelling the crystal axes permutes the assembled tensor."""
    from cij.util import c_
    full = [f"{i}{j}" for i, j in ALLKEYS]
    ev, tl, (iso, adi), info = run(full)
    if info["error"] is not None or iso is None:
        return
    base = {k: numpy.asarray(iso[c_(int(k[0]), int(k[1]))]) for k in full}
    scale = max(float(numpy.max(numpy.abs(v))) for v in base.values()) or 1.0
    perms = list(itertools.permutations(range(3)))
    if ctx.tier == "quick":
        perms = [perms[i] for i in (1, 3, 4)]
    for sigma in perms:
        if sigma == (0, 1, 2):
            continue
        # new axis a carries old axis sigma[a]
        st2 = strain[:, list(sigma)]
        ev, tl, (iso2, adi2), info2 = run(full, strain=st2)
        ctx.count({"sc": sc, "perm": list(sigma)})
        if info2["error"] is not None:
            ctx.violation(f"[{sc}] axis relabelling {sigma}: run raised {info2['error']!r}", {"scenario": sc, "perm": sigma},
                          {"scenario": sc, "clause": "permutation_raises"})
            continue
        for (I, J) in ALLKEYS:
            i, j, k, l = c_(I, J).standard
            # component (i,j,k,l) of the relabelled crystal is component (sigma i, sigma j, sigma k, sigma l) of the original
            old = c_(sigma[i - 1] + 1, sigma[j - 1] + 1, sigma[k - 1] + 1, sigma[l - 1] + 1)
            got = numpy.asarray(iso2[c_(I, J)])
            want = base["%d%d" % old.voigt]
            if relerr(got, want, scale) > 1e-9:
                ctx.violation(f"[{sc}] relabelling axes by {sigma}: c{I}{J} of the relabelled crystal is not c{old.voigt[0]}{old.voigt[1]} "
                              f"of the original (rel. {relerr(got, want, scale):.2e})",
                              {"scenario": sc, "perm": sigma, "key": [I, J], "strain": strain, "case": case},
                              {"scenario": sc, "clause": "permutation"})
                break


def relaxed_controls(ctx, traces, scr):
    """The relaxed specification accepts every run the faithful one accepts, and still rejects what C04 forbids."""
    sc = "generic"
    tr = traces.get(sc) or []
    if not tr:
        return
    before = ctx.cov["traces_validated_against_impl"]
    ok, consumed, _ = validate_trace(ctx, "Trace_SchedRelaxed", "Trace_SchedRelaxed.cfg", tr, name="relaxed_pos", timeout=1200, libdirs=[scr[sc]])
    ctx.cov["traces_validated_against_impl"] = before
    if not ok:
        raise MachineryError(f"the relaxed scheduler specification rejects a run the faithful one accepts (event #{consumed}: {tr[consumed]})")
    from cv.trace import binding_control
    ev = [n for n, e in enumerate(tr) if e["ev"] == "Eval"]
    sh = next((n for n in ev if tr[n]["task"].startswith("S")), None)
    if sh is not None:
        first = ev[0]
        cor = [dict(e) for e in tr]
        cor[first], cor[sh] = cor[sh], cor[first]
        binding_control(ctx, "Trace_SchedRelaxed", "Trace_SchedRelaxed.cfg", cor, first, lambda e: e, "relaxed_neg_eval", "relaxed_eval_order", libdirs=[scr[sc]])
    k = next((n for n, e in enumerate(tr) if e["ev"] == "Sort" and any(t.startswith("S") for t in e["order"])), None)
    if k is not None:
        def shear_first(e):
            o = list(e["order"])
            s_ = next(t for t in o if t.startswith("S"))
            o.remove(s_)
            return dict(e, order=[s_] + o)
        binding_control(ctx, "Trace_SchedRelaxed", "Trace_SchedRelaxed.cfg", tr, k, shear_first, "relaxed_neg_sort", "relaxed_sort_order", libdirs=[scr[sc]])


def negative_control(ctx, traces):
    """Binding demonstration: corrupt one recorded Pop (wrong dependant) and one Eval order; both must be rejected."""
    sc = "generic"
    tr = [dict(e) for e in traces[sc]]
    if not tr:
        return
    detected = 0
    total = 0
    k = next((n for n, e in enumerate(tr) if e["ev"] == "Pop" and e["dep"] != "none"), None)
    if k is not None:
        total += 1
        cor = [dict(e) for e in tr]
        cor[k]["dep"], cor[k]["task"] = cor[k]["task"], cor[k]["dep"]       # edge direction reversed
        before = ctx.cov["traces_validated_against_impl"]
        ok, _, _ = validate_trace(ctx, "Trace_Sched", "Trace_Sched.cfg", cor, name="neg_pop", libdirs=[ctx.subdir("mc_generic")])
        ctx.cov["traces_validated_against_impl"] = before
        detected += (not ok)
    ev = [n for n, e in enumerate(tr) if e["ev"] == "Eval"]
    sh = next((n for n in ev if tr[n]["task"].startswith("S")), None)
    if sh is not None:
        total += 1
        cor = [dict(e) for e in tr]
        first = ev[0]
        cor[first], cor[sh] = cor[sh], cor[first]                             # a shear task evaluated before its dependencies
        before = ctx.cov["traces_validated_against_impl"]
        ok, _, _ = validate_trace(ctx, "Trace_Sched", "Trace_Sched.cfg", cor, name="neg_eval", libdirs=[ctx.subdir("mc_generic")])
        ctx.cov["traces_validated_against_impl"] = before
        detected += (not ok)
    ctx.cov["controls"] = {"corrupted_traces_rejected": detected, "corrupted_traces_total": total}
    if detected != total:
        raise MachineryError("a corrupted scheduler trace was accepted: the trace specification does not bind")
