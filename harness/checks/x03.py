"""X03 (supplementary, not a listed property) -- the unit algebra of cij/util/units.py.

Model (spec/Units.tla): units as (dimension vector, SI size as a Laurent monomial over 10, a0, Ry, e, N_A), exponents doubled so
that the square root of the velocity conversion stays integral.  TLC proves (ASSUME-theorems, exact): every converter of
units.py is dimensionally consistent; _to_x/_from_x are inverse; sqrt(GPa/(g/cm^3)) is km/s with factor exactly one; the velocity
chains of cli/static.py and calculator.py equal the SI formula; the thermal constants of nonshear.py make Q dimensionless.  A walk
over all ordered triples of a 39-unit universe checks that conversion is a groupoid (reflexive, inverse, cocycle) exactly on the
convertible pairs.

Binding: (R) the exported pair table is replayed through cij.util.units.convert_unit - non-convertible pairs must be refused,
convertible pairs must multiply by the monomial evaluated at SI-2019/CODATA-2018 literals (scalars, arrays, zero, the curried
form) - and the named converters against their monomials.  (T) every conversion the package performs during a real calculation,
write_output and run-static (convert_unit calls and Quantity.to calls on the shared registry) is recorded and validated by
spec/Trace_Units.tla in scaled integer logarithms.
"""
import math
import os
import tempfile
from pathlib import Path

import numpy

from cv import consts
from cv.core import MachineryError
from cv.tlc import run_tlc, must_ok
from cv.trace import validate_trace, binding_control

LEVEL = "model_checking"

PINT = {"m": "meter", "cm": "centimeter", "km": "kilometer", "angstrom": "angstrom", "bohr": "bohr", "g": "gram", "kg": "kilogram",
        "J": "joule", "eV": "eV", "Ry": "rydberg", "hartree": "hartree", "Pa": "pascal", "GPa": "GPa", "MPa": "MPa", "kbar": "kbar",
        "bohr3": "bohr ** 3", "ang3": "angstrom ** 3", "cm3": "cm ** 3", "m3": "meter ** 3", "Ry/bohr3": "rydberg / bohr ** 3",
        "eV/ang3": "eV / angstrom ** 3", "g/cm3": "g / cm ** 3", "kg/m3": "kg / m ** 3",
        "audensity": "(g / mol) / (bohr ** 3 / particle)", "km/s": "km / s", "m/s": "m / s",
        "sqrt(GPa/gcm3)": "(GPa / (g / cm ** 3)) ** 0.5", "mol": "mol", "particle": "particle", "s": "second", "one": "dimensionless",
        "K": "kelvin", "kg*km2/s2": "kg * km ** 2 / s ** 2", "J*m*K/eV": "J * m / eV * K", "cm*K": "cm * K", "J*m": "J * m",
        "Ry*cm": "rydberg * cm", "eV/K": "eV / K", "Ry/K": "rydberg / K"}
ATOMS = {"ten": 10.0, "a0": consts.BOHR_M, "Ry": consts.RY_J, "qe": consts.E_CHARGE, "NA": consts.N_A, "two": 2.0}


def mono(f):
    """monomial with doubled exponents -> float"""
    lg = sum(e * math.log10(ATOMS[a]) for a, e in f) / 2.0
    return 10.0 ** lg


def main(ctx, replay=None):
    import sys
    import cij.util  # noqa: F401  (the attribute cij.util.units is the registry; the module is taken from sys.modules)
    cu = sys.modules["cij.util.units"]
    import pint
    res = must_ok(run_tlc("Units", "Units.cfg", ctx.subdir("tlc"), workers=4, timeout=600))
    ctx.add_tlc(res)
    table = res.load("units_table.json")
    pairs = table["pairs"]
    if len(pairs) != len(PINT) ** 2:
        raise MachineryError(f"Units.tla exports {len(pairs)} pairs, the harness names {len(PINT)} units")
    ctx.cov["rule"] = ("a case is one ordered pair of the unit universe of Units.tla (non-trivial: from != to), one named converter with one "
                       "kind of argument, or one recorded conversion of a real run")
    ctx.assumptions += ["pint's unit definitions (the harness evaluates monomials at its own SI-2019 / CODATA-2018 literals, rtol 1e-7)",
                        "supplementary model: not one of the listed properties"]
    U = cu.units
    # ------------------------------------------------------------------ R: the whole pair table through convert_unit
    nconv = 0
    for row in pairs:
        a, b = row["from"], row["to"]
        ctx.count({"pair": [a, b]}, nontrivial=a != b)
        sig = {"from": a, "to": b}
        try:
            got = cu.convert_unit(U(PINT[a]).units if a != "one" else U.dimensionless, U(PINT[b]).units if b != "one" else U.dimensionless, 1.0)
            raised = None
        except pint.DimensionalityError as ex:
            got, raised = None, ex
        except Exception as ex:                                   # noqa: BLE001
            ctx.violation(f"convert_unit({a} -> {b}) raised {ex!r}", sig, {**sig, "clause": "raises"})
            continue
        if not row["conv"]:
            if raised is None:
                ctx.violation(f"convert_unit({a} -> {b}) returned {got!r}: the units have different dimensions", sig, {**sig, "clause": "accepts_incommensurable"})
            continue
        nconv += 1
        if raised is not None:
            ctx.violation(f"convert_unit({a} -> {b}) refused: {raised}", sig, {**sig, "clause": "refuses_commensurable"})
            continue
        want = mono(row["f"])
        if not abs(float(got) / want - 1.0) <= consts.CONST_RTOL:
            ctx.violation(f"convert_unit({a} -> {b}) = {got!r}, the unit algebra gives {want!r}", {**sig, "got": float(got), "want": want},
                          {**sig, "clause": "factor"})
    ctx.cov["convertible_pairs"] = nconv
    # ------------------------------------------------------------------ R: named converters, argument kinds
    named = {"to_gpa": cu._to_gpa, "from_gpa": cu._from_gpa, "to_ang3": cu._to_ang3, "from_ang3": cu._from_ang3, "to_ev": cu._to_ev,
             "from_ev": cu._from_ev, "to_gcm3": cu._to_gcm3, "from_gcm3": cu._from_gcm3, "to_kms": cu._to_kms}
    rng = numpy.random.default_rng(ctx.seed + 77)
    for name, fn in named.items():
        want = mono(table["converters"][name]["f"])
        arr = rng.uniform(-5.0, 50.0, (3, 4))
        arr[0, 0] = 0.0
        frozen = arr.copy()
        for kind, arg in (("scalar", 3.25), ("zero", 0.0), ("int", 7), ("array", arr), ("int_array", numpy.arange(-2, 5)), ("list_free", arr[1])):
            ctx.count({"converter": name, "arg": kind})
            sig = {"converter": name, "arg": kind}
            try:
                got = fn(arg)
            except Exception as ex:                               # noqa: BLE001
                ctx.violation(f"{name}({kind}) raised {ex!r}", sig, {**sig, "clause": "raises"})
                continue
            exp = numpy.asarray(arg, dtype=float) * want
            if numpy.shape(got) != numpy.shape(exp) or not numpy.all(numpy.abs(numpy.asarray(got, dtype=float) - exp) <= consts.CONST_RTOL * numpy.abs(exp)):
                ctx.violation(f"{name}({kind}) is not the argument times {want!r}", sig, {**sig, "clause": "factor"})
        if not numpy.array_equal(arr, frozen):
            ctx.violation(f"{name} modified its argument in place", {"converter": name}, {"converter": name, "clause": "in_place"})
        # applying the converter twice is two conversions (no hidden state), and the curried form is the same function
        c = table["converters"][name]
        f1 = cu.convert_unit(U(PINT[c["from"]]).units, U(PINT[c["to"]]).units)
        if not callable(f1) or not abs(f1(2.0) / (2.0 * want) - 1.0) <= consts.CONST_RTOL or not abs(fn(fn(1.0)) / want ** 2 - 1.0) <= 2 * consts.CONST_RTOL:
            ctx.violation(f"{name}: curried form / repeated application disagree with the factor {want!r}", {"converter": name}, {"converter": name, "clause": "curried"})
    # ------------------------------------------------------------------ T: conversions performed by real runs
    known = {str(U(e).units) if n != "one" else "dimensionless": n for n, e in PINT.items()}
    records, unknown = [], []

    def note(ufrom, uto, factor):
        a, b = known.get(str(ufrom)), known.get(str(uto))
        if a is None or b is None:
            unknown.append((str(ufrom), str(uto)))
            return
        if factor > 0 and math.isfinite(factor):
            records.append({"from": a, "to": b, "lg2": int(round(2e6 * math.log10(factor)))})

    orig_cu = cu.convert_unit
    orig_to = U.Quantity.to

    def as_unit(u):
        return U(u).units if isinstance(u, str) else (u.units if hasattr(u, "magnitude") else u)

    def spy_cu(unit_from, unit_to, value=None):
        try:
            note(as_unit(unit_from), as_unit(unit_to), float(orig_to(U.Quantity(1.0, unit_from), unit_to).magnitude))
        except Exception:                                          # noqa: BLE001
            pass
        return orig_cu(unit_from, unit_to, value)

    def spy_to(self, other=None, *a, **k):
        out = orig_to(self, other, *a, **k)
        try:
            note(self.units, out.units, float(orig_to(U.Quantity(1.0, self.units), out.units).magnitude))
        except Exception:                                          # noqa: BLE001
            pass
        return out

    import cij.io.output.results_writer as rw
    import cij.util as cutil
    from cv import synth, e2e
    tmp = Path(tempfile.mkdtemp(prefix="cijverif.x03."))
    cwd = os.getcwd()
    patched = [(cu, "convert_unit", orig_cu), (rw, "convert_unit", rw.convert_unit), (cutil, "convert_unit", cutil.convert_unit)]
    try:
        for mod, attr, _ in patched:
            setattr(mod, attr, spy_cu)
        U.Quantity.to = spy_to
        runs = 2 if ctx.tier == "quick" else 6
        for r in range(runs):
            d = tmp / f"run{r}"
            d.mkdir()
            ds = e2e.free_dataset(numpy.random.default_rng(ctx.seed * 100 + r), extra_shear=r % 3)
            ds.fit_pressure_window(d)
            calc = synth.run(ds.write(d))
            os.chdir(d)
            calc.write_output()
            _ = calc.volume_base.primary_velocities, calc.volume_base.secondary_velocities
            # run-static on the same files (volume and pressure modes)
            from click.testing import CliRunner
            from cij.cli.static import main as static_main
            for extra in (["-I", "volume"], ["-I", "pressure", "--p-min", "0", "--delta-p", "2", "--ntv", "4"], []):
                CliRunner().invoke(static_main, [str(d / "input01"), str(d / "elast.dat"), *extra], catch_exceptions=True)
            os.chdir(cwd)
    finally:
        os.chdir(cwd)
        for mod, attr, old in patched:
            setattr(mod, attr, old)
        U.Quantity.to = orig_to
        import shutil
        shutil.rmtree(tmp, ignore_errors=True)
    ctx.cov["recorded_conversions"] = len(records)
    ctx.cov["recorded_outside_universe"] = sorted(set(unknown))[:10]
    if len(records) < 10:
        raise MachineryError(f"only {len(records)} conversions were recorded from the real runs")
    for r in records:
        ctx.count({"recorded": [r["from"], r["to"]]})
    ok, consumed, _ = validate_trace(ctx, "Trace_Units", "Trace_Units.cfg", records, name="units")
    if not ok:
        bad = records[consumed]
        ctx.violation(f"recorded conversion #{consumed} {bad['from']} -> {bad['to']} with log10 factor {bad['lg2'] / 2e6:.6f} is not a conversion of the unit algebra",
                      {"record": bad, "index": consumed}, {"from": bad["from"], "to": bad["to"], "clause": "trace"})
    else:
        k = next((j for j, r in enumerate(records) if r["from"] != r["to"]), 0)
        binding_control(ctx, "Trace_Units", "Trace_Units.cfg", records, k, lambda r: {**r, "lg2": r["lg2"] + 6000}, "units_ctl", "factor_off_by_0.7_percent")
    ctx.sample({"pair": pairs[5]})
    ctx.sample({"recorded": records[0]})
