"""C05 -- total modulus = interpolated static table + phonon part, end to end from files.

Model: spec/Pipeline.tla (staged pipeline with provenance sets; non-interference invariants PhononIgnoresTable,
StaticIgnoresT, FillFirst; exported dependency relation) composed with the value-level specifications of C01-C04
(Thermo/C01.tla normal forms, SchedInstance.tla target terms).  Binding (R): Calculator(settings) on in-class synthetic file
triples for all nine systems and free component sets, every modulus compared with static(model function of the files) +
phonon(TLC-derived); taint conformance of the provenance relation by perturbing one input class at a time.
"""
import copy

import numpy

from cv import consts, fillspec, sched
from cv.core import MachineryError
from cv.e2e import Workdir, free_dataset, full_modulus_of, oracle_case, phonon_parts, system_dataset
from cv.phonon_expect import PhononExpectation, scenario_of
from cv.synth import KEYS21, run
from cv.thermo_oracle import ThermoOracle
from cv.tlaparse import printed_values
from cv.tlc import run_tlc, must_ok

LEVEL = "model_checking"
RTOL = 5e-8          # observed 2e-9 (pint versus CODATA-2018 constants); files carry 10-12 significant digits


def gpa_to_au(x):
    return x / consts.RY_BOHR3_TO_GPA


def record_stages(settings_path):
    """Run one Calculator construction with harness-side wrappers on its public stages; -> list of stage names in call order."""
    import cij.core.calculator as C
    import cij.core.full_modulus as F
    import cij.core.tasks as T
    import cij.core.qha_adapter as Q
    import warnings
    events, seen = [], set()

    def once(name):
        if name not in seen:
            seen.add(name)
            events.append({"stage": name})

    def after(cls, meth, name):
        orig = getattr(cls, meth)
        def w(self, *a, **k):
            r = orig(self, *a, **k)
            once(name)
            return r
        setattr(cls, meth, w)
        return (cls, meth, orig)

    patched = [after(C.Calculator, "_load", "loaded"), after(C.Calculator, "_apply_elastic_constants_symmetry", "filled"),
               after(C.Calculator, "_interpolate_modes", "interpolated"), after(C.Calculator, "_calculate_pressure_static", "pstatic"),
               after(F.FullThermalElasticModulus, "get_axial_strains", "strains"), after(T.PhononContributionTaskList, "calculate", "phonon"),
               after(F.FullThermalElasticModulus, "get_static_modulus", "static"), after(C.Calculator, "_process_cij", "summed"),
               after(C.Calculator, "_calculate_compliances", "done")]
    pp = Q.QHAVolumeBaseInterface.pressures
    Q.QHAVolumeBaseInterface.pressures = property(lambda self: (once("qha"), pp.fget(self))[1])
    try:
        with warnings.catch_warnings(), numpy.errstate(all="ignore"):
            warnings.simplefilter("ignore")
            C.Calculator(str(settings_path))
    finally:
        for cls, meth, orig in patched:
            setattr(cls, meth, orig)
        Q.QHAVolumeBaseInterface.pressures = pp
    return events


def pipeline_model(ctx):
    res = must_ok(run_tlc("Pipeline", "Pipeline.cfg", ctx.subdir("tlc_pipe"), workers=1, timeout=120))
    ctx.add_tlc(res)
    prov = printed_values(res.out, "PROV")
    if not prov:
        raise MachineryError("Pipeline model did not print its provenance relation")
    return {k: set(v) for k, v in prov[-1][1].items()}


def main(ctx, replay=None):
    from cij.util import c_
    rng = numpy.random.default_rng(ctx.seed + 505)
    prov = pipeline_model(ctx)
    exports = fillspec.cached_exports(ctx)
    insts = sched.load_instances(ctx)
    ctx.cov["rule"] = ("synthetic in-class file triples: nine crystal systems (invariant tensor fields, sufficient column subsets) + free "
                       "component sets with mixed shear keys, with/without lattice block, random counts and grids; a case is one data "
                       "set; all non-trivial; plus taint runs (one input class perturbed)")
    ctx.assumptions += ["QHA layer, numpy.polyfit and scipy interpolators are dependencies; P_total, C_V and the static pressure are taken "
                        "from the running object as the property names them as inputs", "comparison rtol 2e-6 of the term scale (file precision)"]
    plan = [("sys", s) for s in fillspec.SYSTEMS] + [("free", 0), ("free", 3), ("free", 12)]
    if ctx.tier == "thorough":
        plan = plan * 12
    wd = Workdir()
    datasets = []
    try:
        for n, (kind, arg) in enumerate(plan):
            kw = dict(lattice=bool(n % 2), interpolator=str(rng.choice(["lsq_poly", "spline", "lagrange", "krogh"])), order=3,
                      settings={"NT": int(rng.integers(3, 9)), "DT": float(rng.choice([50, 100, 250])), "T_MIN": float(rng.choice([0, 0, 100, 300])),
                                "NTV": int(rng.integers(7, 15)), "volume_ratio": float(rng.choice([1.1, 1.2, 1.2, 1.35]))})
            if n % 4 == 1:
                kw["nv_static"] = 4                       # the smallest static table the cubic fit admits
            if n % 3 == 2:
                # frequencies that are not power laws, interpolated with an order different from the QHA order (3): the expected
                # spectrum comes from an independent call of the interpolation with the configured method and order
                kw.update(freq_curv=0.3, order=int(rng.choice([2, 4])), nv=int(rng.integers(6, 12)))
            if kind == "sys" and n % 2 == 0:
                kw["minimal"] = True                      # a sufficient PROPER subset of the components: the rest comes from the filling
            ds = system_dataset(rng, exports, arg, **kw) if kind == "sys" else free_dataset(rng, extra_shear=arg, **kw)
            # every fourth data set (from the sixth on) is written over the files of the one before it: same paths, new contents, same process
            reuse = n >= 5 and n % 4 == 1 and bool(datasets)
            d = datasets[-1][1] if reuse else wd.sub(f"case{n}")
            ds.fit_pressure_window(d)
            pres = {"spell": "four" if n % 6 == 1 else True} if n % 3 == 1 else {}       # every third table with other column spellings
            if n % 4 == 2:
                pres["exponent"] = True                   # static values in exponent notation
            if n % 5 == 3:
                # rows of the static table (and of its lattice block) ascending in volume, or in no order
                pres["row_perm"] = list(range(ds.nv_static))[::-1] if n % 2 else [int(i) for i in rng.permutation(ds.nv_static)]
            sp = ds.write(d, pres=pres or None)
            if reuse:
                datasets[-1] = (ds, d)
            else:
                datasets.append((ds, d))
            desc = {"kind": kind, "same_paths_as_previous": reuse, "static_rows": "reordered" if "row_perm" in pres else "descending", "arg": arg, "nv": ds.nv, "nq": ds.nq, "nat": ds.nat, "lattice": ds.lattice, "interp": ds.interpolator,
                    "keys": ["%d%d" % k for k in ds.keys], "settings": ds.settings}
            ctx.count(desc)
            if n < 2:
                ctx.sample(desc)
            # one data set in four is calculated with the package's logger at DEBUG level (what `cij run --debug DEBUG` sets): logging is not input
            import logging
            lg = logging.getLogger("cij")
            old_level, verbose = lg.level, bool(n % 4 == 2)
            old_prop = lg.propagate
            if verbose:
                lg.setLevel(logging.DEBUG)
                lg.propagate = False                 # (enabled, but nothing is printed into the check's own output)
                if not any(isinstance(h, logging.NullHandler) for h in lg.handlers):
                    lg.addHandler(logging.NullHandler())
                desc["logger"] = "DEBUG"
            # one data set in four is calculated while the process's working directory is the directory of ANOTHER data set (files with the
            # same names, other contents): the files that count are those the settings file names, next to the settings file
            import os
            here = os.getcwd()
            other = next((dd for _ds, dd in datasets[:-1] if dd != d), None)
            if n % 4 == 3 and other is not None:
                os.chdir(other)
                desc["working_directory"] = "another data set's directory"
            try:
                calc = run(sp)
            except Exception as ex:
                os.chdir(here)
                lg.setLevel(old_level)
                lg.propagate = old_prop
                ctx.violation(f"Calculator failed on a well-formed synthetic data set ({kind} {arg}): {ex!r}", {**desc, "dir": str(d)},
                              {"clause": "completes", "exc": type(ex).__name__})
                continue
            os.chdir(here)
            lg.setLevel(old_level)
            lg.propagate = old_prop
            check_case(ctx, ds, calc, desc, insts)
        # T: the order in which the real constructor runs its stages is a behaviour of Pipeline.tla (partial order of stages)
        from cv.trace import validate_trace
        tr = []
        for ds, d in datasets[:4]:
            try:
                ev = record_stages(d / "settings.yaml")
            except Exception:
                continue
            tr += ([{"stage": "Reset"}] if tr else []) + ev
        if tr:
            ok, consumed, _ = validate_trace(ctx, "Trace_Pipeline", "Trace_Pipeline.cfg", tr, name="pipeline")
            if not ok:
                ctx.violation(f"the calculation runs stage '{tr[consumed]['stage']}' before what it reads exists (stage order so far: "
                              f"{[e['stage'] for e in tr[max(0, consumed - 6):consumed + 1]]})", {"trace": tr[:consumed + 1]}, {"clause": "stage_order", "stage": tr[consumed]["stage"]})
            elif ctx.tier == "thorough":
                from cv.trace import binding_control
                k = next((i for i, e in enumerate(tr) if e["stage"] == "phonon"), None)
                if k is not None:
                    j = next(i for i, e in enumerate(tr) if e["stage"] == "summed" and i > k)
                    swapped = tr[:k] + [tr[j]] + tr[k:j] + tr[j + 1:]
                    binding_control(ctx, "Trace_Pipeline", "Trace_Pipeline.cfg", swapped, k, lambda e: e, "pipeline_neg", "stage_order")
        taint(ctx, rng, datasets, prov, wd)
    finally:
        wd.close()


_ORACLES = {}


def oracle_for(ctx, shape):
    if shape not in _ORACLES:
        _ORACLES[shape] = ThermoOracle(ctx, [shape])
    return _ORACLES[shape]


def check_case(ctx, ds, calc, desc, insts):
    from cij.util import c_
    sig = {"kind": desc["kind"], "system": ds.system}
    fm = full_modulus_of(calc)
    strains = numpy.asarray(fm.get_axial_strains(), dtype=float)
    v = numpy.asarray(calc.v_array)
    # (i) strain fractions: equal thirds without lattice block; normalised log-derivatives of the axis lengths otherwise
    frac = strains / strains.sum(axis=1, keepdims=True)
    want = numpy.full_like(frac, 1.0 / 3.0) if not ds.lattice else ds.strain_fractions(v)
    tol = numpy.full(frac.shape[0], 1e-2)
    if not ds.lattice:
        tol[:] = 1e-12
    else:
        # outside the sampled volumes the cubic fit of the axis lengths extrapolates (the model function is not in its class there)
        inside = (v <= ds.static_volumes.max() * 0.98) & (v >= ds.static_volumes.min() * 1.02)
        tol[~inside] = numpy.inf
    if not numpy.all(numpy.abs(frac - want) <= tol[:, None]):
        dev = numpy.where(numpy.isfinite(tol)[:, None], numpy.abs(frac - want), 0.0)
        i = int(numpy.argmax(numpy.max(dev, axis=1)))
        ctx.violation(f"axial strain fractions at volume #{i} are {frac[i].tolist()}, the files give {want[i].tolist()}", desc, {**sig, "clause": "strains"})
        return
    # (i-a) the ends of the volume grid: the strain fractions derived from the axis lengths are a smooth field, so the value at a grid end
    #       continues the two nearest interior values (between half a step and a whole step of linear continuation, depending on whether
    #       the end uses a one-sided or a centred difference; allowance: half a step plus the local second differences)
    if ds.lattice and frac.shape[0] >= 6:
        for end, (a, b, c, e) in (("first", (0, 1, 2, 3)), ("last", (-1, -2, -3, -4))):
            step = frac[b] - frac[c]
            # (anything from no continuation to a step and a fifth is taken: a one-sided difference at the end of a curved field gives
            #  less than the half step of a linear one - observed 0.34; a wrap-around shows as several steps)
            cont = frac[b] + 0.6 * step
            allow = 0.6 * numpy.abs(step) + 4.0 * numpy.abs(frac[b] - 2.0 * frac[c] + frac[e]) + 1e-7
            if not numpy.all(numpy.abs(frac[a] - cont) <= allow):
                ctx.violation(f"axial strain fractions at the {end} grid volume are {frac[a].tolist()}; the neighbouring volumes have {frac[b].tolist()} and "
                              f"{frac[c].tolist()} (the axis lengths change smoothly with volume: no such jump at the end of the grid)", desc,
                              {**sig, "clause": "strains_grid_end"})
                return
    # (i-b) the static pressure is -dE/dV of the cubic finite-strain fit of the static energies (in-class: the BM3 form itself);
    #       the code differentiates numerically on the volume grid, hence the loose tolerance (a wrong reference volume or a
    #       wrong energy column is a shift of many GPa)
    x = (ds.veq / v) ** (1.0 / 3.0)
    p_exact = 1.5 * ds.k0 * (x ** 7 - x ** 5) * (1.0 + 0.75 * (ds.kp - 4.0) * (x ** 2 - 1.0))
    pst = numpy.asarray(calc.static_p_array)
    inner = slice(1, -1)
    if not numpy.max(numpy.abs(pst[inner] - p_exact[inner])) <= 0.02 * numpy.max(numpy.abs(p_exact)) + 1e-7:
        i = int(numpy.argmax(numpy.abs(pst[inner] - p_exact[inner]))) + 1
        ctx.violation(f"static pressure at volume #{i} is {pst[i] * consts.RY_BOHR3_TO_GPA:.3f} GPa, -dE/dV of the static energies is "
                      f"{p_exact[i] * consts.RY_BOHR3_TO_GPA:.3f} GPa", desc, {**sig, "clause": "static_pressure"})
        return
    # (ii) every modulus = static(model function of the table) + phonon(TLC-derived, with the strains the object reports)
    keys = [tuple(k.voigt) for k in calc.modulus_keys]
    if set(keys) != set(ds.full_keys):
        ctx.violation(f"components {sorted(keys)} computed, the (filled) table has {sorted(ds.full_keys)}", desc, {**sig, "clause": "keys"})
        return
    case = oracle_case(ds, calc)
    oracle = oracle_for(ctx, (ds.nq, ds.nat))
    scen = scenario_of(strains)
    pe = PhononExpectation(oracle, insts[scen], case, strains)
    worst = (0.0, None)
    for k in keys:
        stat = gpa_to_au(ds.static_gpa(k, v))[None, :]
        iso_p, adi_p, scale_i, scale_a = pe.key(k)
        for name, got, exp, scale_p in (("isothermal", calc.modulus_isothermal[c_(*k)], stat + iso_p, scale_i),
                                        ("adiabatic", calc.modulus_adiabatic[c_(*k)], stat + adi_p, scale_a)):
            got = numpy.asarray(got)
            if numpy.iscomplexobj(got) or got.shape != exp.shape:
                ctx.violation(f"c{k[0]}{k[1]} ({name}) has dtype {got.dtype} / shape {got.shape}", desc, {**sig, "clause": "shape"})
                return
            scale = numpy.abs(stat) + scale_p
            with numpy.errstate(all="ignore"):
                err = numpy.abs(got - exp) / scale
            finite_exp = numpy.isfinite(exp)
            bad = finite_exp & ~(err <= RTOL)
            if numpy.any(bad):
                idx = tuple(int(x) for x in numpy.argwhere(bad)[0])
                # static or phonon?  (diagnosis only)
                sg = numpy.asarray(fm.get_static_modulus(c_(*k)))
                part = "static part" if abs(sg[idx[1]] - stat[0, idx[1]]) > RTOL * abs(stat[0, idx[1]]) else "phonon part"
                ctx.violation(f"c{k[0]}{k[1]} ({name}) at T={case['t'][idx[0]]:g}, V#{idx[1]} = {got[idx]!r}, files give {exp[idx]!r} ({part}; "
                              f"{desc['kind']} {ds.system or ''} lattice={ds.lattice})", {**desc, "key": k, "index": idx, "got": float(got[idx]), "expected": float(exp[idx])},
                              {**sig, "clause": "total", "part": part})
                return
            worst = max(worst, (float(numpy.nanmax(numpy.where(finite_exp, err, 0))), k), key=lambda x: x[0])
    ctx.cov.setdefault("max_rel_dev", 0.0)
    ctx.cov["max_rel_dev"] = max(ctx.cov["max_rel_dev"], worst[0])


OBS = {
    "v_array": lambda c: c.v_array, "t_array": lambda c: c.t_array,
    "freq_array": lambda c: c.freq_array, "mode_gamma": lambda c: numpy.array(c.mode_gamma),
    "p_static": lambda c: c.static_p_array, "strains": lambda c: full_modulus_of(c).get_axial_strains(),
    "static": lambda c: numpy.array([full_modulus_of(c).get_static_modulus(k) for k in c.modulus_keys]),
    "phonon_iso": lambda c: numpy.array([phonon_parts(c)[0][k] for k in c.modulus_keys]),
    "phonon_adi": lambda c: numpy.array([phonon_parts(c)[1][k] for k in c.modulus_keys]),
    "modulus_iso": lambda c: numpy.array([c.modulus_isothermal[k] for k in c.modulus_keys]),
    "p_total": lambda c: c.qha_calculator.volume_base.pressures, "c_v": lambda c: c.qha_calculator.volume_base.heat_capacity,
}
MUST = {"table": {"static", "modulus_iso"}, "freq": {"freq_array", "phonon_iso", "modulus_iso"}, "tgrid": {"t_array"},
        "weights": {"phonon_iso"}, "energy": {"p_static"}, "lattice": {"strains"}, "natoms": set(), "interp": set()}


def perturb(ds, cls, rng):
    d2 = copy.deepcopy(ds)
    d2.rng = rng
    if cls == "table":
        k = d2.keys[int(rng.integers(0, len(d2.keys)))]
        if d2.system:            # keep the table consistent: scale every column
            d2.polys = {kk: tuple(x * 1.07 for x in p) for kk, p in d2.polys.items()}
        else:
            d2.polys[k] = tuple(x * 1.07 for x in d2.polys[k])
    elif cls == "freq":
        d2.amp = d2.amp * 1.03
    elif cls == "weights":
        if d2.nq < 2:
            return None
        d2.weights = d2.weights.copy()
        d2.weights[-1] *= 1.5
    elif cls == "energy":
        d2.k0 *= 1.02
        f = ((d2.veq / d2.volumes) ** (2.0 / 3.0) - 1.0) / 2.0
        d2.energies = d2.e0 + 4.5 * d2.k0 * d2.veq * f ** 2 * (1.0 + (d2.kp - 4.0) * f)
    elif cls == "tgrid":
        d2.settings = dict(d2.settings, DT=float(d2.settings["DT"]) * 1.5)
    elif cls == "lattice":
        if not d2.lattice:
            return None
        s = d2.axis_exp.copy()
        s[0], s[1] = s[0] + 0.04, s[1] - 0.04
        d2.axis_exp = s
    elif cls == "mass":
        d2.cellmass *= 1.1
    elif cls == "vref":
        d2.vref *= 0.93
    else:
        return None
    return d2


def taint(ctx, rng, datasets, prov, wd):
    """Perturb one input class, observe which quantities change; changed must be within the model's provenance relation,
    and the listed must-change pairs must change."""
    picks = [x for x in datasets if x[0].lattice and x[0].nq >= 2][:1] + [x for x in datasets if not x[0].lattice][:1]
    for ds, d in picks:
        try:
            base = run(d / "settings.yaml")
        except Exception:
            continue
        ref = {q: numpy.array(f(base), dtype=float) for q, f in OBS.items()}
        for cls in ("table", "freq", "weights", "energy", "tgrid", "lattice", "mass", "vref"):
            d2 = perturb(ds, cls, rng)
            if d2 is None:
                continue
            dd = wd.sub(f"taint_{id(ds)}_{cls}")
            try:
                calc = run(d2.write(dd))
            except Exception as ex:
                continue                 # e.g. the pressure window moved out of range: not a statement about provenance
            ctx.count({"taint": cls, "nv": ds.nv, "nq": ds.nq, "lattice": ds.lattice})
            changed = set()
            for q, f in OBS.items():
                new = numpy.array(f(calc), dtype=float)
                # (the phonon parts are observed as reported modulus - reported static part: rounding of the subtraction is 1e-16 of the total)
                atol = 1e-12 * float(numpy.nanmax(numpy.abs(ref["modulus_iso"]))) if q.startswith("phonon_") else 0.0
                if new.shape != ref[q].shape or not numpy.allclose(new, ref[q], rtol=1e-10, atol=atol, equal_nan=True):
                    changed.add(q)
            illegal = {q for q in changed if q in prov and cls not in prov[q]}
            if illegal:
                ctx.violation(f"perturbing only the input class '{cls}' changed {sorted(illegal)}, which the pipeline specification makes "
                              f"independent of it", {"class": cls, "changed": sorted(changed)}, {"clause": "taint", "class": cls, "quantities": sorted(illegal)})
            must = MUST.get(cls, set())
            if cls in ("freq", "weights") and ds.nq * ds.np <= 3:
                must = set()             # a one-atom cell sampled at Gamma only has no mode that counts: nothing can change
            missing = must - changed
            if missing:
                ctx.violation(f"perturbing the input class '{cls}' left {sorted(missing)} unchanged", {"class": cls, "changed": sorted(changed)},
                              {"clause": "taint_must", "class": cls})
