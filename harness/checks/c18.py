"""C18 -- run-static reports a consistent static EoS and elasticity table in every mode.

Model (spec/StaticCli.tla): every invocation (mode x table x system x cell mass x ntv x sampling stride) with the columns, row
rule and units it must print.  Binding (R+T): the command is run through click on in-class synthetic inputs (energies and
moduli exactly quadratic in Eulerian strain, so the second-order fit is exact); printed rows are parsed; F, P, density and the
moduli are compared with the analytic model, P with finite differences of F across rows, pressure-mode rows with the
requested pressures; the VRH / velocity relations of every row are validated by Trace_Averages.tla (shared with C07).
"""
import tempfile
from pathlib import Path

import numpy

from cv import consts, fillspec
from cv.core import MachineryError
from cv.polyeval import evaluate
from cv.synth import KEYS21, ORTHO9, eulerian
from cv.tlaparse import printed_values
from cv.tlc import run_tlc, must_ok
from cv.trace import validate_trace

LEVEL = "model_checking"
G = consts.RY_BOHR3_TO_GPA


class StaticCase:
    def __init__(self, rng, exports, system):
        self.nv = int(rng.integers(5, 10))
        vmax = float(rng.uniform(300, 900))
        self.vol = numpy.linspace(vmax, vmax * rng.uniform(0.72, 0.8), self.nv)
        # the volumes of INPUT01 in file order: descending (as shipped), ascending or unsorted; the energies are quadratic in the
        # Eulerian strain referred to the FIRST volume of the file, which is what the command's fit refers to
        self.order = str(rng.choice(["descending", "descending", "ascending", "unsorted"]))
        if self.order == "ascending":
            self.vol = self.vol[::-1].copy()
        elif self.order == "unsorted":
            self.vol = self.vol[rng.permutation(self.nv)]
        self.v0 = self.vol[0]
        k0 = rng.uniform(150, 250) / G
        veq_f = rng.uniform(0.005, 0.02)
        # E(f) = e0 + c (f - f0)^2 : exactly quadratic in the Eulerian strain referred to the first volume
        # (the same physical equation of state whatever the file order: equilibrium just below the largest volume, bulk modulus k0 there)
        veq = float(self.vol.max()) / (1.0 + 2.0 * veq_f) ** 1.5
        self.e0, self.c2, self.f0 = -rng.uniform(50, 300), 4.5 * k0 * veq * (veq / self.v0) ** (4.0 / 3.0), float(eulerian(self.v0, veq))
        if rng.random() < 0.3:
            self.e0 = 0.0                       # energies given relative to the minimum (the zero of energy is a convention)
        # a cubic term in half of the cases: then the data are not their own second-order fit, and a fit of another order shows
        self.c3 = float(self.c2 * rng.uniform(-1.5, 1.5)) if rng.random() < 0.5 else 0.0
        self._coef = None
        self.mass = float(rng.uniform(40, 300))
        self.system = system
        e = exports[system or "triclinic"]
        def inv(lo, hi):
            return fillspec.invariant_vector(e, rng, lo, hi)
        from cv.e2e import isotropic_plus
        c0 = isotropic_plus(e, rng, 15.0)
        c1 = isotropic_plus(e, rng, 100.0)
        c2 = inv(-400, 400)
        self.polys = {k: (c0[k], 8.0 * c1[k], c2[k]) for k in KEYS21}
        van = set(e["vanishing"])
        self.nonvan = [KEYS21[n - 1] for n in range(1, 22) if n not in van]
        self.svol = numpy.linspace(self.vol.max() * rng.uniform(0.98, 1.02), self.vol.min() * rng.uniform(0.98, 1.02), int(rng.integers(5, 9)))
        if rng.random() < 0.3 and self.nv >= 4:
            # the static table lists as many volumes as the energy file, with the same first and last volume, and OTHER volumes in between
            # (two calculations on the same compression range with different intermediate points)
            self.svol = self.vol.copy()
            step = float(numpy.min(numpy.abs(numpy.diff(numpy.sort(self.vol)))))
            self.svol[1:-1] += rng.uniform(0.15, 0.4, self.nv - 2) * step * rng.choice([-1.0, 1.0], self.nv - 2)
            self.same_ends = True
        self.sv0 = self.svol[0]

    def tabulated_energy(self, v):
        """the energies written to INPUT01: quadratic in the Eulerian strain, in half of the cases with a cubic term on top"""
        f = eulerian(self.v0, numpy.asarray(v, dtype=float))
        return self.e0 + self.c2 * (f - self.f0) ** 2 + self.c3 * f ** 3

    def _fit(self):
        # the SECOND-ORDER finite-strain least-squares fit of the tabulated energies (numpy.polyfit, degree 2 in the strain referred
        # to the file's first volume) - for purely quadratic data it is the data's own parabola
        if self._coef is None:
            e = numpy.array([float("%.12f" % x) for x in self.tabulated_energy(self.vol)])
            self._coef = numpy.polyfit(eulerian(self.v0, self.vol), e, 2)
        return self._coef

    def energy(self, v):
        return numpy.polyval(self._fit(), eulerian(self.v0, numpy.asarray(v, dtype=float)))

    def pressure(self, v):
        v = numpy.asarray(v, dtype=float)
        f = eulerian(self.v0, v)
        dfdv = -(1.0 / 3.0) * (self.v0 / v) ** (2.0 / 3.0) / v
        return -numpy.polyval(numpy.polyder(self._fit()), f) * dfdv

    def modulus(self, k, v):
        f = eulerian(self.sv0, numpy.asarray(v, dtype=float))
        p = self.polys[k]
        return p[0] + p[1] * f + p[2] * f ** 2

    def write(self, d, supplied):
        lines = ["synthetic", "", f"{self.nv} 1 3 1 1", ""]
        for v in self.vol:
            en = float(self.tabulated_energy(v))
            # (plain decimals, or exponent notation with as many digits, as codes print them)
            lines += [f"P= 0.0 V= {v:.10f} E= " + (f"{en:.14E}" if getattr(self, "exponent", False) else f"{en:.12f}"), "0.0 0.0 0.0", "0.0", "0.0", "0.0"]
        lines += ["", "weight", "0.0 0.0 0.0 1.0"]
        (d / "input01").write_text("\n".join(lines) + "\n")
        t = ["static table", f"{self.sv0:.6f} {len(self.svol)} {self.mass:.6f}", "V " + " ".join("c%d%d" % k for k in supplied)]
        for v in self.svol:
            t.append(f"{v:.10f} " + " ".join(f"{float(self.modulus(k, v)):.10f}" for k in supplied))
        (d / "elast.dat").write_text("\n".join(t) + "\n")


def parse(text):
    lines = [l for l in text.splitlines() if l.strip()]
    while lines and lines[0].split()[0] != "V":          # log lines (e.g. the symmetry warning) may precede the table
        lines.pop(0)
    cols = lines[0].split()
    rows = numpy.array([[float(x) for x in l.split()[1:]] for l in lines[1:]])
    return cols, rows


def main(ctx, replay=None):
    from click.testing import CliRunner
    from cij.cli.static import main as static_main
    rng = numpy.random.default_rng(ctx.seed + 1818)
    res = must_ok(run_tlc("StaticCli", "StaticCli.cfg", ctx.subdir("tlc"), workers=1, timeout=120))
    ctx.add_tlc(res)
    table = printed_values(res.out, "STATIC")
    table = list({repr(t): t for t in table}.values())
    if len(table) < 50:
        raise MachineryError("StaticCli enumeration too small")
    exports = fillspec.cached_exports(ctx)
    ctx.cov["rule"] = ("every invocation class enumerated by TLC (mode x table x system x cell mass x ntv x sampling stride) on in-class synthetic inputs; "
                       "a case is one invocation; non-trivial = with static table or interpolating mode; quick: 36 invocations, thorough: all")
    ctx.assumptions += ["P is compared with the analytic derivative to 2e-3 (the command differentiates numerically on ntv points)",
                        "pandas prints six significant digits"]
    picks = table if ctx.tier == "thorough" else [table[int(i)] for i in rng.permutation(len(table))[:30]]
    if ctx.tier != "thorough":
        sampled = [t for t in table if t[1] == "pressure" and t[8] in (3, 7)]
        picks += [sampled[int(i)] for i in rng.permutation(len(sampled))[:6]]
    tmp = Path(tempfile.mkdtemp(prefix="cijverif.c18."))
    records = []
    nsamp = 0
    try:
        prev_d = None
        vrh_forms = must_ok(run_tlc("C07", None, ctx.subdir("tlc_c07"), workers=1, timeout=300)).load("c07_forms.json")
        forced_systems = ["tetragonal7", "trigonal7", "trigonal6"]
        for pn, (_, mode, has_table, with_sys, with_mass, ntv, has_density, rowrule, sample, stride, nrows_spec) in enumerate(picks):
            system = str(rng.choice(["hexagonal", "cubic", "tetragonal6", "orthorhombic", "trigonal6", "tetragonal7", "trigonal7"])) if with_sys else None
            if with_sys and has_table and forced_systems:
                system = forced_systems.pop(0)           # (the systems with a normal-shear coupling are present whatever the draw)
            sc = StaticCase(rng, exports, system)
            sc.exponent = bool(pn % 3 == 1)
            # every third invocation works on the files of the one before it, rewritten in place (same paths, other material, same process)
            same_paths = bool(pn % 3 == 2 and prev_d is not None)
            d = prev_d if same_paths else Path(tempfile.mkdtemp(dir=tmp))
            prev_d = d
            if with_sys:
                # supply a sufficient subset only: the nine orthotropic ones that do not vanish plus what else is independent
                supplied = sc.nonvan
                dropped = [k for k in supplied if k in ((2, 2), (2, 3), (5, 5))] if system in ("hexagonal", "cubic", "tetragonal6", "trigonal6", "tetragonal7", "trigonal7") else []
                supplied = [k for k in supplied if k not in dropped]
            else:
                supplied = sc.nonvan if rng.random() < 0.5 else list(ORTHO9)
            sc.write(d, supplied)
            args = [str(d / "input01")] + ([str(d / "elast.dat")] if has_table else []) + ["-I", mode, "-n", str(ntv)]
            mass_opt = float(rng.uniform(30, 400))
            if with_mass:
                args += ["--cellmass", repr(mass_opt)]
            if with_sys:
                args += ["-s", system]
            pmin, dp = 0.0, 0.0
            if mode == "pressure":
                pmax_ok = float(sc.pressure(sc.vol.min()) * G) * 0.8
                # (the fitted range reaches into tension: a pressure grid may start below zero)
                pmin = round(float(rng.uniform(0.0, 5.0)), 3) if rng.random() < 0.6 else round(float(rng.uniform(-2.5, -0.2)), 3)
                dp = round((pmax_ok - pmin) / (ntv - 1), 4)
                if sample > 1:
                    # make the floating-point quotient delta_p_sample / delta_p fall below the integer in every other case
                    nsamp += 1
                    want_below = bool(nsamp % 2 == 0)
                    for k in range(40):
                        cand = round(dp - k * 1e-4, 4)
                        if cand > 0 and ((round(sample * cand, 6) / cand < sample) == want_below):
                            dp = cand
                            break
                args += ["--p-min", repr(pmin), "--delta-p", repr(dp)]
            if sample > 0:
                # as a user types it: a decimal number that is `sample` times delta_p (the floating-point quotient may fall on either side)
                args += ["--delta-p-sample", repr(round(sample * (dp if mode == "pressure" else 1.0), 6))]
            case = {"mode": mode, "table": has_table, "system": system, "cellmass": with_mass, "ntv": ntv, "sample": sample, "volume_order": sc.order,
                    "same_paths_as_previous": same_paths, "energies_in_exponent_notation": sc.exponent}
            ctx.count(case, nontrivial=has_table or mode != "none")
            sig = {"mode": mode, "table": has_table}
            r = CliRunner().invoke(static_main, args)
            if r.exit_code != 0:
                ctx.violation(f"cij run-static {' '.join(args[1:] if not has_table else args[2:])} failed: {r.exception!r}", case,
                              {**sig, "clause": "raises", "exc": type(r.exception).__name__})
                continue
            cols, rows = parse(r.output)
            col = {c: rows[:, i] for i, c in enumerate(cols)}
            # ---- columns and rows as the specification says --------------------------------------------------
            want_cols = ["V", "F", "P"] + (["density"] if has_density else [])
            missing = [c for c in want_cols if c not in col]
            if has_table:
                missing += [c for c in ("bm_V", "bm_R", "bm_VRH", "G_V", "G_R", "G_VRH", "v_p", "v_s", "v_phi") if c not in col]
                expect_keys = sc.nonvan if with_sys else supplied
                missing += ["c%d%d" % k for k in expect_keys if "c%d%d" % k not in col]
            nrows = sc.nv if rowrule == "input_volumes" else nrows_spec
            if missing or rows.shape[0] != nrows:
                ctx.violation(f"run-static ({case}): columns {missing} missing or {rows.shape[0]} rows instead of {nrows}", {**case, "columns": cols}, {**sig, "clause": "columns"})
                continue
            V = col["V"] / consts.BOHR3_TO_ANG3                 # back to bohr^3
            bad = None
            if mode == "none" and not numpy.allclose(V, sc.vol, rtol=2e-6):
                bad = "rows are not at the input volumes"
            if mode == "volume" and not numpy.allclose(V, numpy.linspace(sc.vol.min() / 1.2, sc.vol.max() * 1.2, ntv), rtol=2e-6):
                bad = "rows are not the ntv equally spaced volumes"
            if mode == "pressure" and not numpy.allclose(col["P"], pmin + dp * stride * numpy.arange(nrows), rtol=2e-6, atol=1e-6):
                bad = f"rows do not sit at the requested pressures (first {col['P'][:3].tolist()}, requested {[pmin, pmin + dp * stride]})"
            # F: the fit at the reported V; in mode none the input energies themselves
            Fexp = (sc.tabulated_energy(V) if mode == "none" else sc.energy(V)) * consts.RY_TO_EV
            # in pressure mode V and F are four-point interpolated from the ntv-point volume grid: accuracy ~ (1/ntv)^3 of the range
            fatol = 1e-6 + (float(numpy.ptp(Fexp)) * 20.0 / ntv ** 3 if mode == "pressure" else 0.0)
            if bad is None and not numpy.allclose(col["F"], Fexp, rtol=5e-6, atol=fatol):
                i = int(numpy.argmax(numpy.abs(col["F"] - Fexp)))
                bad = f"F[{i}] = {col['F'][i]} eV, the fit of the input energies at V = {col['V'][i]} A^3 is {Fexp[i]} eV"
            Pexp = sc.pressure(V) * G
            inner = slice(1, -1) if mode != "pressure" else slice(None)
            ptol = 3e-3 + 15.0 / ntv ** 2            # the command differentiates the fit numerically on ntv points
            if bad is None and not numpy.allclose(col["P"][inner], Pexp[inner], rtol=ptol, atol=ptol * max(1.0, float(numpy.max(numpy.abs(Pexp))))):
                i = int(numpy.argmax(numpy.abs(col["P"][inner] - Pexp[inner]))) + (1 if mode != "pressure" else 0)
                bad = f"P[{i}] = {col['P'][i]} GPa, -dF/dV of the fit is {Pexp[i]} GPa"
            if bad is None and mode == "volume" and ntv >= 51:
                fd = -numpy.gradient(col["F"] / consts.RY_TO_EV, V) * G
                if not numpy.allclose(fd[2:-2], col["P"][2:-2], rtol=5e-3, atol=5e-3 * float(numpy.max(numpy.abs(Pexp)))):
                    bad = "P is not the negative volume derivative of the F column (finite differences across rows)"
            if bad is None and has_density:
                m = mass_opt if with_mass else sc.mass
                rho = m / (consts.N_A * V * consts.BOHR_M ** 3 * 1e6)
                if not numpy.allclose(col["density"], rho, rtol=5e-6):
                    bad = f"density[0] = {col['density'][0]} g/cm^3, mass/(N_A V) = {rho[0]}"
            if bad is None and has_table:
                for k in expect_keys:
                    me = sc.modulus(k, V)
                    if not numpy.allclose(col["c%d%d" % k], me, rtol=5e-6, atol=5e-5):
                        bad = f"c{k[0]}{k[1]}[0] = {col['c%d%d' % k][0]}, the finite-strain fit of the static table gives {me[0]}"
                        break
            if bad is None and has_table:
                # the row's Voigt and Reuss averages are those of the row's own moduli: the contractions exported by C07.tla (linear forms
                # of the stiffness and of its inverse) evaluated on the printed c_ij, wherever the printed stiffness is positive definite
                Cm = numpy.zeros((rows.shape[0], 6, 6))
                for (a, b) in KEYS21:
                    if "c%d%d" % (a, b) in col:
                        Cm[:, a - 1, b - 1] = Cm[:, b - 1, a - 1] = col["c%d%d" % (a, b)]
                pdrow = numpy.all(numpy.linalg.eigvalsh(Cm) > 1e-3, axis=-1) & (numpy.linalg.cond(Cm) < 1e6)
                if numpy.any(pdrow):
                    Sm = numpy.zeros_like(Cm)
                    Sm[pdrow] = numpy.linalg.inv(Cm[pdrow])
                    catoms = {"c%d%d" % k: Cm[:, k[0] - 1, k[1] - 1] for k in KEYS21}
                    satoms = {"s%d%d" % k: Sm[:, k[0] - 1, k[1] - 1] for k in KEYS21}
                    with numpy.errstate(all="ignore"):
                        expv = {"bm_V": evaluate(vrh_forms["kv"], catoms), "G_V": evaluate(vrh_forms["gv"], catoms),
                                "bm_R": 1.0 / evaluate(vrh_forms["kr_den"], satoms), "G_R": 1.0 / evaluate(vrh_forms["gr_den"], satoms)}
                    for nm, ev in expv.items():
                        # (six printed digits of every c_ij; the inverse amplifies them by the condition number, bounded above)
                        if nm in col and not numpy.allclose(col[nm][pdrow], numpy.asarray(ev)[pdrow], rtol=2e-3 if nm.endswith("_R") else 2e-5, atol=1e-4):
                            j = int(numpy.argmax(numpy.abs(col[nm][pdrow] - numpy.asarray(ev)[pdrow])))
                            bad = f"{nm} = {col[nm][pdrow][j]} in a row whose printed moduli give {numpy.asarray(ev)[pdrow][j]}"
                            break
            if bad is None and has_table:
                okrow = numpy.isfinite(col["v_phi"]) & (col["bm_VRH"] > 0)
                if not numpy.allclose((col["density"] * col["v_phi"] ** 2)[okrow], col["bm_VRH"][okrow], rtol=2e-5):
                    bad = "rho v_phi^2 differs from K_VRH"
            if bad:
                ctx.violation(f"run-static {case}: {bad}", {**case, "output_head": r.output[:600]}, {**sig, "clause": "value", "what": bad.split(",")[0].split("[")[0][:24]})
                continue
            if has_table:
                records += row_records(col, rows.shape[0])
        ctx.sample({"invocation": list(picks[0][1:])})
        # ---- a pressure grid in decimal steps: exactly NTV rows at P_MIN + k DELTA_P (column counts at which a floating-point arange of
        #      that step comes out one entry too long are among them)
        sc = StaticCase(rng, exports, None)
        dd = Path(tempfile.mkdtemp(dir=tmp))
        sc.write(dd, list(ORTHO9))
        top = float(sc.pressure(sc.vol.min()) * G) * 0.8
        for pm, dpv, nn in ((0.0, 0.1, 12), (0.0, 0.1, 101), (0.5, 0.1, 24), (0.0, 0.2, 36), (1.0, 0.3, 16)):
            if pm + dpv * (nn - 1) >= top:
                continue
            args = [str(dd / "input01"), "-I", "pressure", "-n", str(nn), "--p-min", repr(pm), "--delta-p", repr(dpv)]
            case = {"mode": "pressure", "decimal_grid": [pm, dpv, nn]}
            ctx.count(case)
            r = CliRunner().invoke(static_main, args)
            if r.exit_code != 0:
                ctx.violation(f"cij run-static {' '.join(args[1:])} failed: {r.exception!r}", case, {"mode": "pressure", "table": False, "clause": "raises", "exc": type(r.exception).__name__})
                continue
            cols, rows = parse(r.output)
            pcol = rows[:, cols.index("P")] if "P" in cols else numpy.array([])
            want = pm + dpv * numpy.arange(nn)
            if len(pcol) != nn or not numpy.allclose(pcol, want, rtol=0, atol=2e-3):
                ctx.violation(f"cij run-static -I pressure --p-min {pm} --delta-p {dpv} -n {nn}: {len(pcol)} rows, pressures {pcol[:2].tolist()}..{pcol[-2:].tolist()}; "
                              f"requested: {nn} rows from {want[0]:g} to {want[-1]:g} GPa", case, {"mode": "pressure", "table": False, "clause": "rows"})
        if records:
            usable = [r for r in records if r["pd"]]
            ok, consumed, _ = validate_trace(ctx, "Trace_Averages", "Trace_Averages.cfg", usable, name="static_rows", timeout=600)
            ctx.cov["row_records"] = len(usable)
            if not ok:
                b = usable[consumed]
                ctx.violation(f"run-static row violates the averages specification (Hill mean / bounds / rho v^2): kv,kr,kh={b['kv']},{b['kr']},{b['kh']} "
                              f"gv,gr,gh={b['gv']},{b['gr']},{b['gh']} rho={b['rho']} vp={b['vp']} vs={b['vs']}", {"record": b}, {"mode": "rows", "table": True, "clause": "trace"})
    finally:
        import shutil
        shutil.rmtree(tmp, ignore_errors=True)


def row_records(col, n):
    out = []
    for i in range(0, n, max(1, n // 12)):
        C = numpy.zeros((6, 6))
        for (a, b) in KEYS21:
            nm = "c%d%d" % (a, b)
            if nm in col:
                C[a - 1, b - 1] = C[b - 1, a - 1] = col[nm][i]
        pd = bool(numpy.all(numpy.linalg.eigvalsh(C) > 1e-6))
        S = numpy.linalg.inv(C) if pd else numpy.zeros((6, 6))
        ci, si = numpy.rint(C * 10).astype(int), numpy.rint(S * 1e6).astype(int)
        if numpy.max(numpy.abs(ci)) > 30000 or float(numpy.max(numpy.abs(si))) * float(numpy.max(numpy.abs(ci))) * 6 >= 2 ** 31:
            continue                     # (a nearly singular row: the products of the record would overflow TLC's 32-bit integers)
        islack = int(6 * (0.5 * numpy.max(numpy.abs(si)) + 0.5 * numpy.max(numpy.abs(ci))) + 6 + 1e7 * 2e-5 * 6)     # printed with 6 digits
        rho, vp, vs = col["density"][i], col["v_p"][i], col["v_s"][i]
        if not (pd and all(numpy.isfinite(col[c][i]) for c in ("bm_V", "bm_R", "bm_VRH", "G_V", "G_R", "G_VRH", "v_p", "v_s", "density"))):
            continue                     # outside the positive-definite region the relations are not claimed
        if rho * 100 * (vp * 100) ** 2 > 2 ** 30 // 3:
            continue
        vsl = int(rho * 100 * 2 * vp * 100 * 0.5 + (vp * 100) ** 2 * 0.5 + 0.5 * 10000 + 50 + rho * 100 * (vp * 100) ** 2 * 4e-5)
        out.append({"c": ci.tolist(), "s": si.tolist(), "islack": islack, "kv": int(round(col["bm_V"][i] * 100)), "kr": int(round(col["bm_R"][i] * 100)),
                    "kh": int(round(col["bm_VRH"][i] * 100)), "gv": int(round(col["G_V"][i] * 100)), "gr": int(round(col["G_R"][i] * 100)),
                    "gh": int(round(col["G_VRH"][i] * 100)), "rho": int(round(rho * 100)), "vp": int(round(vp * 100)), "vs": int(round(vs * 100)),
                    "vslack": vsl, "pd": pd, "sys": "static"})
    return out
