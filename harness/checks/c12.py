"""C12 -- results are finite and real on the whole grid for every valid configuration.

Model: spec/ConfigSpace.tla enumerates the valid configurations (interpolator x admissible order from Interp!Adm x crystal
system or free mixed-shear component set x temperature-grid class x lattice block: 10 560 states); spec/FloatClass.tla
transcribes the Bose factors over IEEE classes and TLC checks that every unmasked class of Q yields a finite class.
Binding (R): configurations sampled by the TLC simulator (quick) / drawn from the exhaustive enumeration (thorough) are
concretised into synthetic file triples and run; dtype, finiteness, T=0 and T->0 clauses are checked on the results; the
predicted Bose classes are compared with the classes the real Q1/Q2 produce.
"""
import logging
from types import SimpleNamespace

import numpy

from cv import fillspec
from cv.core import MachineryError
from cv.e2e import Workdir, free_dataset, system_dataset
from cv.synth import run
from cv.tlaparse import printed_values
from cv.tlc import run_tlc, must_ok

LEVEL = "model_checking"


def classify(x):
    if numpy.isnan(x):
        return "nan"
    if numpy.isinf(x):
        return "inf"
    return "zero" if x == 0 else "fin"


def bose_classes(ctx):
    """FloatClass.tla predictions vs the classes produced by the real Q1/Q2 (evidence only; an observed NaN in results is
    a violation wherever it appears, whatever the model says)."""
    res = must_ok(run_tlc("FloatClass", "FloatClass.cfg", ctx.subdir("tlc_fc"), workers=1, timeout=60))
    ctx.add_tlc(res)
    pred = {q: (a, b) for _, q, a, b in printed_values(res.out, "BOSE")}
    from cij.core.phonon_contribution.nonshear import LongitudinalElasticModulusPhononContribution as L, h_div_k
    rep = {"zero": 0.0, "fin": 200.0, "huge": 1200.0 * 800.0}          # cm^-1 at T = 1 K / T>0; inf via T = 0
    obs = {}
    for q, w in rep.items():
        duck = SimpleNamespace(v_array=numpy.array([100.0]), t_array=numpy.array([1.0]), freq_array=numpy.array([[[w]]]),
                               qha_calculator=None, nv=1, np=1, nq=1, na=1)
        o = L(duck, (numpy.array([0.3]), numpy.array([0.3])))
        with numpy.errstate(all="ignore"):
            obs[q] = (classify(float(o.Q1.ravel()[0])), classify(float(o.Q2.ravel()[0])))
    duck = SimpleNamespace(v_array=numpy.array([100.0]), t_array=numpy.array([0.0]), freq_array=numpy.array([[[200.0]]]),
                           qha_calculator=None, nv=1, np=1, nq=1, na=1)
    o = L(duck, (numpy.array([0.3]), numpy.array([0.3])))
    with numpy.errstate(all="ignore"):
        obs["inf"] = (classify(float(o.Q1.ravel()[0])), classify(float(o.Q2.ravel()[0])))
    ctx.cov["bose_classes"] = {"predicted": pred, "observed": obs, "agree": all(pred[q] == obs[q] for q in pred)}
    return pred, obs


def main(ctx, replay=None):
    logging.getLogger("cij").setLevel(logging.CRITICAL)
    rng = numpy.random.default_rng(ctx.seed + 1212)
    bose_classes(ctx)
    sc = ctx.subdir("tlc_cs")
    res = must_ok(run_tlc("ConfigSpace", "ConfigSpace.cfg", sc, workers=1, timeout=900))
    allc = [c[1] for c in printed_values(res.out, "CFG")]
    aux = printed_values(res.out, "AUX")
    if not aux:
        raise MachineryError("ConfigSpace did not export the secondary settings")
    NTS, QORDERS, VRATIOS = (sorted(x) for x in aux[0][1:4])
    DEFAULT_MG = aux[0][4]
    ctx.cov["configurations_enumerated"] = len(allc)
    if len(allc) < 20000:
        raise MachineryError(f"ConfigSpace enumerated only {len(allc)} configurations")
    nsample = 110 if ctx.tier == "quick" else 2500
    order = [allc[int(i)] for i in rng.permutation(len(allc))]
    # stratified: every interpolator and every system (and 'none') first, then random
    cfgs, have = [], set()
    for key in (("interp", "order", "nv"), ("system",), ("tmin", "dt")):
        for c in order:
            kk = (key, tuple(c[k] for k in key))
            if kk not in have:
                have.add(kk)
                cfgs.append(c)
    for c in order:
        if len(cfgs) >= nsample:
            break
        if c not in cfgs:
            cfgs.append(c)
    ctx.add_tlc(res)
    seen, uniq = set(), []
    for c in cfgs:
        k = tuple(sorted(c.items()))
        if k not in seen:
            seen.add(k)
            uniq.append(c)
    # for every interpolator: its configuration with the DOCUMENTED default order on the fewest sampled volumes, the order left to the
    # packaged defaults (what `order` is when the user says nothing is part of the documented interface)
    forced = []
    for it in sorted({c["interp"] for c in allc}):
        cand = [c for c in allc if c["interp"] == it and c["order"] == DEFAULT_MG["order"]]
        if cand:
            c0 = dict(min(cand, key=lambda c: (c["nv"], str(sorted(c.items())))), _force_omit_order=True)
            forced.append(c0)
    uniq = forced + uniq
    # every interpolator and every system must be present even in the quick sample
    if len(uniq) < 20:
        raise MachineryError("too few configurations from the specification")
    exports = fillspec.cached_exports(ctx)
    ctx.cov["rule"] = ("valid configurations enumerated by TLC from ConfigSpace.tla (about 37 000; secondary settings NT, QHA order, volume ratio and what is left to the defaults are drawn per configuration from sets the specification exports); a stratified random sample of them (110 quick / "
                       "2500 thorough; every (interpolator, order, nv) triple, system and (T_MIN, DT) class present) is concretised into synthetic data sets and run; "
                       "distinct by configuration; all non-trivial")
    ctx.assumptions += ["finiteness is a floating-point fact observed on the results; the specification enumerates where to look",
                        "positive definiteness by numpy eigvalsh"]
    wd = Workdir()
    tdclasses = sorted({(float(c["tmin"]), float(c["dt"])) for c in allc})
    try:
        for n, c in enumerate(uniq):
            tmin, dt = float(c["tmin"]), float(c["dt"])
            nt, qorder, vratio = int(rng.choice(NTS)), int(rng.choice(QORDERS)), float(rng.choice(VRATIOS))
            settings = {"T_MIN": tmin, "DT": dt, "NT": nt, "NTV": 9, "order": qorder, "volume_ratio": vratio}
            kw = dict(nv=int(c["nv"]), lattice=bool(c["lattice"]), interpolator=c["interp"], order=int(c["order"]), settings=settings)
            ds = free_dataset(rng, extra_shear=int(rng.integers(2, 10)), **kw) if c["system"] == "none" else system_dataset(rng, exports, c["system"], minimal=bool(n % 4 == 1), **kw)
            if c["system"] == "none" and n % 3 == 0:
                # a listed component that vanishes identically (a table that spells out a zero column, no symmetry filling to remove it)
                zk = [k for k in ds.keys if k[0] != k[1] and not (k[0] <= 3 and k[1] <= 3)]
                if zk:
                    ds.polys[zk[int(rng.integers(0, len(zk)))]] = (0.0, 0.0, 0.0, 0.0)
            # leave to the packaged defaults what equals them (half of the time): the settings file then has a partial mode_gamma group
            ds.omit = {f for f, key in (("interpolator", "interp"), ("order", "order")) if c[key] == DEFAULT_MG[key] and rng.random() < 0.5}
            if c["system"] != "none" and n % 4 == 1:
                # the documented flags of the symmetry group, set on consistent, sufficient data (where they change nothing); the table
                # lists a sufficient proper subset of the components, the filling supplies the rest
                ds.symmetry_flags = {"ignore_rank": bool(n % 8 == 1), "ignore_residuals": True}
            if c.get("_force_omit_order"):
                ds.omit = ds.omit | {"order"}
            d = wd.sub(f"c{n}")
            case = {k: c[k] for k in ("interp", "order", "nv", "system", "tmin", "dt", "lattice")}
            case["left_to_defaults"] = sorted(ds.omit)
            case["explicit_zero_column"] = any(all(x == 0.0 for x in ds.polys[k]) for k in ds.keys)
            case.update(nt=nt, qha_order=qorder, volume_ratio=vratio)
            ctx.count(case)
            sig = {"interp": c["interp"]}
            try:
                ds.fit_pressure_window(d)
                calc = run(ds.write(d))
            except Exception as ex:
                ctx.violation(f"calculation does not complete for the valid configuration {case}: {ex!r}", {**case, "exc": repr(ex)},
                              {**sig, "clause": "completes", "exc": type(ex).__name__})
                continue
            check_results(ctx, calc, case, sig)
            if n < 2:
                ctx.sample(case)
            if n % 6 == 0:
                # the next calculation of the same process: the SAME files and array shapes, another temperature grid out of the
                # enumerated (T_MIN, DT) classes - one that starts above absolute zero after one that started at it, and the reverse
                alt = [x for x in tdclasses if (x[0] == 0.0) != (tmin == 0.0)] or [x for x in tdclasses if x != (tmin, dt)]
                if alt:
                    t2, d2 = alt[int(rng.integers(0, len(alt)))]
                    ds.settings.update({"T_MIN": t2, "DT": d2, "DT_SAMPLE": d2})      # (QHA wants the sampling step to be a multiple of the grid step)
                    case2 = dict(case, tmin=t2, dt=d2, follows_same_shape=True)
                    ctx.count(case2)
                    try:
                        ds.fit_pressure_window(wd.sub(f"c{n}b"))                      # requested pressures inside the range computed on THIS temperature grid
                        calc2 = run(ds.write(wd.sub(f"c{n}b")))
                    except Exception as ex:
                        ctx.violation(f"calculation does not complete for the valid configuration {case2} (run after {case['tmin']}/{case['dt']} on the same files): {ex!r}",
                                      {**case2, "exc": repr(ex)}, {**sig, "clause": "completes", "exc": type(ex).__name__})
                        continue
                    check_results(ctx, calc2, case2, sig)
    finally:
        wd.close()


def check_results(ctx, calc, case, sig):
    t = numpy.asarray(calc.t_array)
    cv = numpy.asarray(calc.qha_calculator.volume_base.heat_capacity)
    keys = list(calc.modulus_keys)
    for k in keys:
        iso, adi = numpy.asarray(calc.modulus_isothermal[k]), numpy.asarray(calc.modulus_adiabatic[k])
        for name, a in (("isothermal", iso), ("adiabatic", adi)):
            if numpy.iscomplexobj(a) or not numpy.issubdtype(a.dtype, numpy.floating):
                ctx.violation(f"c{k.voigt[0]}{k.voigt[1]} ({name}) has dtype {a.dtype} for {case}", case, {**sig, "clause": "real"})
                return
        if not numpy.all(numpy.isfinite(iso)):
            i = tuple(int(x) for x in numpy.argwhere(~numpy.isfinite(iso))[0])
            ctx.violation(f"isothermal c{k.voigt[0]}{k.voigt[1]} is {iso[i]} at T={t[i[0]]:g} K, volume #{i[1]} for {case}", {**case, "index": i},
                          {**sig, "clause": "finite_iso", "lowT": bool(0 < t[i[0]] <= 10)})
            return
        ok_region = (cv > 0) | (t[:, None] == 0)
        if not numpy.all(numpy.isfinite(adi[ok_region])):
            ctx.violation(f"adiabatic c{k.voigt[0]}{k.voigt[1]} is not finite where C_V > 0 (or T = 0) for {case}", case, {**sig, "clause": "finite_adi"})
            return
        z = t == 0
        if numpy.any(z):
            if not numpy.array_equal(adi[z], iso[z]):
                ctx.violation(f"c{k.voigt[0]}{k.voigt[1]}: adiabatic differs from isothermal at T = 0 for {case}", case, {**sig, "clause": "T0_gap"})
                return
            small = (t > 0) & (t <= 1.0)
            if numpy.any(small):
                i0, i1 = int(numpy.argmax(z)), int(numpy.argmax(small))
                ref = numpy.abs(iso[i0]) + 1e-300
                if not numpy.max(numpy.abs(iso[i1] - iso[i0]) / ref) <= 1e-6:
                    ctx.violation(f"c{k.voigt[0]}{k.voigt[1]}: c(T={t[i1]:g} K) differs from c(0) by {numpy.max(numpy.abs(iso[i1]-iso[i0])/ref):.2e} for {case}",
                                  case, {**sig, "clause": "T_to_0"})
                    return
    # averages and velocities where the stiffness is positive definite
    C = numpy.zeros((*numpy.asarray(calc.modulus_adiabatic[keys[0]]).shape, 6, 6))
    for k in keys:
        i, j = k.voigt
        C[..., i - 1, j - 1] = C[..., j - 1, i - 1] = numpy.asarray(calc.modulus_adiabatic[k])
    with numpy.errstate(all="ignore"):
        pd = numpy.all(numpy.isfinite(C), axis=(-1, -2))
        ev = numpy.linalg.eigvalsh(numpy.where(pd[..., None, None], C, numpy.eye(6)))
        pd &= numpy.all(ev > 0, axis=-1)
    for name in ("bulk_modulus_voigt_reuss_hill", "shear_modulus_voigt_reuss_hill", "primary_velocities", "secondary_velocities"):
        try:
            a = numpy.asarray(getattr(calc.volume_base, name))
        except Exception as ex:
            ctx.violation(f"{name} raised {ex!r} for {case}", case, {**sig, "clause": "averages_raise"})
            return
        if not numpy.all(numpy.isfinite(a[pd])):
            ctx.violation(f"{name} is not finite where the stiffness is positive definite for {case}", case, {**sig, "clause": "finite_avg"})
            return
