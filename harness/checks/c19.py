"""C19 -- extract and extract-geotherm return table values faithfully.

Model (spec/Extract.tla): every grid of 2-4 nodes with spacings 1/2/5, every request on the half-step lattice without ties,
both orientations, 1-3 variables: the result is the nearest row (-T) or column (-P) of each variable's own table, labelled by
the other coordinate (8 580 extraction states, invariants NearestIsNearest / OwnVariable / Orientation).  Binding (R): the
enumerated extractions are replayed through `cij extract` on tables whose entries encode (variable, iT, iP); extract-geotherm
is checked for node identity, pass-through of the geotherm's columns, and convergence under grid refinement.
"""
import os
import tempfile
from contextlib import contextmanager
from pathlib import Path

import numpy

from cv.core import MachineryError
from cv.tlaparse import printed_values
from cv.tlc import run_tlc, must_ok

LEVEL = "model_checking"
VARCODE = {"a": 1, "b": 2, "c": 3}


@contextmanager
def cwd(p):
    old = os.getcwd()
    os.chdir(p)
    try:
        yield
    finally:
        os.chdir(old)


def write_table(path, tvals, pvals, fn):
    lines = ["T(K)\\P(GPa) " + " ".join(repr(float(p)) for p in pvals)]
    for i, t in enumerate(tvals):
        lines.append(repr(float(t)) + " " + " ".join("%.15e" % fn(i, j, t, p) for j, p in enumerate(pvals)))
    Path(path).write_text("\n".join(lines) + "\n")


def parse_out(text):
    rows = [l.split() for l in text.strip().splitlines() if l.strip()]
    return rows


def main(ctx, replay=None):
    from click.testing import CliRunner
    from cij.cli.extract import main as extract_main
    from cij.cli.geotherm import main as geo_main
    rng = numpy.random.default_rng(ctx.seed + 1919)
    res = must_ok(run_tlc("Extract", "Extract.cfg", ctx.subdir("tlc"), workers=1, timeout=300))
    ctx.add_tlc(res)
    table = printed_values(res.out, "EXTRACT")
    if len(table) < 5000:
        raise MachineryError(f"only {len(table)} extraction cases")
    ctx.cov["exhaustive"] = ctx.tier == "thorough"
    ctx.cov["rule"] = ("extraction cases enumerated by TLC (grids of 2-4 nodes, spacings 1/2/5, tie-free requests, both orientations, 1-3 "
                       "variables): all in the thorough tier, a random 400 in the quick tier; entries of the tables encode (variable, iT, iP); "
                       "geotherm: node identity, pass-through, convergence; distinct by content")
    ctx.assumptions += ["requests with two equally near nodes are not generated", "the convergence clause is a float experiment (factor-2 margin)"]
    n = len(table) if ctx.tier == "thorough" else 400
    picks = [table[int(i)] for i in rng.permutation(len(table))[:n]]
    tmp = Path(tempfile.mkdtemp(prefix="cijverif.c19."))
    try:
        for _, mode, ts, ps, req, vs, near in picks:
            d = Path(tempfile.mkdtemp(dir=tmp))
            t0, p0 = (0.0, 0.0) if rng.random() < 0.5 else (300.0, 10.0)      # grids starting at exactly 0 K / 0 GPa half of the time
            if rng.random() < 0.2:
                p0 = -20.0                                                     # tables of a run with a negative P_MIN (tensile side), negative requests
            # temperature unit: whole Kelvin (step 100 K per model unit) or fractional grids (DT = 25, 0.5 K); T_MIN = 0.5 K
            tu = float(rng.choice([50.0, 50.0, 12.5, 0.25]))
            if tu != 50.0 and t0 != 0.0:
                t0 = 0.5
            # pressure unit: 2.5 GPa per model unit, or steps with three decimals (DELTA_P = 0.125, 0.025)
            pu = float(rng.choice([2.5, 2.5, 0.0625, 0.0125]))    # (grids are in doubled model units: steps of 0.125 and 0.025 GPa)
            tv = [t0 + tu * x for x in ts]
            pv = [p0 + pu * x for x in ps]
            # the abstract variables a, b, c are realised by output names of a real run; names that are prefixes of other names
            # (bm_V / bm_VRH, G_V / G_VRH, v / v_p / v_s) are part of "each requested variable"
            VARNAME = {"a": str(rng.choice(["c11s", "c12t", "c44s"])), "b": str(rng.choice(["bm_VRH", "bm_V", "G_V", "G_R"])), "c": str(rng.choice(["v", "v_s"]))}
            SUFFIX = {k: ("ang3.txt" if n == "v" else "km_s.txt" if n.startswith("v_") else "gpa.txt") for k, n in VARNAME.items()}
            for v in set(vs):
                write_table(d / f"{VARNAME[v]}_tp_{SUFFIX[v]}", tv, pv, lambda i, j, t, p, v=v: 1e6 * VARCODE[v] + 1e3 * (i + 1) + (j + 1))
            # decoys: the other files of a real output directory must not be picked up
            used = {VARNAME[v] for v in vs}
            for name, suf in [(n, "gpa.txt") for n in ("bm_V", "bm_R", "bm_VRH", "G_V", "G_R", "G_VRH", "c11s", "c11t", "c12s", "c12t", "c44s", "c44t", "zz")] + \
                             [("v", "ang3.txt"), ("v_p", "km_s.txt"), ("v_s", "km_s.txt")]:
                if name not in used:
                    write_table(d / f"{name}_tp_{suf}", tv, pv, lambda i, j, t, p: -1.0)
                    if rng.random() < 0.3:
                        write_table(d / f"{name}_tv_{suf}", tv, pv, lambda i, j, t, p: -2.0)
            want = (t0 + tu * req) if mode == "T" else (p0 + pu * req)
            args = ["-v", ",".join(VARNAME[v] for v in vs), "-T" if mode == "T" else "-P", repr(want)]
            case = {"mode": mode, "ts": ts, "ps": ps, "req": req, "vars": vs, "units": [tu, pu]}
            ctx.count(case)
            with cwd(d):
                r = CliRunner().invoke(extract_main, args)
            sig = {"mode": mode}
            if r.exit_code != 0:
                ctx.violation(f"cij extract {' '.join(args)} failed: {r.exception!r}", case, {**sig, "clause": "raises"})
                continue
            rows = parse_out(r.output)
            labels = pv if mode == "T" else tv
            if rows[0] != [VARNAME[v] for v in vs] or len(rows) != len(labels) + 1:
                ctx.violation(f"cij extract {' '.join(args)}: header/shape {rows[0]} x {len(rows)-1}, expected {[VARNAME[v] for v in vs]} x {len(labels)}",
                              {**case, "output": r.output}, {**sig, "clause": "shape"})
                continue
            bad = None
            for j, row in enumerate(rows[1:]):
                if not abs(float(row[0]) - labels[j]) <= 1e-9:
                    bad = f"label {row[0]} expected {labels[j]}"
                for k, v in enumerate(vs):
                    it, ip = (near, j + 1) if mode == "T" else (j + 1, near)
                    exp = 1e6 * VARCODE[v] + 1e3 * it + ip
                    if not abs(float(row[1 + k]) - exp) <= 1e-6:
                        got = float(row[1 + k])
                        bad = f"column {VARNAME[v]} line {j}: entry {got:.0f} (variable {int(got // 1e6)}, iT {int(got % 1e6 // 1e3)}, iP {int(got % 1e3)}) expected variable {VARCODE[v]}, iT {it}, iP {ip}"
            if bad:
                ctx.violation(f"cij extract {' '.join(args)} on T grid {tv}, P grid {pv}: {bad}", {**case, "output": r.output}, {**sig, "clause": "value"})
        ctx.sample({"case": list(picks[0][1:])})
        long_tables(ctx, rng, tmp, extract_main)
        geotherm(ctx, rng, tmp, geo_main)
    finally:
        import shutil
        shutil.rmtree(tmp, ignore_errors=True)


def long_tables(ctx, rng, tmp, extract_main):
    """Grids as long as real ones (81 - 201 pressures, 31 - 101 temperatures): every row of the extraction is printed."""
    from click.testing import CliRunner
    for mode, nt, npp in (("T", 5, int(rng.integers(81, 202))), ("P", int(rng.integers(61, 102)), 7)):
        d = Path(tempfile.mkdtemp(dir=tmp))
        tv = [100.0 * i for i in range(nt)]
        pv = [0.5 * j for j in range(npp)]
        write_table(d / "c11s_tp_gpa.txt", tv, pv, lambda i, j, t, p: 1e6 + 1e3 * (i + 1) + (j + 1) * 1e-3 * 1000)
        it, ip = int(rng.integers(0, nt)), int(rng.integers(0, npp))
        args = ["-v", "c11s", "-T", repr(tv[it])] if mode == "T" else ["-v", "c11s", "-P", repr(pv[ip])]
        for hide in (False, True):
            ctx.count({"long_table": [mode, nt, npp], "hide_header": hide})
            with cwd(d):
                r = CliRunner().invoke(extract_main, args + (["-h"] if hide else []))
            if r.exit_code != 0:
                ctx.violation(f"cij extract {' '.join(args)} failed on a {nt} x {npp} table: {r.exception!r}", {"grid": [nt, npp]}, {"mode": mode, "clause": "raises"})
                continue
            lines = [l for l in r.output.splitlines() if l.strip()]
            body = lines[(0 if hide else 1):]
            labels = pv if mode == "T" else tv
            want = [1e6 + 1e3 * (it + 1) + (j + 1) for j in range(npp)] if mode == "T" else [1e6 + 1e3 * (i + 1) + (ip + 1) for i in range(nt)]
            ok = len(body) == len(labels)
            if ok:
                for l, lab, w in zip(body, labels, want):
                    f = l.split()
                    try:
                        ok = ok and len(f) == 2 and abs(float(f[0]) - lab) <= 1e-9 and abs(float(f[1]) - w) <= 1e-6 * w
                    except ValueError:
                        ok = False
            if not ok:
                ctx.violation(f"cij extract {' '.join(args)}{' -h' if hide else ''} on a {nt} x {npp} table prints {len(body)} rows "
                              f"(first: {body[:1]}, middle: {body[len(body) // 2:len(body) // 2 + 1]}); expected the {len(labels)} entries of the row/column",
                              {"grid": [nt, npp], "output": r.output[:2000]}, {"mode": mode, "clause": "value", "long": True})


def geotherm(ctx, rng, tmp, geo_main):
    from click.testing import CliRunner
    f = lambda t, p: 300.0 + 0.02 * t + 1.5 * p + 1e-5 * t * p + 40.0 * numpy.sin(t / 900.0) * numpy.cos(p / 40.0)
    g2 = lambda t, p: 80.0 - 0.01 * t + 0.9 * p + 5.0 * numpy.cos(t / 700.0 + p / 55.0)
    errs = []
    # (fourth pass: a table as long as a fine pressure grid makes it - 0 ... 120.25 GPa in steps of 0.25 GPa - node identity only)
    for res_i, (nt, npp) in enumerate(((9, 9), (17, 17), (13, 13), (13, 482))):
        d = Path(tempfile.mkdtemp(dir=tmp))
        tv = numpy.linspace(300.0, 2700.0, nt)
        pv = numpy.linspace(0.0, 120.0, npp) if npp < 100 else 0.25 * numpy.arange(npp)
        write_table(d / "c11s_tp_gpa.txt", tv, pv, lambda i, j, t, p: f(t, p))
        # the second variable: G_VRH, or a name that is a prefix of other files of a real output directory (G_V / G_VRH, bm_V / bm_VRH)
        var2 = "G_VRH" if res_i == 0 else str(rng.choice(["G_V", "bm_V"]))
        write_table(d / f"{var2}_tp_gpa.txt", tv, pv, lambda i, j, t, p: g2(t, p))
        for name, suf in [(n, "gpa.txt") for n in ("bm_V", "bm_R", "bm_VRH", "G_V", "G_R", "G_VRH", "c11t", "c12s")] + [("v", "ang3.txt"), ("v_p", "km_s.txt"), ("v_s", "km_s.txt")]:
            if name != var2:
                write_table(d / f"{name}_tp_{suf}", tv, pv, lambda i, j, t, p: -1.0 - 0.001 * i)
                write_table(d / f"{name}_tv_{suf}", tv, pv, lambda i, j, t, p: -2.0)
        # geotherm: grid nodes first, then off-node points; an extra column must pass through
        nodes = [(int(i), int(j)) for i, j in zip(rng.integers(0, nt, 5), rng.integers(0, npp, 5))]
        nodes[0], nodes[1], nodes[2] = (nt - 1, npp - 1), (0, 0), (nt - 1, int(rng.integers(0, npp)))      # corners and the last row
        if npp >= 100:
            nodes[3], nodes[4] = (int(rng.integers(0, nt)), npp - 1), (int(rng.integers(0, nt)), 2 * int(rng.integers(0, npp // 2)) + 1)   # last and an odd column
        offp = rng.uniform(5.0, 115.0, 8)
        offt = rng.uniform(400.0, 2600.0, 8)
        whole = res_i == 2          # third pass: a geotherm file whose numbers are all written without a decimal point (1500 37 660)
        if whole:
            offp, offt = numpy.round(offp) + 0.0, numpy.round(offt) + 0.0
        P = [pv[j] for _, j in nodes] + list(offp)
        T = [tv[i] for i, _ in nodes] + list(offt)
        depth = [100.0 + 7.0 * k for k in range(len(P))]
        # column names: the defaults (P, T), or other names announced with the options as documented in the command's help
        # (--t-col: "name of geotherm pressure column", --p-col: "name of geotherm temperature column")
        pname, tname = ("P", "T") if res_i == 0 else ("pressure_GPa", "temperature_K")
        num = (lambda x: str(int(round(x)))) if whole else (lambda x: repr(float(x)))
        gt = [f"{pname} {tname} D"] + [f"{num(p)} {num(t)} {num(dd)}" for p, t, dd in zip(P, T, depth)]
        (d / "geotherm.txt").write_text("\n".join(gt) + "\n")
        ctx.count({"geotherm": [nt, npp], "columns": [pname, tname], "whole_numbers": whole})
        opts = [] if res_i == 0 else ["--t-col", pname, "--p-col", tname]
        with cwd(d):
            r = CliRunner().invoke(geo_main, ["-g", "geotherm.txt", *opts, "-v", f"c11s,{var2}"])
        if r.exit_code != 0:
            ctx.violation(f"cij extract-geotherm failed: {r.exception!r}", {"grid": [nt, npp]}, {"clause": "geotherm_raises"})
            return
        rows = parse_out(r.output)
        if rows[0] != [pname, tname, "D", "c11s", var2] or len(rows) != len(P) + 1:
            ctx.violation(f"extract-geotherm output columns {rows[0]} / {len(rows)-1} rows", {"output": r.output}, {"clause": "geotherm_shape"})
            return
        vals = numpy.array([[float(x) for x in row] for row in rows[1:]])
        if not (numpy.allclose(vals[:, 0], P, rtol=1e-6) and numpy.allclose(vals[:, 1], T, rtol=1e-6) and numpy.allclose(vals[:, 2], depth, rtol=1e-6)):
            ctx.violation("extract-geotherm does not pass the geotherm's own columns through unchanged", {"output": r.output}, {"clause": "geotherm_passthrough"})
        for k, (i, j) in enumerate(nodes):
            for col, fn, name in ((3, f, "c11s"), (4, g2, var2)):
                if not abs(vals[k, col] - fn(tv[i], pv[j])) <= 1e-5 * abs(fn(tv[i], pv[j])):       # 6 printed significant digits
                    ctx.violation(f"extract-geotherm at the grid node (T={tv[i]}, P={pv[j]}) returns {vals[k, col]} for {name}, the table entry is {fn(tv[i], pv[j])}",
                                  {"node": [int(i), int(j)]}, {"clause": "geotherm_node", "var": name})
        err = max(float(numpy.max(numpy.abs(vals[5:, 3] - f(numpy.array(offt), numpy.array(offp))))), 1e-12)
        if npp >= 100:
            if errs and not err <= max(errs[0], 2e-3):
                ctx.violation(f"extract-geotherm on a {nt} x {npp} table: off-node error {err:.3g} exceeds the {errs[0]:.3g} of the 9 x 9 grid",
                              {"error": err, "coarse": errs[0]}, {"clause": "geotherm_long_table"})
            continue
        if whole:
            # same smooth function on a grid between the two above: the error lies below that of the coarser one
            if errs and not err <= max(errs[0], 2e-3):
                ctx.violation(f"extract-geotherm on a geotherm written in whole numbers: off-node error {err:.3g} on the 13 x 13 grid exceeds the {errs[0]:.3g} of the 9 x 9 grid",
                              {"error": err, "coarse": errs[0]}, {"clause": "geotherm_whole_numbers"})
            continue
        errs.append(err)
    if len(errs) >= 2 and not errs[1] <= max(errs[0] / 2.0, 2e-3):
        ctx.violation(f"extract-geotherm does not converge under grid refinement: error {errs[0]:.3g} -> {errs[1]:.3g}", {"errors": errs}, {"clause": "geotherm_convergence"})
    ctx.cov["geotherm_errors"] = errs
