"""X02 (supplementary, not a listed property) -- what the command-line tools do to the working directory.

Model (spec/CliEffects.tla): every sequence of <= 3 commands (run with three output sections, run-static, fill, extract,
extract-geotherm, plot with three selections, modes) and the set of files each leaves behind; invariants: inputs kept, printing
commands create nothing, repetition is idempotent, volumes/pressures only in their own base.  Binding (R): command sequences
simulated by TLC are executed with the real click commands in a scratch directory; after every command the directory listing
must be the model's `dir` (rendered with the documented file-name patterns) and the input files must be byte-identical.
"""
import hashlib
import os
import tempfile
from pathlib import Path

import numpy

from cv import fillspec
from cv.core import MachineryError
from cv.e2e import system_dataset
from cv.tlaparse import printed_values
from cv.tlc import run_tlc, must_ok

LEVEL = "model_checking"
# rule id -> documented file-name pattern (same frozen table as spec/Writer.tla; C15 checks the writer against it)
PATTERNS = {1: "c{ij}s_{base}_gpa.txt", 2: "c{ij}t_{base}_gpa.txt", 3: "bm_V_{base}_gpa.txt", 4: "bm_R_{base}_gpa.txt", 5: "bm_VRH_{base}_gpa.txt",
            6: "G_V_{base}_gpa.txt", 7: "G_R_{base}_gpa.txt", 8: "G_VRH_{base}_gpa.txt", 9: "v_p_{base}_km_s.txt", 10: "v_s_{base}_km_s.txt",
            11: "v_{base}_ang3.txt", 12: "p_{base}_gpa.txt"}
INPUTS = {"settings": "settings.yaml", "phonon": "input01", "static": "elast.dat", "geotherm": "geotherm.txt"}


def names_of(dirset, keys):
    out = set()
    for g in dirset:
        kind = g[0]
        if kind == "input":
            out.add(INPUTS[g[1]])
        elif kind == "table":
            _, r, b, c = g
            if "{ij}" in PATTERNS[r]:
                out |= {PATTERNS[r].format(ij="%d%d" % k, base=b) for k in keys}
            else:
                out.add(PATTERNS[r].format(base=b))
        elif kind == "png":
            t = g[1]
            out |= {Path(n).stem + ".png" for n in names_of([t], keys)}
        elif kind == "modes":
            out.add(f"modes_{g[1]}.png")
        else:
            raise MachineryError(f"unknown file kind {g!r}")
    return out


def digest(d, names):
    return {n: hashlib.sha256((d / n).read_bytes()).hexdigest() for n in names}


def main(ctx, replay=None):
    import yaml
    from click.testing import CliRunner
    from cij.cli.cij import main as cij_main
    rng = numpy.random.default_rng(ctx.seed + 9002)
    res = must_ok(run_tlc("CliEffects", "CliEffects.cfg", ctx.subdir("tlc"), workers=4, timeout=300))
    ctx.add_tlc(res)
    nb = 10 if ctx.tier == "quick" else 120
    sim = must_ok(run_tlc("CliEffects", "CliEffects_sim.cfg", ctx.subdir("sim"), workers=1, simulate=f"num={nb * 30}", depth=5, seed=ctx.seed + 92, timeout=300))
    beh = [(b[1], b[2], b[3]) for b in printed_values(sim.out, "FX")]
    beh = list({repr(b[0]): b for b in beh}.values())
    # every command must occur at least once in the sample
    beh.sort(key=lambda b: -len({c["name"] for c in b[0]}))
    chosen = []
    for cmd in ("run", "run-static", "fill", "extract", "geotherm", "plot", "modes"):
        hit = next((b for b in beh if b not in chosen and any(c["name"] == cmd for c in b[0])), None)
        if hit is not None:
            chosen.append(hit)
    beh = chosen + [b for b in beh if b not in chosen][:max(0, nb - len(chosen))]
    if len(beh) < 5:
        raise MachineryError("too few behaviours from the CliEffects simulator")
    ctx.cov["rule"] = ("command sequences (3 commands) simulated by TLC, executed with the real click commands on a small synthetic data set in a "
                       "scratch directory; a case is one sequence; all non-trivial; the model itself is explored exhaustively")
    ctx.assumptions += ["supplementary model: not one of the listed properties", "file names rendered with the documented patterns (C15)"]
    exports = fillspec.cached_exports(ctx)
    ds = system_dataset(rng, exports, "cubic", lattice=False, nq=2, nat=1, nv=6, settings={"NT": 4, "DT": 300, "NTV": 9})
    tmp = Path(tempfile.mkdtemp(prefix="cijverif.x02."))
    old = os.getcwd()
    try:
        base = tmp / "base"
        ds.fit_pressure_window(base)
        ds.write(base)
        cfg0 = yaml.safe_load((base / "settings.yaml").read_text())
        keys = None
        for bi, (hist, final_dir, fails) in enumerate(beh):
            d = tmp / f"b{bi}"
            d.mkdir()
            for n in ("input01", "elast.dat"):
                (d / n).write_bytes((base / n).read_bytes())
            (d / "settings.yaml").write_text(yaml.safe_dump(cfg0))
            pm, dp, ntv = ds.settings["P_MIN"], ds.settings["DELTA_P"], ds.settings["NTV"]
            (d / "geotherm.txt").write_text("P T\n" + "\n".join(f"{pm + dp * (0.5 + j):.4f} {150.0 + 200.0 * j:.1f}" for j in range(3)) + "\n")
            os.chdir(d)
            ctx.count({"history": hist})
            model = {("input", k) for k in INPUTS}
            before = digest(d, INPUTS.values())
            if keys is None:
                keys = [k for k in ds.full_keys]
            for step, c in enumerate(hist):
                name = c["name"]
                args = None
                if name == "run":
                    cfg = dict(cfg0, output={"pressure_base": list(c["out"]["tp"]), "volume_base": list(c["out"]["tv"])})
                    (d / "settings.yaml").write_text(yaml.safe_dump(cfg))
                    before["settings.yaml"] = hashlib.sha256((d / "settings.yaml").read_bytes()).hexdigest()     # the user edits the settings
                    args = ["run", "settings.yaml"]
                    made, stop = set(), False
                    for b, kws in (("tp", c["out"]["tp"]), ("tv", c["out"]["tv"])):
                        for kw in kws:
                            r = next(r for r, p in RULE_KW.items() if kw in p)
                            if r == 11 and b != "tp":
                                stop = True                     # the run fails here; what was listed before has been written
                            if stop:
                                break
                            made.add(("table", r, b, "*"))
                    model |= made
                    if stop != bool(fails[step]):
                        raise MachineryError("harness and model disagree on which runs fail")
                elif name == "run-static":
                    args = ["run-static", "input01", "elast.dat"]
                elif name == "fill":
                    args = ["fill", "elast.dat", "-s", "cubic"]
                elif name in ("extract", "geotherm"):
                    tp = sorted(n for n in os.listdir(d) if "_tp_" in n and n.endswith(".txt") and not (d / (Path(n).stem + ".png")).exists())
                    if not tp:
                        raise MachineryError("the model enabled extract without a pressure-base table that has no picture")
                    var = tp[int(rng.integers(0, len(tp)))].split("_tp_")[0]
                    args = ["extract", "-v", var, "-T", "300"] if name == "extract" else ["extract-geotherm", "-g", "geotherm.txt", "-v", var]
                elif name == "plot":
                    pat = {"all": "*_t[pv]_*.txt", "moduli": "c[0-9][0-9][st]_t[pv]_gpa.txt", "none": "nomatch*.txt"}[c["sel"]]
                    args = ["plot", pat]
                    for g in list(model):
                        if g[0] == "table" and (c["sel"] == "all" or (c["sel"] == "moduli" and g[1] in (1, 2))):
                            model.add(("png", g))
                elif name == "modes":
                    args = ["modes", "settings.yaml", "-n", str(c["n"]), "-o", f"modes_{c['n']}.png"]
                    model.add(("modes", c["n"]))
                r = CliRunner().invoke(cij_main, args)
                sig = {"command": name}
                if fails[step]:
                    if r.exit_code == 0:
                        ctx.violation(f"`cij {' '.join(args)}` asking the volume base for volumes succeeded; the model says it fails", {"history": hist, "step": step},
                                      {**sig, "clause": "should_fail"})
                        break
                elif r.exit_code != 0:
                    ctx.violation(f"`cij {' '.join(args)}` failed after {[h['name'] for h in hist[:step]]}: {r.exception!r}", {"history": hist, "step": step},
                                  {**sig, "clause": "raises"})
                    break
                want = names_of([(g[0], g[1], g[2], None) if g[0] == "table" else g for g in model], keys)
                got = set(os.listdir(d))
                if got != want:
                    ctx.violation(f"after `cij {' '.join(args)}` (history {[h['name'] for h in hist[:step]]}) the directory has unexpected {sorted(got - want)[:6]} "
                                  f"and lacks {sorted(want - got)[:6]}", {"history": hist, "step": step, "listing": sorted(got)}, {**sig, "clause": "listing"})
                    break
                now = digest(d, INPUTS.values())
                if now != before:
                    ctx.violation(f"`cij {' '.join(args)}` modified input file(s) {[n for n in now if now[n] != before[n]]}", {"history": hist, "step": step},
                                  {**sig, "clause": "inputs_modified"})
                    break
            else:
                # the model's final directory, rendered, is the real listing (binding of the model's dir to the replayed one)
                mfin = names_of([tuple(g) if g[0] != "png" else ("png", tuple(g[1])) for g in map(_tup, final_dir)], keys)
                if mfin != set(os.listdir(d)):
                    raise MachineryError(f"harness replay and model disagree on the final directory: {sorted(mfin ^ set(os.listdir(d)))[:8]}")
            os.chdir(old)
        ctx.cov["commands_executed"] = sorted({c["name"] for h, _, _ in beh for c in h})
        if len(ctx.cov["commands_executed"]) < 7:
            raise MachineryError(f"the sampled behaviours do not contain every command: {ctx.cov['commands_executed']}")
        ctx.sample({"history": beh[0][0]})
        ctx.sample({"history": beh[-1][0]})
    finally:
        os.chdir(old)
        import shutil
        shutil.rmtree(tmp, ignore_errors=True)


def _tup(g):
    return tuple(_tup(x) if isinstance(x, (list, tuple)) else x for x in g)


RULE_KW = {1: {"cij_s", "cij", "adiabatic_elastic_moduli"}, 2: {"cij_t", "isothermal_elastic_moduli"}, 3: {"B_V", "Bm_V", "bm_V", "bulk_modulus_voigt"},
           4: {"B_R", "Bm_R", "bm_R", "bulk_modulus_reuss"}, 5: {"B_VRH", "Bm_VRH", "bm_VRH", "bulk_modulus_voigt_reuss_hill"},
           6: {"G_V", "shear_modulus_voigt"}, 7: {"G_R", "shear_modulus_reuss"}, 8: {"G_VRH", "shear_modulus_voigt_reuss_hill"},
           9: {"v_p", "vp", "primary_velocities"}, 10: {"v_s", "vs", "secondary_velocities"}, 11: {"v", "V", "volumes"}, 12: {"p", "P", "pressures"}}
