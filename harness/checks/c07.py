"""C07 -- VRH averages, bounds and velocities are those of the full tensor in SI units.

Model (spec/Averages.tla, C07.tla): TLC decides that the code's 6x6 formulas are the contractions C_iijj/9,
(3C_ijij - C_iijj)/30, 1/S_iijj, 15/(6S_ijij - 2S_iijj) of the full fourth-rank tensors (identities of linear forms) and
exports the forms.  Binding: (R) exported forms evaluated on stiffness fields injected into CijVolumeBaseInterface;
(T) every (T,V) sample is a record validated by Trace_Averages.tla (inverse, Hill mean, bounds, velocity relations).
"""
from types import SimpleNamespace

import numpy

from cv import consts, fillspec
from cv.core import MachineryError
from cv.e2e import isotropic_plus
from cv.polyeval import evaluate
from cv.synth import KEYS21, ORTHO9
from cv.tlc import run_tlc, must_ok
from cv.trace import validate_trace

LEVEL = "model_checking"


def build(rng, exports, system, nt, ntv, weak=False, soft=False, aniso=False, shearshear=False):
    from cij.util import c_
    from cij.core.calculator import Calculator, CijVolumeBaseInterface
    while True:
        base = isotropic_plus(exports[system], rng, 25.0)
        van = set(exports[system]["vanishing"])
        keys = [k for n, k in enumerate(KEYS21, 1) if n not in van]
        if rng.random() < 0.5:        # drop some optional (non-orthotropic) components
            opt = [k for k in keys if k not in ORTHO9]
            keep = set(ORTHO9) | {k for k in opt if rng.random() < 0.5}
            keys = [k for k in keys if k in keep]
        field = rng.uniform(0.7, 1.6, (nt, ntv))
        if weak:
            # weakly coupled crystal: the shear-coupling components are a fraction of a GPa (but not zero)
            iso = isotropic_plus(exports["cubic"], rng, 0.0)
            pert = fillspec.invariant_vector(exports[system], rng, -0.6, 0.6)
            base = {k: iso[k] + pert[k] for k in KEYS21}
        if soft:
            # a very soft (but positive-definite) crystal: one shear stiffness is 1e-5 .. 1e-6 of the longitudinal ones
            iso = isotropic_plus(exports["cubic"], rng, 0.0)
            base = {k: iso[k] for k in KEYS21}
            keys = list(ORTHO9)
            base[(5, 5)] = base[(1, 1)] * 10 ** rng.uniform(-6.0, -5.0)
        if aniso:
            # positive definite but strongly anisotropic: an off-diagonal component larger than one of the diagonal ones it couples
            # (c12 > c11 with c11 c22 > c12^2) - stable, although the cubic-crystal rules of thumb c_ii > |c_ij| fail
            keys = list(ORTHO9)
            u = rng.uniform(0.9, 1.1, 9)
            vals = dict(zip(ORTHO9, (120 * u[0], 420 * u[1], 300 * u[2], 160 * u[3], 50 * u[4], 60 * u[5], 80 * u[6], 70 * u[7], 90 * u[8])))
            base = {k: vals.get(k, 0.0) for k in KEYS21}
        if shearshear:
            # shear-shear coupling only (c45, c46, c56 in any combination) next to the nine orthotropic components and NO coupling between
            # normal and shear strains: the 6x6 matrix is block diagonal, but its shear block is not diagonal
            iso = isotropic_plus(exports["cubic"], rng, 0.0)
            base = {k: iso[k] for k in KEYS21}
            extra = [k for k in ((4, 5), (4, 6), (5, 6)) if rng.random() < 0.6] or [(4, 6)]
            for k in extra:
                base[k] = base[(4, 4)] * float(rng.uniform(0.15, 0.4)) * float(rng.choice([-1.0, 1.0]))
            keys = list(ORTHO9) + extra
        comp = {k: base[k] * field * (1.0 + (0.0 if (weak or soft or aniso or shearshear) else 0.01) * rng.normal(size=(nt, ntv))) for k in keys}
        C = numpy.zeros((nt, ntv, 6, 6))
        for (i, j), a in comp.items():
            C[:, :, i - 1, j - 1] = a
            C[:, :, j - 1, i - 1] = a
        pd = numpy.all(numpy.linalg.eigvalsh(C) > (1e-9 if soft else 1e-6), axis=-1)
        if pd.mean() > 0.9:
            break
    au = 1.0 / consts.RY_BOHR3_TO_GPA
    stub = SimpleNamespace()
    stub.dims = (nt, ntv)
    stub.modulus_keys = [c_(*k) for k in keys]
    stub.modulus_adiabatic = {c_(*k): comp[k] * au for k in keys}
    stub.modulus_isothermal = {c_(*k): comp[k] * au * 0.97 for k in keys}
    v = numpy.sort(rng.uniform(200.0, 1500.0, ntv))[::-1].copy()
    t = numpy.linspace(0.0, 2000.0, nt)
    stub.qha_calculator = SimpleNamespace(volume_base=SimpleNamespace(v_array=v, t_array=t))
    stub.elast_data = SimpleNamespace(cellmass=float(rng.uniform(20.0, 400.0)))
    # the inverse is computed by the calculator's own (private) routine on the stub; if a refactor moves it, the injected-field path
    # is unavailable (the end-to-end path below still runs)
    fn = getattr(Calculator, "_calculate_compliances", None)
    if fn is None:
        raise StubUnavailable("Calculator has no _calculate_compliances")
    try:
        fn(stub)
        vb = CijVolumeBaseInterface(stub)
    except (AttributeError, TypeError) as ex:
        raise StubUnavailable(repr(ex))
    except Exception as ex:                       # the package's own inversion failed on a positive-definite field
        raise CodeRaised(ex, {"system": system, "keys": ["%d%d" % k for k in keys], "soft": soft, "weak": weak})
    return stub, vb, C, pd, keys, v


class StubUnavailable(Exception):
    pass


class CodeRaised(Exception):
    def __init__(self, ex, case):
        super().__init__(repr(ex))
        self.ex, self.case = ex, case


def end_to_end(ctx, rng, exports, forms, records, n):
    """The same clauses on real calculations (public attributes only): stiffness = modulus_adiabatic of the run."""
    from cv.e2e import Workdir, system_dataset
    from cv.synth import run
    G = consts.RY_BOHR3_TO_GPA
    wd = Workdir()
    done = 0
    try:
        for sn, system in enumerate([str(x) for x in rng.permutation(fillspec.SYSTEMS)][:n]):
            # (the first run on a volume grid of 33 points, the others of 7: every grid point has its own stiffness and compliance)
            ds = system_dataset(rng, exports, system, lattice=bool(rng.random() < 0.5), nq=2, nat=2, settings={"NT": 4, "DT": 400, "NTV": 33 if sn == 0 else 7})
            d = wd.sub(f"e2e_{system}")
            try:
                ds.fit_pressure_window(d)
                calc = run(ds.write(d))
            except Exception:
                continue                                   # completion is C12's business
            vb = calc.volume_base
            keys = [tuple(k.voigt) for k in calc.modulus_keys]
            nt, ntv = numpy.asarray(calc.modulus_adiabatic[calc.modulus_keys[0]]).shape
            C = numpy.zeros((nt, ntv, 6, 6))
            for k in calc.modulus_keys:
                i, j = k.voigt
                C[:, :, i - 1, j - 1] = C[:, :, j - 1, i - 1] = numpy.asarray(calc.modulus_adiabatic[k]) * G
            if not numpy.all(numpy.isfinite(C)):
                continue
            # the reported constants under their four-index names (c1122 is c12, s2323 is s44): the same arrays as under the Voigt names
            named_bad = None
            for k in calc.modulus_keys:
                std = "%d%d%d%d" % tuple(k.standard)
                for pre, two in (("c", "c%d%d" % tuple(k.voigt)), ("s", "s%d%d" % tuple(k.voigt))):
                    try:
                        a4, a2 = numpy.asarray(getattr(vb, pre + std)), numpy.asarray(getattr(vb, two))
                    except AttributeError:
                        continue
                    if a4.shape != a2.shape or not numpy.allclose(a4, a2, rtol=1e-12, atol=0, equal_nan=True):
                        named_bad = (pre + std, two)
            if named_bad:
                ctx.count({"system": system, "path": "calculator", "clause": "four_index_names"})
                ctx.violation(f"{system}: the attribute {named_bad[0]} of the volume base is not the reported {named_bad[1]}",
                              {"system": system, "names": list(named_bad)}, {"system": system, "path": "calculator", "clause": "four_index_name"})
            pd = numpy.all(numpy.linalg.eigvalsh(C) > 1e-6, axis=-1)
            case = {"system": system, "path": "calculator", "keys": ["%d%d" % k for k in keys], "mass": float(calc.elast_data.cellmass)}
            ctx.count(case)
            assess(ctx, forms, system, vb, C, pd, numpy.asarray(vb.v_array, dtype=float), float(calc.elast_data.cellmass), case,
                   {"system": system, "path": "calculator"}, records)
            done += 1
    finally:
        wd.close()
    return done


def compliance_tensor(vb, shape):
    """S[t,v,i,j] in 1/GPa through the public attributes s11 .. s66 of the base (a vanishing component is not an attribute)."""
    G = consts.RY_BOHR3_TO_GPA
    S = numpy.zeros(shape)
    for i in range(6):
        for j in range(i, 6):
            try:
                a = getattr(vb, "s%d%d" % (i + 1, j + 1))
            except AttributeError:
                continue
            S[:, :, i, j] = S[:, :, j, i] = numpy.asarray(a) / G
    return S


def assess(ctx, forms, system, vb, C, pd, v, mass, case, sig, records, soft=False):
    """All clauses of C07 on one base object: C (GPa) is the stiffness field the base reports, pd where it is positive definite."""
    G = consts.RY_BOHR3_TO_GPA
    nt, ntv = C.shape[:2]
    if True:
        if True:
            try:
                rep = {n: numpy.asarray(getattr(vb, a)) for n, a in (("kv", "bulk_modulus_voigt"), ("kr", "bulk_modulus_reuss"),
                       ("kh", "bulk_modulus_voigt_reuss_hill"), ("gv", "shear_modulus_voigt"), ("gr", "shear_modulus_reuss"),
                       ("gh", "shear_modulus_voigt_reuss_hill"), ("vp", "primary_velocities"), ("vs", "secondary_velocities"))}
            except Exception as ex:
                ctx.violation(f"{system}: averages raised {ex!r}", case, {**sig, "clause": "raises"})
                return
            S = compliance_tensor(vb, C.shape)
            catoms = {"c%d%d" % k: C[:, :, k[0] - 1, k[1] - 1] for k in KEYS21}
            satoms = {"s%d%d" % k: S[:, :, k[0] - 1, k[1] - 1] for k in KEYS21}
            exp = {"kv": evaluate(forms["kv"], catoms), "gv": evaluate(forms["gv"], catoms),
                   "kr": 1.0 / evaluate(forms["kr_den"], satoms), "gr": 1.0 / evaluate(forms["gr_den"], satoms)}
            for n in ("kv", "gv", "kr", "gr"):
                got = rep[n] * G
                if not numpy.allclose(got[pd], exp[n][pd], rtol=1e-9, atol=0):
                    ctx.violation(f"{system}: reported {n} = {got[pd][0]!r} GPa, contraction of the full tensor gives {exp[n][pd][0]!r}",
                                  case, {**sig, "clause": n})
            # the reported compliances are the inverse of the reported stiffness
            eye = numpy.einsum("tvij,tvjk->tvik", S, C)
            if not numpy.allclose(eye[pd], numpy.eye(6)[None], atol=1e-8):
                ctx.violation(f"{system}: reported compliances are not the inverse of the reported stiffness", case, {**sig, "clause": "inverse"})
            # velocities in km/s with rho = m / (N_A V)
            rho = mass / (consts.N_A * v[None, :] * consts.BOHR_M ** 3 * 1e6)        # g/cm^3
            kh, gh = rep["kh"] * G, rep["gh"] * G
            for n, val in (("vs", numpy.sqrt(gh / rho)), ("vp", numpy.sqrt((kh + 4.0 / 3.0 * gh) / rho))):
                if not numpy.allclose(rep[n][pd], val[pd], rtol=1e-7):
                    ctx.violation(f"{system}: {n} = {rep[n][pd][0]!r} km/s, rho v^2 relation gives {val[pd][0]!r}", case, {**sig, "clause": n})
            # ---- trace records (not for the soft crystals: their compliances do not fit the integer scaling of the trace format) ----
            for it in range(nt if not soft else 0):
                for iv in range(ntv):
                    if not pd[it, iv] or not all(numpy.isfinite(rep[n][it, iv]) for n in rep) or not numpy.all(numpy.isfinite(S[it, iv])):
                        continue                         # (the clauses hold where the stiffness is positive definite)
                    ci = numpy.rint(C[it, iv] * 10).astype(int)
                    si = numpy.rint(S[it, iv] * 1e6).astype(int)
                    islack = int(6 * (0.5 * numpy.max(numpy.abs(si)) + 0.5 * numpy.max(numpy.abs(ci))) + 6)
                    vsl = int(rho[0, iv] * 100 * 2 * max(rep["vp"][it, iv], 1.0) * 100 * 0.5 + (rep["vp"][it, iv] * 100) ** 2 * 0.5 + 0.5 * 10000 + 50)
                    records.append({"c": ci.tolist(), "s": si.tolist(), "islack": islack,
                                    "kv": int(round(rep["kv"][it, iv] * G * 100)), "kr": int(round(rep["kr"][it, iv] * G * 100)),
                                    "kh": int(round(kh[it, iv] * 100)), "gv": int(round(rep["gv"][it, iv] * G * 100)),
                                    "gr": int(round(rep["gr"][it, iv] * G * 100)), "gh": int(round(gh[it, iv] * 100)),
                                    "rho": int(round(rho[0, iv] * 100)), "vp": int(round(rep["vp"][it, iv] * 100)),
                                    "vs": int(round(rep["vs"][it, iv] * 100)), "vslack": vsl, "pd": bool(pd[it, iv]),
                                    "sys": system})


def main(ctx, replay=None):
    from cij.util import c_
    rng = numpy.random.default_rng(ctx.seed + 707)
    sc = ctx.subdir("tlc")
    res = must_ok(run_tlc("C07", None, sc, workers=1, timeout=300))
    forms = res.load("c07_forms.json")
    exports = fillspec.cached_exports(ctx)
    ctx.cov["rule"] = ("positive-definite stiffness fields on a (T,V) grid for each of the nine systems (invariant tensors, random subsets "
                       "of components containing the nine orthotropic ones), random cell masses and volumes; a case is one field; each "
                       "(T,V) sample is one trace record; all non-trivial")
    ctx.assumptions += ["positive definiteness is decided by numpy eigvalsh in the harness and logged per sample",
                        "N_A, Rydberg, Bohr radius literals of cv/consts.py (rtol 1e-7)"]
    nfields = 3 if ctx.tier == "quick" else 120
    records = []
    G = consts.RY_BOHR3_TO_GPA
    stub_ok = True
    for system in fillspec.SYSTEMS:
        # (the free system gets extra fields: shear-shear coupling without normal-shear coupling)
        for fi in range((nfields + (3 if system == "triclinic" else 0)) if stub_ok else 0):
            nt, ntv = int(rng.integers(2, 5)), int(rng.integers(3, 7))
            soft = bool(fi == 0 and system in ("orthorhombic", "monoclinic", "triclinic"))
            aniso = bool(fi == 1 and system in ("orthorhombic", "monoclinic", "triclinic"))
            shearshear = bool(system == "triclinic" and fi >= nfields)
            try:
                stub, vb, C, pd, keys, v = build(rng, exports, system, nt, ntv, weak=(fi == nfields - 1 and system not in ("cubic", "orthorhombic")), soft=soft, aniso=aniso,
                                                 shearshear=shearshear)
            except StubUnavailable as ex:
                stub_ok = False
                ctx.cov["injected_field_path"] = f"unavailable: {ex}"
                break
            except CodeRaised as cr:
                ctx.count(cr.case)
                ctx.violation(f"{system}: computing the compliances of a positive-definite stiffness field raised {cr.ex!r}", cr.case,
                              {"system": system, "clause": "raises"})
                continue
            case = {"system": system, "keys": ["%d%d" % k for k in keys], "mass": stub.elast_data.cellmass}
            if fi % 2 == 1:
                # the isothermal constants are read by attribute BEFORE any average is asked for (the averages are those of the adiabatic tensor)
                case["isothermal_attributes_read_first"] = True
                for k in keys:
                    try:
                        getattr(vb, "c%d%dt" % k)
                    except Exception:
                        pass
            ctx.count(case)
            sig = {"system": system}
            assess(ctx, forms, system, vb, C, pd, v, stub.elast_data.cellmass, case, sig, records, soft)
        if records:
            ctx.sample({"system": system, "record": {k: records[-1][k] for k in ("kv", "kr", "kh", "gv", "gr", "gh", "rho", "vp", "vs", "pd")}}, limit=3)
    ne2e = end_to_end(ctx, rng, exports, forms, records, (2 if stub_ok else 6) if ctx.tier == "quick" else 18)
    ctx.cov["end_to_end_runs"] = ne2e
    if not stub_ok and ne2e < 2:
        raise MachineryError("neither the injected-field path nor the end-to-end path of C07 could run")
    usable = [r for r in records if r["pd"] and max(abs(x) for row in r["c"] for x in row) < 30000 and r["rho"] * r["vp"] ** 2 < 2 ** 30 // 3
              and max(abs(x) for row in r["s"] for x in row) * max(abs(x) for row in r["c"] for x in row) * 6 < 2 ** 31]
    ok, consumed, tres = validate_trace(ctx, "Trace_Averages", "Trace_Averages.cfg", usable, name="averages", timeout=900)
    ctx.cov["records"] = len(usable)
    if ctx.tier == "thorough" and ok and len(usable) > 5:
        from cv.trace import binding_control
        binding_control(ctx, "Trace_Averages", "Trace_Averages.cfg", usable, 5, lambda r: dict(r, kh=r["kv"] + 5000), "averages_neg", "hill_mean")
    if not ok:
        bad = usable[consumed]
        ctx.violation(f"{bad['sys']}: sample record #{consumed} violates the averages specification (inverse / Hill mean / bounds / "
                      f"rho v^2 relations): kv,kr,kh={bad['kv']},{bad['kr']},{bad['kh']} gv,gr,gh={bad['gv']},{bad['gr']},{bad['gh']} "
                      f"rho={bad['rho']} vp={bad['vp']} vs={bad['vs']}", {"record": bad}, {"system": bad["sys"], "clause": "trace"})
