"""X01 (supplementary, not a listed property) -- mode tracking across volumes: cij/misc/eig_sort_freqs.py regen_freq.

Model (spec/ModeTrack.tla): every sequence of per-volume file orders (NP = NV = 3 exhaustively); the chain "sort volume v against
the SORTED vectors of volume v-1" keeps every volume in the order of the first file (Tracked); the tempting variant "against the
previous FILE order" is refuted by TLC (expected violation = negative control of the model).  Binding (R): file-order sequences
simulated by TLC (NP = NV = 4, scaled to 3k modes) become matdyn eigenvector files of slowly rotating orthonormal bases with
random phases; regen_freq must return, at every volume, the frequency of the mode the first file lists at that position.
"""
import tempfile
from pathlib import Path

import numpy

from cv.core import MachineryError
from cv.tlaparse import printed_values
from cv.tlc import run_tlc, must_ok
from checks.c20 import render_eig, grammar, random_unitary

LEVEL = "model_checking"


def main(ctx, replay=None):
    from cij.misc.eig_sort_freqs import regen_freq
    from cij.io.traditional.qha_input import QHAInputData, VolumeData, QPointData
    rng = numpy.random.default_rng(ctx.seed + 9001)
    res = must_ok(run_tlc("ModeTrack", "ModeTrack.cfg", ctx.subdir("tlc"), workers=4, timeout=300))
    ctx.add_tlc(res)
    wrong = run_tlc("ModeTrack", "ModeTrack_wrong.cfg", ctx.subdir("wrong"), workers=1, timeout=300)
    ctx.add_tlc(wrong)
    if wrong.ok or "Tracked" not in (wrong.violated or ""):
        raise MachineryError("ModeTrack: the wrong chain variant was not refuted - the model does not discriminate")
    ctx.cov["controls"]["wrong_chain_refuted_by_TLC"] = True
    nb = 12 if ctx.tier == "quick" else 150
    sim = must_ok(run_tlc("ModeTrack", "ModeTrack_sim.cfg", ctx.subdir("sim"), workers=1, simulate=f"num={nb}", depth=6, seed=ctx.seed + 91, timeout=300))
    behaviours = [b[1] for b in printed_values(sim.out, "TRACK")]
    behaviours = [list(x) for x in {repr(b): b for b in behaviours}.values()]
    if len(behaviours) < 5:
        raise MachineryError("too few behaviours from the ModeTrack simulator")
    ctx.cov["rule"] = ("per-volume file orders simulated by TLC (4 blocks x 4 volumes), realised as matdyn files with 12 or 24 modes, 1-3 "
                       "q-points, complex bases rotating by <= 3 % per volume, random phases; a case is one behaviour; all non-trivial")
    ctx.assumptions += ["evec_load/evec_sort as in C20", "supplementary model: not one of the listed properties"]
    tmp = Path(tempfile.mkdtemp(prefix="cijverif.x01."))
    try:
        for bi, files in enumerate(behaviours):
            nv = len(files)
            blk = int(rng.choice([3, 3, 6]))                         # modes per abstract block; np = 4 blk must be a multiple of 3
            np_ = 4 * blk
            nq = int(rng.integers(1, 4))
            # abstract order of 4 blocks -> concrete order of np modes (blocks keep their inner order)
            orders = [[(int(b) - 1) * blk + j for b in f for j in range(blk)] for f in files]
            ctx.count({"files": files, "np": np_, "nq": nq})
            U0 = [random_unitary(rng, np_, True) for _ in range(nq)]
            fr = rng.uniform(50.0, 1200.0, (nq, np_))
            eigs, vols = [], []
            for v in range(nv):
                vals = {"q": numpy.round(rng.uniform(-1, 1, (nq, 3)), 4) if v == 0 else vals["q"], "freq": [], "vec": numpy.zeros((nq, np_, np_ // 3, 3), complex)}
                qpts = []
                for q in range(nq):
                    # true mode l at volume v: column l of a slowly rotating basis, frequency fr[q,l] (1 - 0.02 v)
                    A = U0[q] + 0.03 * v * (rng.normal(size=(np_, np_)) + 1j * rng.normal(size=(np_, np_))) / numpy.sqrt(np_)
                    Q, _ = numpy.linalg.qr(A)
                    ph = numpy.exp(1j * rng.uniform(0, 2 * numpy.pi, np_))
                    row = []
                    for c, l in enumerate(orders[v]):
                        cm = round(float(fr[q, l] * (1.0 - 0.02 * v)), 6)
                        row.append((round(cm / 33.35641, 6), cm))
                        vals["vec"][q, c] = numpy.round((Q[:, l] * ph[l]).reshape(np_ // 3, 3), 6)
                    vals["freq"].append(row)
                    qpts.append(QPointData(tuple(float(x) for x in vals["q"][q]), [r[1] for r in row]))
                f = tmp / f"b{bi}_v{v}.eig"
                f.write_text(render_eig(grammar(nq, np_), vals))
                eigs.append(str(f))
                vols.append(VolumeData(float(-10.0 * v), float(900.0 - 40.0 * v), float(-100.0 + v), qpts))
            weights = [(tuple(float(x) for x in vals["q"][q]), float(q + 1)) for q in range(nq)]
            data = QHAInputData(nv, nq, np_, 1, np_ // 3, weights, vols)
            sig = {"np": np_}
            try:
                out = regen_freq(data, eigs)
            except Exception as ex:
                ctx.violation(f"regen_freq raised {ex!r} for file orders {files}", {"files": files, "np": np_, "nq": nq}, {**sig, "clause": "raises"})
                continue
            bad = None
            if (out.nv, out.nq, out.np) != (nv, nq, np_) or len(out.volumes) != nv:
                bad = "counts changed"
            else:
                for v in range(nv):
                    vo = out.volumes[v]
                    if (vo.pressure, vo.volume, vo.energy) != (vols[v].pressure, vols[v].volume, vols[v].energy) or len(vo.q_points) != nq:
                        bad = f"volume header of volume {v + 1} changed"
                        break
                    for q in range(nq):
                        want = [round(float(fr[q, l] * (1.0 - 0.02 * v)), 6) for l in orders[0]]
                        got = [float(x) for x in vo.q_points[q].modes]
                        if len(got) != np_ or not numpy.allclose(got, want, rtol=0, atol=1e-9):
                            bad = (f"volume {v + 1}, q-point {q + 1}: frequencies are not those of the modes the first volume lists at each position "
                                   f"(positions {[i for i in range(min(len(got), np_)) if abs(got[i] - want[i]) > 1e-9][:6]} differ)")
                            break
                        if not numpy.allclose(vo.q_points[q].coord if hasattr(vo.q_points[q], 'coord') else vo.q_points[q][0], vals["q"][q], atol=1e-9):
                            bad = f"q coordinates of q-point {q + 1} changed"
                            break
                    if bad:
                        break
            if bad:
                ctx.violation(f"regen_freq on file orders {files} ({np_} modes): {bad}", {"files": files, "np": np_, "nq": nq}, {**sig, "clause": "tracked"})
        ctx.sample({"files": behaviours[0]})
        ctx.sample({"files": behaviours[-1]})
    finally:
        import shutil
        shutil.rmtree(tmp, ignore_errors=True)
