"""C17 -- input files round-trip: phonon data write/read, static table parse, fill output.

Model (spec/Formats.tla): the input01 reader as a line-consuming state machine; TLC feeds every small document (position-
encoding payloads) through it and checks Read(Write(d)) = d, pairing of weights with q-points, no error state, termination;
the static-table parse as an ASSUME-theorem.  Binding: (R1) the specification's documents rendered to text and read by the
real read_energy; (R2) files produced by the real write_energy, tokenised, and run through the specification's reader machine
by TLC; large random data sets through write_energy -> read_energy to the written precision; read_elast_data on independently
rendered tables (column order, prefixes, case, lattice block); `cij fill -s SYSTEM FILE` output re-parsed for all nine systems.
"""
import json
import os
import tempfile
from fractions import Fraction
from pathlib import Path

import numpy

from cv import fillspec
from cv.core import MachineryError
from cv.relparse import SYMS
from cv.tlc import run_tlc, must_ok

LEVEL = "model_checking"


def render(doc):
    out = []
    for ln in doc:
        k = ln[0]
        if k == "text":
            out.append("some preamble text")
        elif k == "counts":
            out.append(f"{ln[1]} {ln[2]} {ln[3]} 1 {max(ln[3] // 3, 1)}")
        elif k == "blank":
            out.append("")
        elif k == "pve":
            out.append(f"P= {ln[1]:.6f} V= {ln[2]:.6f} E= {ln[3]:.6f}")
        elif k == "coord":
            out.append(f"{ln[1]:.4f} {ln[1] + 0.5:.4f} {ln[1] + 0.25:.4f}")
        elif k == "mode":
            out.append(f"{ln[1]:.6f}")
        elif k == "weighthdr":
            out.append("weight")
        elif k == "weight":
            out.append(f"{ln[1]:.6f} {ln[1] + 0.5:.6f} {ln[1] + 0.25:.6f} {ln[2]:.6f}")
    return "\n".join(out) + "\n"


def tokenise(text):
    """a real input01 file -> typed lines of the specification (first coordinate / value only)"""
    import re
    doc, seen_counts, in_w = [], False, False
    for raw in text.splitlines():
        s = raw.strip()
        f = s.split()
        if in_w:
            doc.append(["weight", int(round(float(f[0]))), int(round(float(f[3])))])
        elif s in ("weight", "weights"):
            doc.append(["weighthdr"]); in_w = True
        elif not seen_counts:
            if re.fullmatch(r"\d+\s+\d+\s+\d+\s+\d+\s+\d+", s):
                doc.append(["counts", int(f[0]), int(f[1]), int(f[2])]); seen_counts = True
            else:
                doc.append(["text"])
        elif s == "":
            doc.append(["blank"])
        elif s.startswith("P="):
            m = re.search(r"\S=\s+(\S+)\s+\S=\s+(\S+)\s+\S=\s+(\S+)", s)
            doc.append(["pve"] + [int(round(float(x))) for x in m.groups()])
        elif len(f) == 3:
            doc.append(["coord", int(round(float(f[0])))])
        elif len(f) == 1:
            doc.append(["mode", int(round(float(f[0])))])
        else:
            doc.append(["text"])
    return doc


def spec_data(nv, nq, np_):
    from cij.io.traditional.models import QHAInputData, VolumeData, QPointData
    vols = [VolumeData(100.0 + i, 200.0 + i, 300.0 + i, [QPointData((400.0 + q, 400.5 + q, 400.25 + q), [float(1000 * i + 10 * q + m) for m in range(1, np_ + 1)])
                                                          for q in range(1, nq + 1)]) for i in range(1, nv + 1)]
    return QHAInputData(nv, nq, np_, 1, max(np_ // 3, 1), [((400.0 + q, 400.5 + q, 400.25 + q), 500.0 + q) for q in range(1, nq + 1)], vols)


def main(ctx, replay=None):
    from cij.io.traditional import read_energy, read_elast_data
    from cij.io.traditional.qha_input import write_energy
    from cij.io.traditional.models import QHAInputData, VolumeData, QPointData
    rng = numpy.random.default_rng(ctx.seed + 1717)
    sc = ctx.subdir("tlc")
    res = must_ok(run_tlc("C17", "Formats.cfg", sc, workers=4, timeout=300))
    ctx.add_tlc(res)
    docs = res.load("c17_docs.json")["docs"]
    ctx.cov["rule"] = ("(R1) all documents of the specification rendered and read by read_energy; (R2) real write_energy output on "
                       "position-encoding data run through the specification's reader machine; random data sets (1-12 volumes, 1-10 "
                       "q-points, 3-60 modes, either sign, magnitudes to 1e5) round-tripped; static tables with random column order, "
                       "prefix, case, lattice block; `cij fill` round trip for nine systems; distinct by content")
    ctx.assumptions += ["'to the written precision' = half a unit of the last printed digit", "static-table payloads carry <= 4 decimals in the fill round trip"]
    tmp = Path(tempfile.mkdtemp(prefix="cijverif.c17."))
    try:
        # ---- R1: spec documents through the real reader ------------------------------------------------------
        for n, row in enumerate(docs):
            f = tmp / f"spec{n}.txt"
            f.write_text(render(row["doc"]))
            ctx.count({"r1": row["counts"], "n": n})
            try:
                d = read_energy(str(f))
            except Exception as ex:
                ctx.violation(f"read_energy fails on a well-formed document (counts {row['counts']}): {ex!r}", {"doc": row["doc"]}, {"clause": "read_raises"})
                continue
            exp = row["expected"]
            got = {"vols": [{"p": round(v.pressure), "v": round(v.volume), "e": round(v.energy),
                             "q": [{"coord": round(q.coord[0]), "modes": [round(x) for x in q.modes]} for q in v.q_points]} for v in d.volumes],
                   "weights": [[round(c[0]), round(w)] for c, w in d.weights]}
            if got != exp or [d.nv, d.nq, d.np] != row["counts"]:
                ctx.violation(f"read_energy parse differs from the specification for counts {row['counts']}", {"doc": row["doc"], "got": got, "expected": exp},
                              {"clause": "read_value"})
        ctx.sample({"document": docs[3]["doc"]})
        # ---- R2: the real writer's files through the specification's reader machine --------------------------------
        real_docs = []
        for nv, nq, np_ in ((1, 1, 1), (2, 1, 2), (2, 2, 1), (2, 2, 2), (1, 2, 2)):
            f = tmp / "w.txt"
            write_energy(str(f), spec_data(nv, nq, np_))
            real_docs.append(tokenise(f.read_text()))
            ctx.count({"r2": [nv, nq, np_]})
        df = tmp / "realdocs.json"
        df.write_text(json.dumps(real_docs))
        res2 = run_tlc("Formats", "Formats.cfg", ctx.subdir("tlc_r2"), env={"DOCFILE": str(df)}, workers=2, timeout=300)
        ctx.add_tlc(res2)
        if not res2.ok:
            if res2.violated:
                ctx.violation(f"a file written by write_energy is not read back correctly by the specification's reader machine ({res2.violated})",
                              {"docs": real_docs, "tlc": res2.error[:600]}, {"clause": "writer_structure", "inv": res2.violated.split()[0]})
            else:
                raise MachineryError(f"Formats on real documents failed: {res2.error}")
        # ---- large random data sets: write -> read to the written precision -----------------------------------------
        nsets = 20 if ctx.tier == "quick" else 300
        for n in range(nsets):
            nv, nq, np_ = int(rng.integers(1, 13)), int(rng.integers(1, 11)), 3 * int(rng.integers(1, 21))
            mag = 10.0 ** rng.uniform(-2, 5)
            def val(size=None):
                return rng.uniform(-mag, mag, size)
            vols = [VolumeData(float(val()), float(val()), float(val()),
                               [QPointData(tuple(float(x) for x in rng.uniform(-1, 1, 3)), [float(x) for x in val(np_)]) for _ in range(nq)]) for _ in range(nv)]
            if n % 3 == 1:
                # as real files have it: the first q-point is the zone centre, coordinates exactly (0, 0, 0), and its three lowest
                # frequencies are small numbers of either sign (numerical noise of the acoustic branches) - data like any other
                for vd in vols:
                    small = [float(x) for x in rng.uniform(-0.95, 0.95, 3)]
                    vd.q_points[0] = QPointData((0.0, 0.0, 0.0), small + list(vd.q_points[0].modes[3:]))
            data = QHAInputData(nv, nq, np_, int(rng.integers(1, 5)), np_ // 3, [(tuple(float(x) for x in rng.uniform(-1, 1, 3)), float(rng.uniform(0, 50))) for _ in range(nq)], vols)
            f = tmp / "rt.txt"
            ctx.count({"rt": [nv, nq, np_], "mag": mag})
            try:
                write_energy(str(f), data)
                back = read_energy(str(f))
            except Exception as ex:
                ctx.violation(f"write_energy/read_energy raised {ex!r} for counts {(nv, nq, np_)}", {"counts": [nv, nq, np_]}, {"clause": "roundtrip_raises"})
                continue
            bad = None
            if (back.nv, back.nq, back.np, back.nm, back.na) != (nv, nq, np_, data.nm, data.na):
                bad = "counts"
            elif len(back.volumes) != nv or len(back.weights) != nq:
                bad = "number of volumes / weights"
            else:
                for a, b in zip(data.volumes, back.volumes):
                    if not max(abs(a.pressure - b.pressure), abs(a.volume - b.volume), abs(a.energy - b.energy)) <= 5.1e-7:
                        bad = "P/V/E"
                    for qa, qb in zip(a.q_points, b.q_points):
                        if len(qb.modes) != np_ or numpy.max(numpy.abs(numpy.array(qa.coord) - numpy.array(qb.coord))) > 5.1e-5 \
                                or not numpy.max(numpy.abs(numpy.array(qa.modes) - numpy.array(qb.modes))) <= 5.1e-7:
                            bad = "q-point coordinates / frequencies"
                    if len(b.q_points) != nq:
                        bad = "number of q-points"
                for (ca, wa), (cb, wb) in zip(data.weights, back.weights):
                    if not numpy.max(numpy.abs(numpy.array(ca) - numpy.array(cb))) <= 5.1e-7 or not abs(wa - wb) <= 5.1e-7:
                        bad = "weights"
            if bad:
                ctx.violation(f"write_energy -> read_energy does not reproduce {bad} for counts {(nv, nq, np_)}, magnitude {mag:.3g}",
                              {"counts": [nv, nq, np_], "mag": mag}, {"clause": "roundtrip", "what": bad})
        static_tables(ctx, rng, tmp, read_elast_data)
        reread_after_use(ctx, rng, tmp, read_elast_data)
        fill_roundtrip(ctx, rng, tmp, read_elast_data)
    finally:
        import shutil
        shutil.rmtree(tmp, ignore_errors=True)


def static_tables(ctx, rng, tmp, read_elast_data):
    from cij.util import c_
    n = 30 if ctx.tier == "quick" else 400
    keys21 = [(i, j) for i in range(1, 7) for j in range(i, 7)]
    for t in range(n):
        nv = int(rng.integers(1, 9))
        ks = [keys21[int(i)] for i in rng.permutation(21)[:int(rng.integers(1, 22))]]
        lat = bool(rng.random() < 0.5)
        vref, mass = float(rng.uniform(100, 900)), float(rng.uniform(10, 500))
        from cv.synth import spell
        names = [spell(rng, k) for k in ks]
        vols = numpy.sort(rng.uniform(100, 900, nv))[::-1]
        vals = rng.uniform(-500, 500, (nv, len(ks)))
        latv = rng.uniform(0.5, 5, (nv, 3))
        # the same table in different ink: number notation (plain / exponent / explicit sign), separators (blank, blanks, tab), line
        # ends, leading and trailing blanks.  The tabulated value is what the printed token denotes.
        nstyle, sep, eol = int(rng.integers(0, 3)), str(rng.choice([" ", "   ", "\t"])), str(rng.choice(["\n", "\n", "\r\n"]))
        pad_l, pad_r = str(rng.choice(["", " ", "  "])), str(rng.choice(["", " ", "\t"]))

        def num(x):
            tok = [repr(float(x)), "%.10E" % float(x), "%+.8f" % float(x)][nstyle]
            return tok, float(tok)
        tv, tm = num(vref), num(mass)
        vref, mass = tv[1], tm[1]
        toks = [[num(x) for x in row] for row in vals]
        vals = numpy.array([[t[1] for t in row] for row in toks]).reshape(nv, len(ks))
        vtoks = [num(x) for x in vols]
        vols = numpy.array([t[1] for t in vtoks])
        ltoks = [[num(x) for x in row] for row in latv]
        latv = numpy.array([[t[1] for t in row] for row in ltoks])
        lines = ["a comment line", pad_l + sep.join([tv[0], str(nv), tm[0]]) + pad_r, pad_l + sep.join(["V"] + names) + pad_r]
        for i in range(nv):
            lines.append(pad_l + sep.join([vtoks[i][0]] + [t[0] for t in toks[i]]) + pad_r)
        if lat:
            lines.append(str(rng.choice(["lattice parameters a b c", "lattice_a lattice_b lattice_c", "a b c", "# axes", "cell edges in bohr"])))
            for i in range(nv):
                lines.append(pad_l + sep.join(t[0] for t in ltoks[i]) + pad_r)
        f = tmp / "elast.dat"
        trail = "" if lat else str(rng.choice(["", eol, eol + eol, "   " + eol]))      # blank line(s) after a table without lattice block
        f.write_bytes((eol.join(lines) + eol + trail).encode())
        ctx.count({"static": names, "nv": nv, "lat": lat, "trail": trail, "ink": [nstyle, sep, eol, pad_l, pad_r]})
        try:
            d = read_elast_data(str(f))
        except Exception as ex:
            ctx.violation(f"read_elast_data raised {ex!r} on a well-formed table with columns {names}", {"text": "\n".join(lines)}, {"clause": "elast_raises"})
            continue
        bad = None
        if (d.vref, d.nv, d.cellmass) != (vref, nv, mass):
            bad = "header"
        elif len(d.volumes) != nv:
            bad = "row count"
        else:
            for i in range(nv):
                exp = {c_(*k): float(vals[i][j]) for j, k in enumerate(ks)}
                if d.volumes[i].volume != float(vols[i]) or dict(d.volumes[i].static_elastic_modulus) != exp:
                    bad = "row values / canonical keys"
            if lat and [tuple(x) for x in d.lattice_parmeters] != [tuple(float(y) for y in r) for r in latv]:
                bad = "lattice block"
            if not lat and len(d.lattice_parmeters) != 0:
                bad = "spurious lattice block"
        if bad:
            ctx.violation(f"read_elast_data: {bad} wrong for columns {names}", {"text": "\n".join(lines)}, {"clause": "elast_value", "what": bad})


def reread_after_use(ctx, rng, tmp, read_elast_data):
    """Reading a static table yields the TABULATED components - also when the same, unchanged file was read before in this process and the
    object parsed then has been used the way `cij run` uses it (symmetry filling applied to it in place)."""
    from cij.io.traditional.elast_dat import apply_symetry_on_elast_data
    from cij.util import c_
    for system, cols in (("cubic", {(1, 1): 300.0, (1, 2): 120.0, (4, 4): 80.0}),
                         ("hexagonal", {(1, 1): 310.0, (1, 2): 95.0, (1, 3): 70.0, (3, 3): 280.0, (4, 4): 60.0}),
                         ("orthorhombic", {(1, 1): 300.0, (2, 2): 290.0, (3, 3): 280.0, (1, 2): 100.0, (1, 3): 90.0, (2, 3): 80.0, (4, 4): 70.0, (5, 5): 60.0, (6, 6): 50.0})):
        nv = int(rng.integers(2, 6))
        vols = [400.0 - 20.0 * i for i in range(nv)]
        fac = [1.0 + 0.07 * i for i in range(nv)]
        ks = list(cols)
        lines = ["static table", f"400.0 {nv} 100.0", "V " + " ".join("c%d%d" % k for k in ks)]
        for i in range(nv):
            lines.append(" ".join([repr(vols[i])] + [repr(cols[k] * fac[i]) for k in ks]))
        f = tmp / f"elast_{system}.dat"
        f.write_text("\n".join(lines) + "\n")
        exp = [{c_(*k): cols[k] * fac[i] for k in ks} for i in range(nv)]
        ctx.count({"static_reread": system, "nv": nv})
        try:
            d1 = read_elast_data(str(f))
            apply_symetry_on_elast_data(d1, {"system": system})
            d2 = read_elast_data(str(f))
            d3 = read_elast_data(str(f))
        except Exception as ex:                                                    # noqa: BLE001
            ctx.violation(f"reading / filling / re-reading a {system} table raised {ex!r}", {"text": "\n".join(lines)}, {"clause": "elast_raises"})
            continue
        for which, d in (("second", d2), ("third", d3)):
            got = [dict(v.static_elastic_modulus) for v in d.volumes]
            if got != exp or [v.volume for v in d.volumes] != vols:
                ctx.violation(f"read_elast_data: the {which} read of an unchanged {system} table (after the symmetry filling was applied to the first "
                              f"parsed object) does not yield the tabulated components: {len(got[0]) if got else 0} components per row, the file lists {len(ks)}",
                              {"text": "\n".join(lines)}, {"clause": "elast_value", "what": "re-read after use"})
                break


def fill_roundtrip(ctx, rng, tmp, read_elast_data):
    """`cij fill -s SYSTEM FILE`: stdout is a valid static table whose parse equals the symmetry-filled parse of the input.
    The symmetry-filled parse is taken from the specification (rows are integer combinations of the invariant-subspace basis exported by
    C08.tla, so the filled tensor is known exactly), never from the package's own filling."""
    from click.testing import CliRunner
    from cij.cli.fill import main as fill_main
    from cij.util import c_
    exports = fillspec.cached_exports(ctx)
    keys21 = [(i, j) for i in range(1, 7) for j in range(i, 7)]
    vols = [1600.123412, 1550.507109, 1500.250936]           # ten significant digits, six decimals
    fac = [Fraction(1003, 1000), Fraction(987, 1000), Fraction(1021, 1000)]   # three-decimal factors on (half-)integer tensors: payloads with four decimals
    for s in fillspec.SYSTEMS:
        for variant in ("exported", "touching_zero", "subset"):
            e = exports[s]
            van = set(e["vanishing"])
            null = [[Fraction(x[0], x[1]) for x in v] for v in e["null"]]
            if variant == "exported":
                rows = [[Fraction(x[0], x[1]) for x in t] for t in e["tensors"]]
            else:
                # integer combinations; one basis tensor enters with the coefficients (-2, -1, 0) / (2, 1, 0) over the three volumes, so
                # the components that only it feeds are one-signed and vanish at exactly one volume
                k0 = int(rng.integers(0, len(null)))
                sg = int(rng.choice([-1, 1]))
                coef = [[int(rng.integers(2, 9)) * int(rng.choice([-1, 1])) for _ in null] for _ in range(3)]
                for i, c0 in enumerate((2, 1, 0)):
                    coef[i][k0] = sg * c0
                rows = [[sum(coef[i][k] * null[k][n] for k in range(len(null))) for n in range(21)] for i in range(3)]
            rows = [[x * fac[i] for x in r] for i, r in enumerate(rows)]
            full = [n for n in range(1, 22) if n not in van]
            supplied = list(full)
            if variant == "subset" and s != "triclinic":
                # drop supplied components one at a time while the rest still determines the tensor (rank of the basis restricted to the kept components)
                import numpy
                B = numpy.array([[float(x) for x in v] for v in null])
                for n in [int(x) for x in rng.permutation(full)]:
                    keep = [m for m in supplied if m != n]
                    if keep and numpy.linalg.matrix_rank(B[:, [m - 1 for m in keep]], tol=1e-9) == len(null):
                        supplied = keep
            lat = bool(rng.random() < 0.6)
            lines = [f"static table for {s}", "612.5 3 101.25", "V " + " ".join(SYMS[n - 1] for n in supplied)]
            for i, t in enumerate(rows):
                lines.append(f"{vols[i]:.6f} " + " ".join(f"{float(t[n - 1]):.4f}" for n in supplied))
            if lat:
                lines.append("lattice")
                for i in range(3):
                    lines.append(f"{1.0 + i:.4f} {2.0 + i:.4f} {3.0 + i:.4f}")
            if rng.random() < 0.5:
                lines[0] = f"static table for {s} \u2014 V in \u00c5\u00b3, MgSiO\u2083"        # header lines are free text (UTF-8)
            f = tmp / "fill_in.dat"
            f.write_text("\n".join(lines) + "\n", encoding="utf8")
            ctx.count({"fill_cli": s, "variant": variant, "lat": lat, "supplied": len(supplied), "non_ascii_header": not lines[0].isascii()})
            sig = {"system": s, "variant": variant}
            r = CliRunner().invoke(fill_main, ["-s", s, str(f)])
            if r.exit_code != 0:
                ctx.violation(f"cij fill -s {s} failed on a consistent, sufficient table ({variant}): {r.exception!r}", {"input": "\n".join(lines)}, {"clause": "fill_cli_fails", **sig})
                continue
            g = tmp / "fill_out.dat"
            g.write_text(r.output, encoding="utf8")
            try:
                out = read_elast_data(str(g))
                ref = read_elast_data(str(f))
            except Exception as ex:
                ctx.violation(f"output of cij fill -s {s} is not a valid static table: {ex!r}", {"output": r.output}, {"clause": "fill_output_invalid", **sig})
                continue
            # reading the input file AGAIN (after the command has read and filled it in this process) yields what is tabulated: the supplied
            # components with the printed values, nothing else
            tab = [{c_(*keys21[n - 1]): float(f"{float(rows[i][n - 1]):.4f}") for n in supplied} for i in range(3)]
            if any(dict(v.static_elastic_modulus) != tab[i] for i, v in enumerate(ref.volumes)):
                ctx.violation(f"read_elast_data of the input of `cij fill -s {s}` (read again after the command ran) is not the tabulated table: components "
                              f"{sorted(str(k) for k in ref.volumes[0].static_elastic_modulus)}", {"input": "\n".join(lines)}, {"clause": "reread_after_fill", **sig})
                continue
            # the filled tensor per volume, from the specification: every component that does not vanish at all volumes
            present = [n for n in range(1, 22) if any(abs(float(rows[i][n - 1])) > 5e-5 for i in range(3))]
            want = [{c_(*keys21[n - 1]): float(rows[i][n - 1]) for n in present} for i in range(3)]
            bad = None
            if (out.vref, out.nv, out.cellmass) != (ref.vref, ref.nv, ref.cellmass) or r.output.splitlines()[0] != lines[0]:
                bad = "header lines"
            elif [v.volume for v in out.volumes] != [v.volume for v in ref.volumes]:
                bad = "volumes"
            elif [tuple(x) for x in out.lattice_parmeters] != [tuple(x) for x in ref.lattice_parmeters]:
                bad = "lattice block"
            else:
                for i, a in enumerate(out.volumes):
                    got = a.static_elastic_modulus
                    if set(got) != set(want[i]):
                        bad = f"components present (extra {sorted(str(k) for k in set(got) - set(want[i]))}, missing {sorted(str(k) for k in set(want[i]) - set(got))})"
                        break
                    if any(not abs(got[k] - want[i][k]) <= 6e-5 for k in want[i]):
                        bad = "component values"
                        break
                    # supplied values are carried over as printed
                    if any(not abs(got[k] - ref.volumes[i].static_elastic_modulus[k]) <= 2e-5 for k in ref.volumes[i].static_elastic_modulus if k in got):
                        bad = "supplied values"
                        break
            if bad:
                ctx.violation(f"cij fill -s {s} ({variant}): {bad} of the output differ from the symmetry-filled parse of the input", {"input": "\n".join(lines), "output": r.output},
                              {"clause": "fill_roundtrip", **sig, "what": bad.split(" (")[0]})
