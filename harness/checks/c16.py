"""C16 -- effective configuration = user settings over packaged defaults; invalid configurations rejected.

Model (spec/Config.tla, C16.tla): all 144x144 ordered pairs of dictionary trees (depth <= 2) are TLC states; the merge laws
(user leaves kept, defaults fill only unspecified paths, no stray keys, idempotence, identities) are invariants; the merge
table and the verdicts of all single-field perturbations over the documented fields are exported.
Binding (R): the whole table through update_config (inputs deep-compared before/after), apply_default_config against the
live packaged defaults, every perturbation written as YAML and JSON through read_config.
"""
import copy
import json
import shutil
import tempfile
from pathlib import Path

from cv.core import REPO, MachineryError
from cv.tlc import run_tlc, must_ok

LEVEL = "model_checking"


def to_py(t):
    if t[0] == "L":
        return t[1]
    f = t[1]
    if isinstance(f, list):            # empty function serialises as []
        f = {}
    return {k: to_py(v) for k, v in f.items()}


def leaf_paths(t, path=()):
    if not isinstance(t, dict):
        return {(path, json.dumps(t, sort_keys=True))}
    out = set()
    for k, v in t.items():
        out |= leaf_paths(v, path + (k,))
    return out


def node_paths(t, path=()):
    out = {path}
    if isinstance(t, dict):
        for k, v in t.items():
            out |= node_paths(v, path + (k,))
    return out


def set_path(cfg, path, value):
    d = cfg
    for k in path[:-1]:
        if not isinstance(d.get(k), dict):
            d[k] = {}
        d = d[k]
    d[path[-1]] = value


def concretise(p):
    c, mn = p["class"], (p["min"][0] if p["min"] else None)
    base = mn if mn is not None else 1
    return {"int_ok": int(base) + 2, "float_ok": float(base) + 0.5, "fractional": float(base) + 1.5,
            "below_min": (base - 1) if mn is not None else None, "string": "12", "boolean": True, "null": None}[c]


def main(ctx, replay=None):
    import yaml
    import cij.data
    from cij.io.config import read_config, update_config, apply_default_config, validate_config

    res = must_ok(run_tlc("C16", "C16.cfg", ctx.subdir("tlc"), workers=16, timeout=600))
    ctx.add_tlc(res)
    if res.distinct != 144 * 144:
        raise MachineryError(f"C16 explored {res.distinct} states, expected {144*144}")
    ctx.cov["exhaustive"] = True
    ctx.cov["rule"] = ("all 20736 ordered pairs of dictionary trees over keys {a,b}, leaves {0,2}, depth <= 2 (merge); all single-field "
                       "perturbations over the documented fields x value classes x 4 valid bases x {yaml,json} (validation); non-trivial = "
                       "both trees non-empty / perturbation other than 'none'")
    ctx.assumptions += ["classes the documentation is silent on (integral floats for integer fields, extra keys in qha.settings or "
                        "mode_gamma) are not generated", "'rejected' = any exception from read_config"]
    # ---- merge table ------------------------------------------------------------------------------------
    pairs = res.load("c16_merge.json")["pairs"]
    if len(pairs) != 144 * 144:
        raise MachineryError("merge table incomplete")
    nbad = 0
    for row in pairs:
        u, d, m = to_py(row["u"]), to_py(row["d"]), to_py(row["m"])
        u0, d0 = copy.deepcopy(u), copy.deepcopy(d)
        ctx.count({"u": u, "d": d}, nontrivial=bool(u) and bool(d))
        sig = {"fn": "update_config"}
        try:
            got = update_config(u, d)
        except Exception as ex:
            nbad += 1
            shape = "dict_over_leaf" if any(isinstance(u.get(k), dict) and k in d and not isinstance(d[k], dict) for k in u) else "other"
            ctx.violation(f"update_config({u0}, {d0}) raised {ex!r}; specification gives {m}", {"u": u0, "d": d0, "expected": m},
                          {**sig, "clause": "raises", "exc": type(ex).__name__, "shape": shape})
            continue
        if u != u0 or d != d0:
            ctx.violation(f"update_config modified its input: {u0}->{u} / {d0}->{d}", {"u": u0, "d": d0}, {**sig, "clause": "mutates"})
        if got != m:
            ctx.violation(f"update_config({u0}, {d0}) = {got}, specification gives {m}", {"u": u0, "d": d0, "got": got, "expected": m},
                          {**sig, "clause": "value"})
            continue
        try:
            again = update_config(got, d)
        except Exception as ex:
            again = ex
        if again != got:
            ctx.violation(f"update_config is not idempotent on ({u0}, {d0}): {again!r}", {"u": u0, "d": d0}, {**sig, "clause": "idempotent"})
    ctx.sample({"u": to_py(pairs[777]["u"]), "d": to_py(pairs[777]["d"]), "merge": to_py(pairs[777]["m"])})
    # the same table one and two levels further down (NestLaw: the merge commutes with nesting), next to a sibling only the defaults have
    for n, row in enumerate(pairs):
        if n % 5:
            continue
        u, d, m = to_py(row["u"]), to_py(row["d"]), to_py(row["m"])
        for depth in (1, 2, 4, 6):
            def wrap(t, extra, depth=depth):
                out = {"s": t, **extra}
                for lvl in range(depth - 1):
                    out = {"e%d" % lvl: out}
                return out
            uu, dd, mm = wrap(u, {}), wrap(d, {"other": 7}), wrap(m, {"other": 7})
            ctx.count({"u": uu, "d": dd})
            try:
                got = update_config(copy.deepcopy(uu), copy.deepcopy(dd))
            except Exception as ex:
                ctx.violation(f"update_config({uu}, {dd}) raised {ex!r}; specification gives {mm}", {"u": uu, "d": dd, "expected": mm},
                              {"fn": "update_config", "clause": "raises", "exc": type(ex).__name__, "shape": "nested"})
                break
            if got != mm:
                ctx.violation(f"update_config({uu}, {dd}) = {got}, specification gives {mm} (merge below depth two)", {"u": uu, "d": dd, "got": got, "expected": mm},
                              {"fn": "update_config", "clause": "value", "shape": "nested"})
                break

    # ---- apply_default_config against the live packaged defaults -------------------------------------------
    with open(cij.data.get_data_fname("default/settings.yaml")) as fp:
        default = yaml.safe_load(fp)
    users = []
    for ex in ("akimotoite", "diopside", "bridgmanite"):
        with open(REPO / "examples" / ex / "settings.yaml") as fp:
            users.append(yaml.safe_load(fp))
    users += [{"qha": {"input": "x", "settings": {"NT": 3}}, "elast": {"input": "y"}},
              {"qha": {"settings": {"T_MIN": 300}}, "elast": {"settings": {"symmetry": {"system": "cubic"}}}, "output": {"pressure_base": ["cij"]}},
              {"qha": {}, "elast": {}},
              # grid steps without their sampling steps (and the reverse): what is left out comes from the packaged defaults
              {"qha": {"settings": {"DT": 25, "DELTA_P": 0.5}}, "elast": {}},
              {"qha": {"settings": {"DT_SAMPLE": 50, "P_MIN": -5, "NTV": 41}}, "elast": {"settings": {"symmetry": {"ignore_rank": True}}}},
              {"qha": {"input": "x"}, "elast": {"input": "y", "settings": {"mode_gamma": {"interpolator": "spline"}}}},
              {"qha": {"input": "x"}, "elast": {"input": "y", "settings": {"mode_gamma": {"order": 4}}}}]
    for uc in users:
        u0 = copy.deepcopy(uc)
        ctx.count({"apply_default": uc})
        try:
            eff = apply_default_config(uc)
        except Exception as ex:
            ctx.violation(f"apply_default_config raised {ex!r}", {"user": u0}, {"fn": "apply_default_config", "clause": "raises"})
            continue
        if uc != u0:
            ctx.violation("apply_default_config modified the user configuration", {"user": u0}, {"fn": "apply_default_config", "clause": "mutates"})
        lu, le, ld = leaf_paths(u0), leaf_paths(eff), leaf_paths(default)
        if not lu <= le:
            ctx.violation(f"user-specified values lost: {sorted(lu - le)[:3]}", {"user": u0, "effective": eff}, {"fn": "apply_default_config", "clause": "user_kept"})
        other = le - lu
        unode = node_paths(u0)
        badl = [lp for lp in other if lp not in ld or lp[0] in unode]
        if badl:
            ctx.violation(f"effective configuration has leaves that are neither the user's nor unspecified defaults: {badl[:3]}",
                          {"user": u0, "effective": eff}, {"fn": "apply_default_config", "clause": "defaults_fill"})
        missing = [lp for lp in ld if lp not in le and not any(lp[0][:n] in {p for p, _ in lu} or (lp[0][:n] in unode and not isinstance(_get(u0, lp[0][:n]), dict)) for n in range(1, len(lp[0]) + 1))]
        if missing:
            ctx.violation(f"unspecified defaults not taken: {missing[:3]}", {"user": u0, "effective": eff}, {"fn": "apply_default_config", "clause": "defaults_taken"})
        if not node_paths(eff) <= unode | node_paths(default):
            ctx.violation("effective configuration contains stray keys", {"user": u0, "effective": eff}, {"fn": "apply_default_config", "clause": "stray"})

    # a caller editing the configuration it got back must not change what the NEXT call takes from the packaged defaults
    def poison(t):
        for k in list(t):
            if isinstance(t[k], dict):
                poison(t[k])
            else:
                t[k] = "POISON"
        t["poison_key"] = 1
    for uc in users[:4]:
        ctx.count({"apply_default_twice": uc})
        try:
            first = apply_default_config(copy.deepcopy(uc))
            snapshot = copy.deepcopy(first)
            poison(first)
            second = apply_default_config(copy.deepcopy(uc))
        except Exception as ex:
            ctx.violation(f"apply_default_config raised {ex!r} on the second call", {"user": uc}, {"fn": "apply_default_config", "clause": "raises"})
            continue
        if second != snapshot:
            ctx.violation("after the caller edited a returned configuration, apply_default_config no longer takes the packaged defaults "
                          "(the effective configuration of the next call contains the caller's edits)", {"user": uc, "second": second},
                          {"fn": "apply_default_config", "clause": "defaults_polluted"})

    # ---- validation decision table ---------------------------------------------------------------------------
    perts = res.load("c16_valid.json")["perturbations"]
    full = copy.deepcopy(default)
    full["qha"]["settings"]["NTV"] = 21
    static = copy.deepcopy(full)
    static["qha"]["settings"]["static_only"] = True       # a valid setting; both sections stay required with it
    bases = [("default", default), ("akimotoite", users[0]), ("full", full), ("static_only", static)]
    tmp = Path(tempfile.mkdtemp(prefix="cijverif.c16."))
    try:
        for bname, base in bases:
            for p in perts:
                cfg = copy.deepcopy(base)
                path = tuple(p["path"])
                if p["kind"] == "num":
                    set_path(cfg, path, concretise(p))
                elif p["kind"] == "enum":
                    set_path(cfg, path, p["value"])
                elif p["kind"] == "extra_key":
                    set_path(cfg, path + ("unknown_option",), 1)
                elif p["kind"] == "drop_section":
                    cfg.pop(path[0], None)
                case = {"base": bname, **{k: p[k] for k in p if k != "min"}}
                ctx.count(case, nontrivial=p["kind"] != "none")
                loaded = {}
                for ext in ("yaml", "json"):
                    f = tmp / f"settings.{ext}"
                    f.write_text(yaml.safe_dump(cfg) if ext == "yaml" else json.dumps(cfg))
                    try:
                        loaded[ext] = ("ok", read_config(f))
                    except Exception as ex:
                        loaded[ext] = ("rejected", ex)
                    verdict = loaded[ext][0] == "ok"
                    if verdict != p["valid"]:
                        ctx.violation(f"[{bname}/{ext}] {p['kind']} {'.'.join(path)} {p.get('class', p.get('value', ''))}: "
                                      f"{'accepted' if verdict else 'rejected ' + repr(loaded[ext][1])[:120]}, documented verdict is "
                                      f"{'valid' if p['valid'] else 'invalid'}", {**case, "config": cfg},
                                      {"fn": "read_config", "kind": p["kind"], "path": ".".join(path), "class": p.get("class"), "want_valid": p["valid"]})
                if loaded["yaml"][0] == "ok" and loaded["json"][0] == "ok" and loaded["yaml"][1] != loaded["json"][1]:
                    ctx.violation(f"[{bname}] YAML and JSON spellings load differently", {**case, "config": cfg}, {"fn": "read_config", "clause": "yaml_json"})
        ctx.sample({"perturbation": perts[5]})
    finally:
        shutil.rmtree(tmp, ignore_errors=True)

    # ---- shipped files validate --------------------------------------------------------------------------------
    for f in [Path(cij.data.get_data_fname("default/settings.yaml"))] + [REPO / "examples" / e / "settings.yaml" for e in ("akimotoite", "diopside", "bridgmanite")]:
        ctx.count({"shipped": str(f)})
        try:
            read_config(f)
        except Exception as ex:
            ctx.violation(f"shipped file {f} does not validate: {ex!r}", {"file": str(f)}, {"fn": "read_config", "clause": "shipped"})


def _get(t, path):
    for k in path:
        if not isinstance(t, dict) or k not in t:
            return None
        t = t[k]
    return t
