"""C06 -- (T,V)->(T,P) conversion evaluates each quantity at the volume where P(T,V) = P; overshooting grids are rejected.

Model (spec/V2P.tla): the relations a converted isotherm must satisfy (bracketing, interpolation window, identity for the
pressure field, V(T,P) bracket and monotonicity) and the rejection decision as a state machine enumerated by TLC.
Binding: (T) one record per (quantity, temperature) of real Calculator runs validated by Trace_V2P.tla;
(R) the enumerated rejection decisions replayed on synthetic EoS by scaling the requested grid.
"""
import copy

import numpy

from cv import consts, fillspec
from cv.core import MachineryError
from cv.e2e import Workdir, free_dataset, system_dataset
from cv.synth import run
from cv.tlaparse import printed_values
from cv.tlc import run_tlc, must_ok
from cv.trace import validate_trace

LEVEL = "model_checking"
G = consts.RY_BOHR3_TO_GPA
NAMES = ("bulk_modulus_voigt", "bulk_modulus_reuss", "bulk_modulus_voigt_reuss_hill", "shear_modulus_voigt", "shear_modulus_reuss",
         "shear_modulus_voigt_reuss_hill", "primary_velocities", "secondary_velocities")


def ints(a, scale):
    return [int(x) for x in numpy.rint(numpy.asarray(a, dtype=float) * scale)]


def records_of(calc, tag, settings=None):
    vb, pb = calc.volume_base, calc.pressure_base
    P = numpy.asarray(vb.pressures) * G                # (nt, ntv) GPa
    pj = numpy.asarray(pb.p_array) * G
    ps = 1e4
    out = []
    if settings is not None:
        # the pressure axis of the pressure base IS the requested grid P_MIN + j DELTA_P, j < NTV (what the range check has seen)
        want = float(settings["P_MIN"]) + float(settings["DELTA_P"]) * numpy.arange(int(settings["NTV"]))
        if pj.shape != want.shape or not numpy.allclose(pj, want, rtol=1e-7, atol=1e-7):      # (unit factor literal vs pint: 2e-9)
            out.append({"kind": "grid", "name": "p_array", "tag": tag, "got": [len(pj), float(pj[0]), float(pj[-1])], "want": [len(want), float(want[0]), float(want[-1])]})
            pj = want

    def add(kind, name, F_tv, R_tp):
        F_tv, R_tp = numpy.asarray(F_tv, dtype=float), numpy.asarray(R_tp, dtype=float)
        if F_tv.shape != P.shape or R_tp.shape != (P.shape[0], len(pj)):
            out.append({"kind": "shape", "name": name, "tag": tag, "shape": [list(F_tv.shape), list(R_tp.shape)]})
            return
        m = float(numpy.nanmax(numpy.abs(F_tv))) or 1.0
        fs = ps if kind == "pressures" else 1e7 / m
        for t in range(P.shape[0]):
            if not (numpy.all(numpy.isfinite(F_tv[t])) and numpy.all(numpy.isfinite(R_tp[t]))):
                continue                                 # finiteness is C12's business
            out.append({"kind": kind, "name": name, "tag": tag, "t": t, "Pv": ints(P[t], ps), "Fv": ints(F_tv[t], fs),
                        "Pj": ints(pj, ps), "Rj": ints(R_tp[t], fs)})

    for key in calc.modulus_keys:
        add("field", "c%d%ds" % key.voigt, vb.modulus_adiabatic[key], pb.modulus_adiabatic[key])
        add("field", "c%d%dt" % key.voigt, vb.modulus_isothermal[key], pb.modulus_isothermal[key])
    # the conversion is linear in the converted field: (adiabatic - isothermal) must convert like any other field.  Its own
    # scale makes this sensitive to the two tensors being confused with each other on the pressure base.
    for key in calc.modulus_keys:
        gv = numpy.asarray(vb.modulus_adiabatic[key]) - numpy.asarray(vb.modulus_isothermal[key])
        if key.voigt[0] <= 3 and key.voigt[1] <= 3 and numpy.all(numpy.isfinite(gv)) and float(numpy.max(numpy.abs(gv))) > 0:
            add("field", "gap:c%d%d" % key.voigt, gv, numpy.asarray(pb.modulus_adiabatic[key]) - numpy.asarray(pb.modulus_isothermal[key]))
    # the two ways of reading a pressure-base tensor (by key, and by iterating over items()) give the same arrays
    for nm, view in (("s", pb.modulus_adiabatic), ("t", pb.modulus_isothermal)):
        try:
            viaitems = {k: numpy.asarray(v) for k, v in view.items()}
        except Exception:
            viaitems = None
        if viaitems is not None:
            for key in calc.modulus_keys:
                a, b = numpy.asarray(view[key]), viaitems.get(key)
                # (to rounding: a vectorised items() may associate the arithmetic differently)
                if b is None or b.shape != a.shape or not numpy.allclose(a, b, rtol=1e-11, atol=1e-13 * (float(numpy.nanmax(numpy.abs(a))) if numpy.any(numpy.isfinite(a)) else 1.0), equal_nan=True):
                    out.append({"kind": "items", "name": "c%d%d%s" % (*key.voigt, nm), "tag": tag,
                                "dev": None if b is None or b.shape != a.shape else float(numpy.nanmax(numpy.abs(a - b)) / (numpy.nanmax(numpy.abs(a)) or 1.0))})
                    break
    k0 = calc.modulus_keys[0]
    # attribute-style names: both tensors of one component (adiabatic first for the first key, isothermal first for the second), and the
    # bare name (= adiabatic)
    k1 = calc.modulus_keys[1] if len(calc.modulus_keys) > 1 else k0
    for kk, order in ((k0, ("s", "t", "")), (k1, ("t", "s", ""))):
        for suf in order:
            nm = "c%d%d%s" % (*kk.voigt, suf)
            try:
                add("field", "attr:" + nm, getattr(vb, nm), getattr(pb, nm))
            except AttributeError:
                pass
    for n in NAMES:
        add("field", n, getattr(vb, n), getattr(pb, n))
    add("pressures", "pressures", vb.pressures * G, numpy.asarray(pb.pressures) * G)
    add("volumes", "volumes", numpy.broadcast_to(numpy.asarray(vb.v_array), P.shape), pb.volumes)
    return out


def main(ctx, replay=None):
    rng = numpy.random.default_rng(ctx.seed + 606)
    res = must_ok(run_tlc("V2P", "V2P.cfg", ctx.subdir("tlc"), workers=1, timeout=120))
    ctx.add_tlc(res)
    table = printed_values(res.out, "V2P")
    if len(table) < 100:
        raise MachineryError("decision table too small")
    exports = fillspec.cached_exports(ctx)
    ctx.cov["rule"] = ("(T) one record per (quantity, temperature) of end-to-end runs on synthetic data sets (all moduli S and T, averages, "
                       "velocities, pressures, volumes); (R) rejection decisions enumerated by TLC replayed by scaling the requested grid to "
                       "the same overshoot ratio (no case within 2 % of the edge); distinct by content")
    ctx.assumptions += ["interpolation accuracy allowance = 2 x largest neighbouring second difference of the isotherm (Curv in V2P.tla)",
                        "QHA's P(T,V) is the pressure field (dependency)"]
    wd = Workdir()
    try:
        nruns = 3 if ctx.tier == "quick" else 40
        recs = []
        for n in range(nruns):
            ds = system_dataset(rng, exports, str(rng.choice(fillspec.SYSTEMS)), lattice=bool(n % 2)) if n % 3 == 0 else free_dataset(rng, extra_shear=int(rng.integers(1 if n % 3 == 2 else 0, 6)), lattice=bool(n % 2))
            if n % 3 == 2:
                # one listed component that is tiny without vanishing (1e-5 GPa: a coupling that a lower symmetry barely allows)
                zk = [k for k in ds.keys if k[0] != k[1] and (k[0] > 3 or k[1] > 3)]
                if zk:
                    k = zk[int(rng.integers(0, len(zk)))]
                    ds.polys[k] = tuple(x * 5e-7 for x in ds.polys[k])
            ds.settings.update({"NT": int(rng.integers(3, 7)), "NTV": int(rng.integers(8, 16))})
            if n % 3 == 1:
                ds.settings["NT"] = ds.settings["NTV"] - 4        # QHA's internal temperature grid (NT + 4 rows) as long as the volume grid
            elif n % 3 == 2:
                ds.settings["NT"] = ds.settings["NTV"]            # square (T, V) arrays
            d = wd.sub(f"run{n}")
            lo, hi = ds.fit_pressure_window(d)
            ds2 = None
            if n % 3 == 1:
                # a decimal pressure step that binary floating point cannot represent, with a column count at which a naive
                # arange(P_MIN, P_MIN + NTV * DELTA_P, DELTA_P) comes out one entry too long
                dp = float(rng.choice([0.1, 0.2, 0.3]))
                pm = round(float(ds.settings["P_MIN"]) + 0.3, 1)
                bad_n = [k for k in range(8, 20) if len(numpy.arange(pm, pm + k * dp, dp)) != k]
                if bad_n and pm + 20 * dp < hi:
                    ds.settings.update({"P_MIN": pm, "DELTA_P": dp, "DELTA_P_SAMPLE": dp, "NTV": int(rng.choice(bad_n))})
                    ds.settings["NT"] = ds.settings["NTV"] - 4    # (keeps the coincidence of the two axis lengths)
            if n % 3 == 2:
                # a pressure grid written in whole numbers without decimal point ("P_MIN: 0", "DELTA_P: 2"): the same grid as 0.0 / 2.0
                import math
                pm_i = int(math.ceil(lo + 0.25))
                for dp_i in (2, 1):
                    if pm_i + (int(ds.settings["NTV"]) - 1) * dp_i < hi - 0.25:
                        ds.settings.update({"P_MIN": pm_i, "DELTA_P": dp_i, "DELTA_P_SAMPLE": dp_i})
                        break
            if n % 2 == 0 and n % 3 != 2:
                # a second calculation in the same process on the SAME pressure grid (P_MIN, DELTA_P, NTV) but another material and
                # another volume_ratio: its conversion must use its own P(T,V) field.  The shared grid lies inside both ranges.
                ds2 = copy.deepcopy(ds)
                ds2.amp = ds.amp * 1.25
                ds2.settings = dict(ds.settings, volume_ratio=1.3)
                lo2, hi2 = ds2.fit_pressure_window(wd.sub(f"run{n}b"))
                a, b = max(lo, lo2), min(hi, hi2)
                if b - a > 0.3 * (hi - lo):
                    ntv = int(ds.settings["NTV"])
                    shared = {"P_MIN": round(a + 0.1 * (b - a), 3), "DELTA_P": round(0.8 * (b - a) / (ntv - 1), 4)}
                    shared["DELTA_P_SAMPLE"] = shared["DELTA_P"]
                    ds.settings.update(shared)
                    ds2.settings.update(shared)
                else:
                    ds2 = None
            for tag, dset in ((f"run{n}", ds), (f"run{n}b", ds2)):
                if dset is None:
                    continue
                try:
                    calc = run(dset.write(wd.sub(tag)))
                except Exception as ex:
                    continue                                  # completion is C12/C05's business
                wrote = False
                if n % 2 == 1:
                    # the relation between the two bases also holds after the results have been written out (twice)
                    import os
                    here = os.getcwd()
                    os.chdir(wd.sub(tag + "_out"))
                    try:
                        calc.write_output()
                        calc.write_output()
                        wrote = True
                    except Exception:
                        pass                                  # writing is C15's business
                    finally:
                        os.chdir(here)
                r = records_of(calc, tag, dset.settings)
                ctx.count({"run": tag, "nv": dset.nv, "system": dset.system, "records": len(r), "pgrid": [dset.settings["P_MIN"], dset.settings["DELTA_P"]], "after_write_output": wrote})
                recs += r
        shapes = [r for r in recs if r["kind"] == "shape"]
        for r in shapes[:3]:
            ctx.violation(f"{r['name']}: pressure-base array has shape {r['shape'][1]}, volume-base {r['shape'][0]}", r, {"clause": "shape", "name": r["name"]})
        for r in [r for r in recs if r["kind"] == "items"][:3]:
            ctx.violation(f"{r['name']} ({r['tag']}): the pressure-base tensor read through items() differs from the one read by key "
                          f"(relative deviation {r['dev']})", r, {"clause": "items_vs_key", "name": r["name"].rstrip("0123456789st") or r["name"]})
        for r in [r for r in recs if r["kind"] == "grid"][:3]:
            ctx.violation(f"the pressure axis of the pressure base ({r['tag']}) has {r['got'][0]} points from {r['got'][1]:.6g} to {r['got'][2]:.6g} GPa; requested: "
                          f"{r['want'][0]} points from {r['want'][1]:.6g} to {r['want'][2]:.6g} GPa", r, {"clause": "requested_grid"})
        recs = [r for r in recs if r["kind"] not in ("shape", "items", "grid")]
        if len(recs) < 50:
            raise MachineryError("too few isotherm records")
        ok, consumed, tres = validate_trace(ctx, "Trace_V2P", "Trace_V2P.cfg", recs, name="v2p", timeout=900)
        ctx.sample({k: recs[0][k] for k in ("kind", "name", "Pv", "Fv", "Pj", "Rj")})
        ctx.cov["records"] = len(recs)
        if not ok:
            bad = recs[consumed]
            ctx.violation(f"{bad['name']} at temperature #{bad['t']} ({bad['tag']}): the pressure-base values are not the volume-base values "
                          f"at the volumes where P(T,V) equals the requested pressures (kind={bad['kind']})", {"record": bad},
                          {"clause": "converted", "kind": bad["kind"], "name": bad["name"].rstrip("0123456789st") or bad["name"]})
        if ctx.tier == "thorough" and ok:
            from cv.trace import binding_control
            k = next(i for i, r in enumerate(recs) if r["kind"] == "field" and i > 3)
            binding_control(ctx, "Trace_V2P", "Trace_V2P.cfg", recs, k,
                            lambda r: dict(r, Rj=[3 * max(abs(x) for x in r["Fv"]) + 7] + list(r["Rj"][1:])), "v2p_neg", "converted_value")
        # ---- rejection decisions -------------------------------------------------------------------------
        nrej = 24 if ctx.tier == "quick" else 200
        def _cls(row):
            rv = list(row[1].values()) if isinstance(row[1], dict) else list(row[1])
            D = row[2] + row[3] * (row[4] - 1)
            return "below" if D < min(rv) else "between" if D <= max(rv) else "above"
        shuffled = [table[int(i)] for i in rng.permutation(len(table))]
        picks = []
        for c in ("between", "below", "above"):                   # stratified: the three classes in equal parts
            picks += [r for r in shuffled if _cls(r) == c][:nrej]
        picks = [picks[i] for i in rng.permutation(len(picks))]
        quota = {"below": nrej // 3, "between": nrej - 2 * (nrej // 3), "above": nrej // 3}
        done = 0
        # a data set whose reachable pressure separates by >= 3 % between the coldest and the hottest isotherm
        d = wd.sub("reject")
        for attempt in range(8):
            ds = free_dataset(rng, lattice=False, nat=int(rng.integers(2, 5)), settings={"NT": 10, "DT": 400, "T_MIN": 0})
            ds.gam = ds.gam + 0.6                       # stronger volume dependence of the spectrum -> more thermal pressure
            ds.fit_pressure_window(d, ntv=11)
            probe0 = copy.deepcopy(ds)
            probe0.settings["DELTA_P"] = 1e-4
            probe0.settings["DELTA_P_SAMPLE"] = 1e-4
            try:
                c00 = run(probe0.write(wd.sub("probe0")))
            except Exception:
                continue
            l0 = (numpy.asarray(c00.volume_base.pressures) * G)[:, -1]
            if (l0.max() - l0.min()) >= 0.03 * abs(l0.min()):
                break
        import logging
        logging.getLogger("cij").setLevel(logging.CRITICAL)
        for _, reach, p0, dp, cnt, verdict in picks:
            if done >= nrej:
                break
            rv = list(reach.values()) if isinstance(reach, dict) else list(reach)
            m, M, D = min(rv), max(rv), p0 + dp * (cnt - 1)
            cls = "below" if D < m else "between" if D <= M else "above"
            if D == m or (cls == "between" and m == M) or quota[cls] <= 0:
                continue
            ntv = int(cnt) + 6
            ds.fit_pressure_window(d, ntv=ntv)
            pmin = ds.settings["P_MIN"]
            # probe the pressure reachable at the smallest grid volume at each temperature under exactly these settings
            probe = copy.deepcopy(ds)
            probe.settings["DELTA_P"] = 1e-4
            probe.settings["DELTA_P_SAMPLE"] = 1e-4
            try:
                c0 = run(probe.write(wd.sub("probe")))
            except Exception:
                continue
            last = (numpy.asarray(c0.volume_base.pressures) * G)[:, -1]
            hmin, hmax = float(last.min()), float(last.max())
            if cls == "between" and (hmax - hmin) < 0.02 * abs(hmin):
                continue                      # the temperatures do not separate enough to stay 1 % away from both edges (the probe has identical P(T,V))
            # the probe run has bit-identical P(T,V), so margins of 0.5 % are safe; small overshoots (less than half a pressure step)
            # are part of the quantifier
            near = bool(rng.random() < 0.5)
            target = {"below": hmin * (0.995 if near else 0.95), "between": (hmin + min(0.003 * abs(hmin), 0.25 * (hmax - hmin))) if near else 0.5 * (hmin + hmax), "above": hmax * (1.005 if near else 1.05)}[cls]
            if target <= pmin:
                continue
            ds.settings["DELTA_P"] = (target - pmin) / (ntv - 1)
            # (QHA's sampling step thins out QHA's own tables only: the decision is about the requested grid)
            ds.settings["DELTA_P_SAMPLE"] = ds.settings["DELTA_P"] * int(rng.choice([1, 2, 3]))
            descending = bool(cls == "above" and done % 2 == 1)
            if descending:
                # the same overshooting pressures listed from the top down (P_MIN is then the highest one, the step negative)
                step = ds.settings["DELTA_P"]
                ds.settings.update({"P_MIN": target, "DELTA_P": -step, "DELTA_P_SAMPLE": -step})
            done += 1
            quota[cls] -= 1
            case = {"abstract": [rv, p0, dp, cnt], "class": cls, "verdict": verdict, "listed_descending": descending, "reach_min": hmin, "reach_max": hmax, "P_MIN": pmin,
                    "DELTA_P": ds.settings["DELTA_P"], "NTV": ntv}
            ctx.count(case)
            try:
                run(ds.write(d))
                got = "accept"
            except ValueError:
                got = "reject"
            except Exception as ex:
                got = f"other:{type(ex).__name__}"
            if got != verdict:
                ctx.violation(f"requested pressures up to {target:.3f} GPa; reachable at the smallest volume: {hmin:.3f} (coldest) .. {hmax:.3f} GPa "
                              f"(hottest), class '{cls}': specification says {verdict}, calculation did {got}", case,
                              {"clause": "range_check", "want": verdict, "class": cls})
        ctx.cov["rejection_cases"] = done
        ctx.sample({"rejection_case": picks[0][1:]})
    finally:
        wd.close()
