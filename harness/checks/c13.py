"""C13 -- results do not depend on how the same physical data are presented.

Model (spec/Presentation.tla): presentations (file-order content) versus their order-free denotation; TLC checks that every
sequence of <= 4 re-presentation actions (PermQ, PermM, ScaleW, PermCol, Upper, PermRow, ReorderVol) leaves the denotation
unchanged, and that tempting wrong actions change it.  Binding (R): action sequences simulated by TLC are applied to concrete
synthetic file triples; all results are compared with the baseline presentation; for ReorderVol 'rejected' is also accepted.
"""
import logging
from pathlib import Path

import numpy

from cv import fillspec
from cv.core import MachineryError
from cv.e2e import Workdir, free_dataset, system_dataset
from cv.synth import run
from cv.tlaparse import printed_values
from cv.tlc import run_tlc, must_ok

LEVEL = "model_checking"
TOL_SYNTH = 1e-9         # of the array's scale (observed <= 1e-12: summation order, weight normalisation)
NAMES = ("bulk_modulus_voigt_reuss_hill", "shear_modulus_voigt_reuss_hill", "primary_velocities", "secondary_velocities", "volumes")


def snapshot(calc):
    out = {}
    for k in calc.modulus_keys:
        out["c%d%ds" % k.voigt] = numpy.asarray(calc.modulus_adiabatic[k])
        out["c%d%dt" % k.voigt] = numpy.asarray(calc.modulus_isothermal[k])
    for n in NAMES:
        out["tp:" + n] = numpy.asarray(getattr(calc.pressure_base, n))
    return out


def concretise(ds, hist, rng):
    """abstract action sequence -> concrete presentation dict for this data set (+ whether it reorders the volume blocks)"""
    pres, reorder = {}, False
    for act in hist:
        name = act[0]
        if name == "PermQ":
            if ds.nq >= 3:
                tail = [int(i) + 1 for i in rng.permutation(ds.nq - 1)]
                if tail == list(range(1, ds.nq)):
                    tail = tail[::-1]
                base = pres.get("q_perm") or list(range(ds.nq))
                pres["q_perm"] = [base[0]] + [base[i] for i in tail]
        elif name == "PermM":
            q = min(int(act[1]), ds.nq) - 1
            idx = list(range(3, ds.np)) if q == 0 else list(range(ds.np))
            if len(idx) >= 2:
                sh = [idx[int(i)] for i in rng.permutation(len(idx))]
                if sh == idx:
                    sh = sh[::-1]
                perm = list(range(ds.np))
                for a, b in zip(idx, sh):
                    perm[a] = b
                mp = pres.setdefault("mode_perms", {})
                prev = mp.get(q) or list(range(ds.np))
                mp[q] = [prev[i] for i in perm]
        elif name == "ScaleW":
            # "all positive weight scale factors": of order one, and many orders of magnitude away from it
            # (a factor below 1e-6 is taken as it is: weights of the order of 1e-10 are weights like any other - only their ratios matter)
            pres["w_scale"] = pres.get("w_scale", 1.0) * float(act[1]) * (1.0 if float(act[1]) < 1e-6 else float(rng.choice([0.37, 1.0 / 3.0, 1e-3, 2.7e-6, 4.1e4])))
        elif name == "PermCol":
            n = len(ds.keys)
            p = [int(i) for i in rng.permutation(n)]
            pres["col_perm"] = p if p != list(range(n)) else p[::-1]
        elif name == "Upper":
            pres["upper"] = True
        elif name == "PermRow":
            n = ds.nv_static
            p = [int(i) for i in rng.permutation(n)]
            pres["row_perm"] = p if p != list(range(n)) else p[::-1]
        elif name == "ReorderVol":
            p = list(range(ds.nv))[::-1] if rng.random() < 0.5 else [int(i) for i in rng.permutation(ds.nv)]
            if p == list(range(ds.nv)):
                p = p[::-1]
            pres["vol_perm"] = p
            reorder = True
    return pres, reorder


def shipped(ctx, rng, wd):
    """The shipped examples, re-presented at text level (cv/represent.py: blocks re-ordered verbatim)."""
    import yaml
    from cv.core import REPO
    from cv.represent import represent
    examples = [("akimotoite", "input01", "input02")] + ([("diopside", "input01", "input02")] if ctx.tier == "thorough" else [])
    nrun = 0
    for name, ph, st in examples:
        src = REPO / "examples" / name
        cfg = yaml.safe_load((src / "settings.yaml").read_text())
        cfg["qha"]["settings"].update({"NT": 4, "DT": 400, "DT_SAMPLE": 400, "NTV": 31, "DELTA_P": 1.0, "DELTA_P_SAMPLE": 1.0})
        cfg["output"] = {"pressure_base": ["cij"], "volume_base": ["p"]}

        def run_pres(tag, pres):
            d = wd.sub(f"{name}_{tag}")
            counts, ncol, nrow = represent(src, d, ph, st, pres)
            (d / "settings.yaml").write_text(yaml.safe_dump(cfg))
            return counts, ncol, nrow, d

        (nv, nq, np_, _, _), ncol, nrow, d0 = run_pres("base", {})
        try:
            base = snapshot(run(d0 / "settings.yaml"))
        except Exception as ex:
            ctx.cov.setdefault("baseline_failed", []).append([name, repr(ex)[:200]])
            continue
        nrun += 1

        def perm(n, lo=0):
            p = list(range(lo)) + [int(i) + lo for i in rng.permutation(n - lo)]
            return p if p != list(range(n)) else list(range(lo)) + list(range(lo, n))[::-1]
        cases = [("q+modes+weights", {"q_perm": perm(nq, 1), "mode_perms": {0: list(range(3)) + perm(np_, 3)[3:], 1: perm(np_), nq - 1: perm(np_)},
                                      "w_scale": float(rng.choice([7.3, 1.0 / 3.0, 1.3e-5]))}, False),
                 ("columns+case+rows", {"col_perm": perm(ncol), "upper": True, "row_perm": perm(nrow)}, False),
                 ("volumes reversed", {"vol_perm": list(range(nv))[::-1]}, True)]
        if ctx.tier == "thorough":
            cases += [("volumes shuffled", {"vol_perm": perm(nv)}, True), ("everything", {**cases[0][1], **cases[1][1]}, False)]
        for tag, pres, reorder in cases:
            case = {"example": name, "actions": tag}
            ctx.count(case)
            _, _, _, d = run_pres(tag.replace(" ", "_").replace("+", "_"), pres)
            sig = {"actions": tag, "example": name}
            try:
                snap = snapshot(run(d / "settings.yaml"))
            except Exception as ex:
                if not reorder:
                    ctx.violation(f"examples/{name} re-presented ({tag}) makes the calculation fail: {ex!r}", case, {**sig, "clause": "raises"})
                continue
            for k, a in base.items():
                b = snap.get(k)
                scale = float(numpy.nanmax(numpy.abs(a))) or 1.0
                if b is None or b.shape != a.shape or not numpy.allclose(a, b, rtol=0, atol=1e-7 * scale, equal_nan=True):
                    dev = float(numpy.nanmax(numpy.abs(a - b))) / scale if b is not None and b.shape == a.shape else float("nan")
                    ctx.violation(f"examples/{name} re-presented ({tag}) changes {k} by {dev:.3g} (relative to its scale)", {**case, "quantity": k, "dev": dev},
                                  {**sig, "clause": "differs", "reorder": reorder})
                    break

    return nrun

def optimised_interpreter(ctx, rng, wd, ds):
    """'Either rejected or the same result' does not depend on how the interpreter was started: the volume blocks reversed and shuffled,
    calculated in a child process run with `python -O` (assert statements and __debug__ blocks stripped)."""
    import os
    import subprocess
    import sys
    from cv.core import REPO
    if ds is None:
        return
    prog = ("import sys, numpy, logging\n"
            "sys.path.insert(0, sys.argv[3])\n"
            "logging.getLogger('cij').setLevel(logging.CRITICAL)\n"
            "from cv.synth import run\n"
            "calc = run(sys.argv[1])\n"
            "snap = {}\n"
            "for k in calc.modulus_keys:\n"
            "    snap['c%d%ds' % k.voigt] = numpy.asarray(calc.modulus_adiabatic[k])\n"
            "    snap['c%d%dt' % k.voigt] = numpy.asarray(calc.modulus_isothermal[k])\n"
            "numpy.savez(sys.argv[2], **snap)\n"               # what the volume base delivers is on record before the pressure base is asked
            "for n in ('bulk_modulus_voigt_reuss_hill', 'primary_velocities', 'volumes'):\n"
            "    snap['tp_' + n] = numpy.asarray(getattr(calc.pressure_base, n))\n"
            "numpy.savez(sys.argv[2], **snap)\n")
    env = dict(os.environ, PYTHONPATH=str(REPO) + os.pathsep + os.environ.get("PYTHONPATH", ""), PYTHONWARNINGS="ignore")
    harness = str(Path(__file__).resolve().parents[1])
    nv = ds.nv
    results = {}
    for tag, pres in (("as_listed", None), ("volumes reversed", {"vol_perm": list(range(nv))[::-1]}),
                      ("volumes shuffled", {"vol_perm": [int(i) for i in rng.permutation(nv)]})):
        d = wd.sub("opt_" + tag.replace(" ", "_"))
        sp = ds.write(d, pres=pres)
        out = d / "snap.npz"
        pr = subprocess.run([sys.executable, "-O", "-c", prog, str(sp), str(out), harness], capture_output=True, text=True, timeout=900, env=env)
        ctx.count({"python_O": tag})
        if not out.exists():
            if pres is None:
                ctx.cov["python_O_baseline_failed"] = pr.stderr[-300:]
                return                                  # the baseline presentation itself does not run under -O: nothing to compare (C12's business)
            continue                                    # rejected: allowed for re-ordered volume blocks
        with numpy.load(out) as z:
            results[tag] = {k: z[k] for k in z.files}
    base = results.get("as_listed")
    if base is None:
        return
    for tag, snap in results.items():
        if tag == "as_listed":
            continue
        for k, a in base.items():
            b = snap.get(k)
            if b is None:
                continue                                # (not delivered: the child stopped with an error before it got there)
            scale = float(numpy.nanmax(numpy.abs(a))) or 1.0
            if b.shape != a.shape or not numpy.allclose(a, b, rtol=0, atol=TOL_SYNTH * scale, equal_nan=True):
                dev = float(numpy.nanmax(numpy.abs(a - b))) / scale if b.shape == a.shape else float("nan")
                ctx.violation(f"under `python -O`, the phonon file with its {tag} is accepted and changes {k} by {dev:.3g} (relative to its scale)",
                              {"presentation": tag, "quantity": k, "dev": dev}, {"actions": "ReorderVol", "clause": "differs", "reorder": True, "python_O": True})
                break


def main(ctx, replay=None):
    logging.getLogger("cij").setLevel(logging.CRITICAL)
    rng = numpy.random.default_rng(ctx.seed + 1313)
    res = must_ok(run_tlc("Presentation", "Presentation.cfg", ctx.subdir("tlc"), workers=8, timeout=600))
    ctx.add_tlc(res)
    nb = 40 if ctx.tier == "quick" else 120
    sim = must_ok(run_tlc("Presentation", "Presentation_sim.cfg", ctx.subdir("sim"), workers=1, simulate=f"num={nb}", depth=6,
                          seed=ctx.seed + 13, timeout=300))
    hists = [h[1] for h in printed_values(sim.out, "HIST")]
    seqs = []
    for h in hists:
        for n in range(1, len(h) + 1):
            seqs.append(h[:n])
    seqs = [list(x) for x in {repr(s): s for s in seqs}.values()]
    if len(seqs) < 10:
        raise MachineryError("too few behaviours from the simulator")
    # make sure every action occurs alone
    for single in (["PermQ", [1, 3, 2]], ["PermM", 2, [2, 1, 3]], ["PermM", 1, [1, 3, 2]], ["ScaleW", 2], ["ScaleW", 1e-10], ["PermCol", [2, 1]], ["Upper"], ["PermRow", [2, 1]], ["ReorderVol", [2, 1]]):
        if [single] not in seqs:
            seqs.append([single])
    if ctx.tier == "quick":
        order = [seqs[int(i)] for i in rng.permutation(len(seqs))]
        singles = [s for s in order if len(s) == 1]
        seqs = singles + [s for s in order if len(s) > 1][:30]
    exports = fillspec.cached_exports(ctx)
    ctx.cov["rule"] = ("re-presentation behaviours (1-4 actions) simulated by TLC on Presentation.tla, applied to synthetic data sets (free "
                       "and with a crystal system, with lattice block); a case is (data set, action sequence); non-trivial = sequence changes "
                       "the files; distinct by (data set, sequence)")
    ctx.assumptions += ["modes at the Gamma point are permuted only among the non-acoustic slots", "rtol 1e-7 of the array scale (summation order)"]
    wd = Workdir()
    try:
        # frequencies that are not power laws (so that which volumes an interpolator uses matters), a node-subsampling interpolator at an
        # order with an asymmetric node subset, and a cell whose first two strain fractions are close without being equal
        sets = [free_dataset(rng, extra_shear=3, lattice=True, nq=4, nat=2, freq_curv=0.4),
                system_dataset(rng, exports, "hexagonal", lattice=True, nq=3, nat=2),
                free_dataset(rng, extra_shear=2, lattice=True, nq=2, nat=1, nv=8, freq_curv=0.5, axis_split=3e-4,
                             interpolator=str(rng.choice(["lagrange", "krogh"])), order=3)]
        if ctx.tier == "thorough":
            sets += [free_dataset(rng, extra_shear=8, lattice=False, nq=5, nat=3), system_dataset(rng, exports, "trigonal7", lattice=True, nq=4, nat=1)]
        nbase = 0
        for si, ds in enumerate(sets):
            d = wd.sub(f"base{si}")
            ds.fit_pressure_window(d)
            try:
                base = snapshot(run(ds.write(d)))
            except Exception as ex:
                # a calculation that fails on the baseline presentation is not for this check to judge (C05/C12 do); go on with the
                # other data sets and the shipped example
                ctx.cov.setdefault("baseline_failed", []).append([si, repr(ex)[:200]])
                continue
            nbase += 1
            for qi, hist in enumerate(seqs):
                pres, reorder = concretise(ds, hist, rng)
                names = [a[0] for a in hist]
                case = {"set": si, "actions": names, "pres": {k: v for k, v in pres.items() if k != "mode_perms"}}
                ctx.count({"set": si, "hist": hist}, nontrivial=bool(pres))
                dd = wd.sub(f"s{si}_{qi}")
                sig = {"actions": "+".join(sorted(set(names)))}
                try:
                    snap = snapshot(run(ds.write(dd, pres=pres)))
                except Exception as ex:
                    if reorder:
                        continue                     # rejected with an error: allowed for re-ordered volume blocks
                    ctx.violation(f"re-presentation {names} makes the calculation fail: {ex!r}", case, {**sig, "clause": "raises"})
                    continue
                for k, a in base.items():
                    b = snap.get(k)
                    scale = float(numpy.nanmax(numpy.abs(a))) or 1.0
                    if b is not None and b.shape == a.shape and numpy.any(numpy.isfinite(a)):
                        ctx.cov["max_dev_synthetic"] = max(ctx.cov.get("max_dev_synthetic", 0.0), float(numpy.nanmax(numpy.abs(a - b))) / scale)
                    if b is None or b.shape != a.shape or not numpy.allclose(a, b, rtol=0, atol=TOL_SYNTH * scale, equal_nan=True):
                        dev = float(numpy.nanmax(numpy.abs(a - b))) / scale if b is not None and b.shape == a.shape else float("nan")
                        ctx.violation(f"re-presentation {names} changes {k} by {dev:.3g} (relative to its scale)", {**case, "quantity": k, "dev": dev},
                                      {**sig, "clause": "differs", "reorder": reorder})
                        break
        optimised_interpreter(ctx, rng, wd, sets[0] if sets else None)
        nbase += shipped(ctx, rng, wd)
        if nbase == 0:
            raise MachineryError(f"no data set has a baseline run: {ctx.cov.get('baseline_failed')}")
        ctx.sample({"sequence": seqs[0]})
        ctx.sample({"sequence": seqs[-1]})
    finally:
        wd.close()
