"""X06 (supplementary, not a listed property) -- cij/plot/pvticker.py: pressure ticks on a volume axis.

Model (spec/PVTicker.tla): one tick at every whole multiple of the interval inside [P(vhi), P(vlo)], ends included, the axis limits in
either order, more than 201 ticks or none refused; integer pressures in quarters so that ranges ending exactly on a multiple are in
the domain.  Invariants Inside, Complete, Bounded, RefusedIff over 324 states.
Binding (R): every state replayed through PofVLocator.tick_values (a linear P(V) with dyadic coefficients, so that the boundary
cases are exact in floating point) and PofVFormatter on the tick positions.
"""
import numpy

from cv.core import MachineryError
from cv.tlaparse import printed_values
from cv.tlc import run_tlc, must_ok

LEVEL = "model_checking"
DEN = 4


def label(t):
    """t quarters with t a multiple of 2 -> the decimal string with one decimal ('%.1f' of an exactly representable number)"""
    tenths = t * 10 // DEN
    sign = "-" if tenths < 0 else ""
    return f"{sign}{abs(tenths) // 10}.{abs(tenths) % 10}"


def main(ctx, replay=None):
    import matplotlib
    matplotlib.use("Agg")
    from cij.plot.pvticker import PofVLocator, PofVFormatter
    res = must_ok(run_tlc("PVTicker", "PVTicker.cfg", ctx.subdir("tlc"), workers=1, timeout=900))
    ctx.add_tlc(res)
    table = sorted({tuple(map(lambda x: tuple(x) if isinstance(x, (list, tuple)) else x, r)) for r in printed_values(res.out, "TICK")}, key=repr)
    if len(table) != res.distinct or len(table) < 300:
        raise MachineryError(f"{len(table)} tick cases from {res.distinct} states")
    ctx.cov["exhaustive"] = True
    ctx.cov["rule"] = ("every (P(vhi), P(vlo), interval, orientation of the limits) enumerated by TLC (pressures in quarters, ranges ending on and next "
                       "to multiples of the interval, 200/201/202 ticks) through PofVLocator.tick_values and PofVFormatter; distinct by state; all non-trivial")
    ctx.assumptions += ["supplementary model: not one of the listed properties", "P(V) linear with dyadic coefficients (exact in binary floating point)"]
    for _, pmin, pmax, iv, swapped, out in table:
        vlo, vhi = 100.0, 100.0 + float(pmax - pmin)
        p_of_v = lambda v, pmax=pmax, vlo=vlo: pmax / DEN - (numpy.asarray(v, dtype=float) - vlo) / DEN        # P(vlo) = pmax/4, P(vhi) = pmin/4
        case = {"pmin": pmin / DEN, "pmax": pmax / DEN, "interval": iv / DEN, "limits": "(vhi, vlo)" if swapped else "(vlo, vhi)"}
        ctx.count(case)
        sig = {"interval": iv}
        loc = PofVLocator(p_of_v, p_interval=iv / DEN)
        try:
            vt = numpy.asarray(loc.tick_values(vhi, vlo) if swapped else loc.tick_values(vlo, vhi), dtype=float)
            got = "ticks"
        except RuntimeError as ex:
            got, vt = "refused", None
        except Exception as ex:                                    # noqa: BLE001
            ctx.violation(f"PofVLocator.tick_values raised {ex!r} for {case}", case, {**sig, "clause": "raises"})
            continue
        if out[0] == "refused":
            if got != "refused":
                ctx.violation(f"{case}: {len(vt)} ticks drawn; the specification refuses (none possible, or more than 201)", case, {**sig, "clause": "refusal"})
            continue
        n, first, last = out
        if got == "refused":
            ctx.violation(f"{case}: refused; the specification has {n} ticks from {first / DEN} to {last / DEN}", case, {**sig, "clause": "refusal"})
            continue
        pt = p_of_v(vt)
        want = numpy.arange(first, last + 1, iv) / DEN
        if len(pt) != n or not numpy.allclose(numpy.sort(pt), want, rtol=0, atol=1e-6):
            ctx.violation(f"{case}: ticks at pressures {numpy.round(numpy.sort(pt), 6).tolist()[:6]}.. ({len(pt)}), the specification has {n} from {first / DEN} to {last / DEN} "
                          f"every {iv / DEN}", case, {**sig, "clause": "ticks"})
            continue
        if not (numpy.all(vt >= vlo - 1e-6) and numpy.all(vt <= vhi + 1e-6)):
            ctx.violation(f"{case}: tick positions outside the axis limits", case, {**sig, "clause": "positions"})
            continue
        fmt = PofVFormatter(p_of_v, ndec=1)
        order = numpy.argsort(pt)
        labels = [fmt(vt[i]) for i in order]
        wl = [label(t) for t in range(first, last + 1, iv)]
        norm = lambda s: "0.0" if s == "-0.0" else s
        if [norm(x) for x in labels] != wl:
            k = next(i for i, (a, b) in enumerate(zip(labels, wl)) if norm(a) != b)
            ctx.violation(f"{case}: tick at P = {wl[k]} GPa is labelled {labels[k]!r}", case, {**sig, "clause": "label"})
    ctx.sample({"case": [str(x) for x in table[0][1:]]})
