"""C10 -- Voigt/standard index algebra.

TLC (spec/C10.tla) explores all 351x351 pairs of well-formed spellings and decides the quotient theorems; it exports
the complete oracle table (every spelling incl. out-of-range neighbours -> key or Rejected).  Here:
  R  the table is replayed through cij.util.c_/e_ (views, multiplicity, class, rejection; eq+hash on all pairs);
  T  top-level c_/e_ calls recorded while real library code runs are validated by spec/Trace_Voigt.tla.
"""
import itertools
import json

from cv.core import REPO, MachineryError
from cv.tlc import run_tlc, must_ok
from cv.trace import validate_trace

LEVEL = "model_checking"


def _call_args(row):
    d, kind = row["d"], row["kind"]
    if kind in ("std4", "voigt2", "e_std2", "e_voigt"):
        return tuple(d)
    if kind in ("str", "e_str"):
        return ("".join(str(x) for x in d),)
    if kind in ("int", "e_int"):
        return (int("".join(str(x) for x in d)),)
    raise MachineryError(kind)


def _r(x):
    try:
        return repr(x)
    except Exception as e:          # a malformed key may not even print
        return f"<unprintable {type(x).__name__}: {type(e).__name__}>"


def _try(f, args):
    try:
        return f(*args), None
    except Exception as e:  # "rejected" = any exception
        return None, e


def main(ctx, replay=None):
    import cij.util as U
    from cij.util.voigt import ElasticModulusCalculationType as CT, ModulusRepresentation, StrainRepresentation

    ctx.cov["rule"] = ("complete finite domain enumerated by TLC: 81 tuples x {4-int,str,int}, 36 pairs x {2-int,str,int}, "
                       "strain spellings, out-of-range neighbours (0,4 / 0,7..9) and wrong lengths; a case is one spelling "
                       "(or one ordered pair of accepted spellings for eq/hash); all are non-trivial; distinct by (kind,digits)")
    ctx.assumptions += ["TLC, CommunityModules Json; 'rejected' means any exception"]

    # ---- model level ---------------------------------------------------------------------------
    res = must_ok(run_tlc("C10", "C10.cfg", ctx.subdir("tlc"), workers=16, timeout=600))
    ctx.add_tlc(res)
    if res.distinct != 351 * 351:
        raise MachineryError(f"C10 model explored {res.distinct} states, expected {351*351}")
    table = res.load("c10_table.json")
    ctx.cov["exhaustive"] = True

    # ---- R: replay the oracle table --------------------------------------------------------------
    accepted = []
    for row in table["modulus"]:
        args = _call_args(row)
        case = {"fn": "c_", "kind": row["kind"], "d": row["d"]}
        ctx.count(case)
        got, exc = _try(U.c_, args)
        sig = {"fn": "c_", "kind": row["kind"]}
        if row["rejected"]:
            if exc is None:
                ctx.violation(f"c_{args} accepted as {_r(got)}; the index algebra rejects it", {**case, "got": _r(got)}, sig)
            continue
        if exc is not None:
            ctx.violation(f"c_{args} raised {_r(exc)}; expected key {row['voigt']}", {**case, "exc": _r(exc)}, sig)
            continue
        exp_calc = getattr(CT, row["calc"])
        try:
            obs = {"voigt": list(got.voigt), "v": list(got.v), "standard": list(got.standard), "s": list(got.s),
                   "mult": got.multiplicity, "calc": got.calc_type.name if got.calc_type else None,
                   "long": bool(got.is_longitudinal), "offd": bool(got.is_off_diagonal), "shear": bool(got.is_shear)}
        except Exception as ex:
            ctx.violation(f"c_{args}: reading the views of the accepted key raised {_r(ex)}", case, sig)
            continue
        exp = {"voigt": row["voigt"], "v": row["voigt"], "standard": row["standard"], "s": row["standard"],
               "mult": row["mult"], "calc": exp_calc.name, "long": row["long"], "offd": row["offd"], "shear": row["shear"]}
        if obs != exp:
            bad = sorted(k for k in exp if obs[k] != exp[k])
            ctx.violation(f"c_{args}: {bad} differ: observed { {k: obs[k] for k in bad} } expected { {k: exp[k] for k in bad} }",
                          {**case, "observed": obs, "expected": exp}, {**sig, "fields": bad})
        # the views round-trip through the constructors
        for back in (U.c_(*got.voigt), U.c_(*got.standard)):
            if back != got or hash(back) != hash(got):
                ctx.violation(f"c_{args}: views do not round-trip ({_r(got)} -> {_r(back)})", case, sig)
        accepted.append((tuple(row["voigt"]), got, args))
    ctx.sample({"call": "c_(1,3,2,1)", "expected_voigt": [5, 6]})

    # eq / hash on all ordered pairs of accepted spellings
    npairs = 0
    bad_pairs = 0
    for (ka, a, aa), (kb, b, ab) in itertools.product(accepted, accepted):
        npairs += 1
        same = ka == kb
        eq = (a == b)
        if eq != same or (same and hash(a) != hash(b)):
            bad_pairs += 1
            if bad_pairs <= 5:
                ctx.violation(f"c_{aa} vs c_{ab}: equal={eq}, hash equal={hash(a)==hash(b)}; should be equal={same}",
                              {"a": aa, "b": ab, "eq": eq, "expected_eq": same}, {"fn": "c_", "clause": "eq_hash"})
    ctx.cov["evaluations"] += npairs
    ctx.cov["pairs_compared"] = npairs
    # 'hash equal if and only if related': the 21 canonical keys carry 21 different hashes
    hashes = {}
    for kv, g, _a in accepted:
        hashes.setdefault(kv, hash(g))
    if len(set(hashes.values())) != len(hashes):
        clash = sorted(k for k, h in hashes.items() if list(hashes.values()).count(h) > 1)
        ctx.violation(f"the keys {clash} are unrelated and hash equal ({len(set(hashes.values()))} different hashes for {len(hashes)} keys)", {"keys": [list(k) for k in clash]},
                      {"fn": "c_", "clause": "hash_distinct"})
    # keys usable as dict keys: 21 distinct
    if len({g for _, g, _ in accepted}) != table["nkeys"]:
        ctx.violation(f"accepted spellings hash into {len({g for _, g, _ in accepted})} distinct keys, expected 21", {},
                      {"fn": "c_", "clause": "nkeys"})

    eacc = []
    for row in table["strain"]:
        args = _call_args(row)
        case = {"fn": "e_", "kind": row["kind"], "d": row["d"]}
        ctx.count(case)
        got, exc = _try(U.e_, args)
        sig = {"fn": "e_", "kind": row["kind"]}
        if row["rejected"]:
            if exc is None:
                ctx.violation(f"e_{args} accepted as {_r(got)}; must be rejected", {**case, "got": _r(got)}, sig)
            continue
        if exc is not None:
            ctx.violation(f"e_{args} raised {_r(exc)}; expected Voigt index {row['voigt']}", {**case, "exc": _r(exc)}, sig)
            continue
        try:
            obs = {"voigt": got.voigt, "v": got.v, "standard": list(got.standard), "s": list(got.s)}
        except Exception as ex:
            ctx.violation(f"e_{args}: reading the views of the accepted key raised {_r(ex)}", case, sig)
            continue
        exp = {"voigt": row["voigt"], "v": row["voigt"], "standard": row["standard"], "s": row["standard"]}
        if obs != exp:
            ctx.violation(f"e_{args}: observed {obs} expected {exp}", {**case, "observed": obs, "expected": exp}, sig)
        eacc.append((row["voigt"], got, args))
    for (ka, a, aa), (kb, b, ab) in itertools.product(eacc, eacc):
        ctx.cov["evaluations"] += 1
        if (a == b) != (ka == kb) or (ka == kb and hash(a) != hash(b)):
            ctx.violation(f"e_{aa} vs e_{ab}: equality/hash wrong", {"a": aa, "b": ab}, {"fn": "e_", "clause": "eq_hash"})
    ctx.sample({"call": "e_(3,2)", "expected_voigt": 4})

    # ---- the rejections do not depend on what was spelled before: the whole rejection table once more, now that every accepted spelling of
    # every key has been used in this process
    for fn_name, fn, rows in (("c_", U.c_, table["modulus"]), ("e_", U.e_, table["strain"])):
        nbad = 0
        for row in rows:
            if not row["rejected"]:
                continue
            args = _call_args(row)
            ctx.count({"fn": fn_name, "kind": row["kind"], "d": row["d"], "after": "all accepted spellings"})
            got, exc = _try(fn, args)
            if exc is None:
                nbad += 1
                if nbad <= 3:
                    ctx.violation(f"{fn_name}{args} is accepted as {_r(got)} once the accepted spellings have been used in the same process; the index "
                                  f"algebra rejects it", {"fn": fn_name, "kind": row["kind"], "d": row["d"], "got": _r(got)},
                                  {"fn": fn_name, "kind": row["kind"], "clause": "rejected_after_history"})

    # ---- the rejections do not depend on the interpreter's optimisation flag (python -O strips assert / __debug__ blocks) ------
    import os
    import subprocess
    import sys
    import tempfile
    rej = [{"fn": fn, "args": list(_call_args(row))} for fn, rows in (("c_", table["modulus"]), ("e_", table["strain"])) for row in rows if row["rejected"]]
    with tempfile.NamedTemporaryFile("w", suffix=".json", prefix="cijverif.c10.", delete=False) as fp:
        json.dump(rej, fp)
    prog = ("import json,sys\nimport cij.util as U\nbad=[]\n"
            "for r in json.load(open(sys.argv[1])):\n"
            "    try:\n        getattr(U, r['fn'])(*r['args']); bad.append(r)\n    except Exception: pass\n"
            "print(json.dumps(bad))\n")
    env = dict(os.environ, PYTHONPATH=str(REPO) + os.pathsep + os.environ.get("PYTHONPATH", ""))
    try:
        pr = subprocess.run([sys.executable, "-O", "-c", prog, fp.name], capture_output=True, text=True, timeout=600, env=env)
    finally:
        os.unlink(fp.name)
    if pr.returncode != 0:
        raise MachineryError(f"python -O replay of the rejection table failed: {pr.stderr[-400:]}")
    accepted_O = json.loads(pr.stdout.strip().splitlines()[-1])
    ctx.cov["evaluations"] += len(rej)
    ctx.cov["rejections_replayed_under_python_O"] = len(rej)
    for r in accepted_O[:5]:
        ctx.violation(f"{r['fn']}{tuple(r['args'])} is accepted under `python -O`; the index algebra rejects it", r, {"fn": r["fn"], "clause": "rejected_under_O"})

    # ---- string spellings as the package's own consumers meet them: column labels of a static table and attribute names ----------
    # (every accepted string spelling of the oracle table - two-index and four-index - behind the prefixes the readers accept)
    consumers(ctx, [r for r in table["modulus"] if r["kind"] == "str" and not r["rejected"]])

    # ---- T: record real-code calls and validate against the spec -----------------------------------
    records = _record_calls()
    ok, consumed, tres = validate_trace(ctx, "Trace_Voigt", "Trace_Voigt.cfg", records, name="voigt")
    for r in records[:2]:
        ctx.sample({"trace_record": r})
    for r in records:
        ctx.count({"trace": [r["kind"], r["d"]]})
    if not ok:
        bad = records[consumed]
        ctx.violation(f"recorded call #{consumed} {bad} is not a Spell step of the specification",
                      {"record": bad, "index": consumed}, {"fn": "trace", "kind": bad["kind"]})
    ctx.cov["trace_records"] = len(records)
    if getattr(_record_calls, "short", False):
        ctx.cov["recorder_note"] = "fewer top-level constructor calls recorded than expected (calls answered without the wrapped constructors)"

    # the repository's own tests as drivers (thorough): every top-level c_ call they make is validated as well
    if ctx.tier == "thorough":
        from cv.repotests import run_tests
        mods = ["test_cij_util_voigt.py", "test_cij_io_traditional.py", "test_cij_util_fill.py", "test_cij_cli_fill.py"]
        rec2 = _record_calls(lambda: run_tests(ctx.subdir("repotests"), mods), minimum=20)
        ok3, consumed3, _ = validate_trace(ctx, "Trace_Voigt", "Trace_Voigt.cfg", rec2, name="voigt_repo_tests")
        ctx.cov["repo_tests"] = {"modules": mods, "distinct_calls": len(rec2)}
        for r in rec2:
            ctx.count({"trace": [r["kind"], r["d"]], "from": "repo tests"})
        if not ok3:
            bad = rec2[consumed3]
            ctx.violation(f"c_ call #{consumed3} {bad} made while the repository's tests ran is not a Spell step of the specification",
                          {"record": bad, "index": consumed3}, {"fn": "trace", "kind": bad["kind"]})
    # negative control of the binding (thorough only): corrupt one record, expect rejection
    if ctx.tier == "thorough" and records:
        cor = [dict(r) for r in records]
        k = next(i for i, r in enumerate(cor) if not r["rej"])
        cor[k]["v"] = [cor[k]["v"][0], 7 - cor[k]["v"][1] if cor[k]["v"][1] != 7 - cor[k]["v"][1] else 1]
        sub = ctx.cov["traces_validated_against_impl"]
        ok2, _, _ = validate_trace(ctx, "Trace_Voigt", "Trace_Voigt.cfg", cor, name="voigt_corrupt")
        ctx.cov["traces_validated_against_impl"] = sub
        ctx.cov["controls"]["corrupted_trace_rejected"] = (not ok2)
        if ok2:
            raise MachineryError("corrupted Voigt trace was accepted: the trace spec does not bind")


def consumers(ctx, rows):
    """The static-table reader and the attribute look-up of the result interfaces spell components as strings (prefix + digits); the
    key they arrive at must be the oracle's key for those digits: 'string ... two-index and four-index spellings ... agree'."""
    import re
    import tempfile
    from pathlib import Path
    from cij.io.traditional import read_elast_data
    try:
        from cij.core.calculator import REGEX_CIJ
    except ImportError:                       # a module constant may be renamed: the attribute half is then skipped (and says so)
        REGEX_CIJ = None
        ctx.cov["attribute_names_skipped"] = True
    import cij.util as U
    prefixes = ["c", "C", "c_", "Cij", "S", "cij_"]
    tmp = Path(tempfile.mkdtemp(prefix="cijverif.c10."))
    try:
        for chunk in range(0, len(rows), 9):
            part = rows[chunk:chunk + 9]
            # one table per chunk; the labels of one table must name distinct components, so a chunk keeps one spelling per class
            seen, use = set(), []
            for r in part:
                if tuple(r["voigt"]) not in seen:
                    seen.add(tuple(r["voigt"]))
                    use.append(r)
            labels = [prefixes[(chunk + i) % len(prefixes)] + "".join(str(x) for x in r["d"]) for i, r in enumerate(use)]
            f = tmp / f"t{chunk}.dat"
            f.write_text("labels\n100.0 2 50.0\nV " + " ".join(labels) + "\n" +
                         "90.0 " + " ".join(str(10 + i) for i in range(len(use))) + "\n80.0 " + " ".join(str(30 + i) for i in range(len(use))) + "\n")
            for r, lab in zip(use, labels):
                ctx.count({"consumer": "static_table_label", "label": lab})
            try:
                data = read_elast_data(str(f))
            except Exception as ex:
                ctx.violation(f"read_elast_data rejects the column labels {labels}: {_r(ex)}", {"labels": labels}, {"fn": "consumer", "clause": "label_rejected"})
                continue
            got = data.volumes[0].static_elastic_modulus
            for i, (r, lab) in enumerate(zip(use, labels)):
                key = U.c_(*r["voigt"])
                if key not in got or got[key] != 10 + i:
                    where = [list(k.voigt) for k, v in got.items() if v == 10 + i]
                    ctx.violation(f"static-table column '{lab}' is read as component {where}, the index algebra gives {r['voigt']}",
                                  {"label": lab, "read_as": where, "expected": r["voigt"]}, {"fn": "consumer", "clause": "label_key"})
        for i, r in enumerate(rows if REGEX_CIJ else []):
            digits = "".join(str(x) for x in r["d"])
            name = ("c" if i % 2 else "c_") + digits + ("", "s", "t")[i % 3]
            ctx.count({"consumer": "attribute_name", "name": name})
            m = re.search(REGEX_CIJ, name)
            if not m:
                ctx.violation(f"attribute name '{name}' is not recognised as a component", {"name": name}, {"fn": "consumer", "clause": "attr_rejected"})
                continue
            grp = [g for g in m.groups() if g and g.isdigit()]
            got, exc = _try(U.c_, (grp[0],)) if grp else (None, "no digits")
            if exc is not None or list(got.voigt) != r["voigt"]:
                ctx.violation(f"attribute name '{name}' resolves to {_r(got) if exc is None else _r(exc)}, the index algebra gives {r['voigt']}",
                              {"name": name}, {"fn": "consumer", "clause": "attr_key"})
    finally:
        import shutil
        shutil.rmtree(tmp, ignore_errors=True)


def _classify(args):
    if all(type(a) is int for a in args):
        if len(args) == 1:
            if args[0] < 0:
                return None
            return "int", [int(c) for c in str(args[0])]
        return {4: "std4", 2: "voigt2"}.get(len(args), "std4" if len(args) > 2 else None), list(args)
    if len(args) == 1 and type(args[0]) is str and args[0].isdigit():
        return "str", [int(c) for c in args[0]]
    return None


def _record_calls(workload=None, minimum=50):
    """Wrap the public constructors (harness side), run real library code (or `workload`), return NDJSON-able records."""
    import numpy
    import cij.util.voigt as V
    from cij.core.phonon_contribution.shear import ShearElasticModulusPhononContribution
    from cij.io.traditional import read_elast_data

    records, depth = [], [0]
    # both public constructors are wrapped, `create` and its short form `_` (what `c_` is): the outermost call is the one recorded, so a
    # short form that answers from a table of keys built earlier is recorded like one that calls `create` every time
    orig = V.ModulusRepresentation.__dict__["create"].__func__
    orig_short = V.ModulusRepresentation.__dict__["_"].__func__

    def wrap(inner):
        def recorded(cls, *args):
            depth[0] += 1
            try:
                out = inner(cls, *args)
            except Exception:
                depth[0] -= 1
                if depth[0] == 0:
                    c = _classify(args)
                    if c and c[0]:
                        records.append({"kind": c[0], "d": c[1], "rej": True, "v": []})
                raise
            depth[0] -= 1
            if depth[0] == 0:
                c = _classify(args)
                if c and c[0]:
                    records.append({"kind": c[0], "d": c[1], "rej": False, "v": list(out.voigt)})
            return out
        return recorded

    V.ModulusRepresentation.create = classmethod(wrap(orig))
    V.ModulusRepresentation._ = classmethod(wrap(orig_short))
    try:
        if workload is not None:
            workload()
        for ex in (("akimotoite/input02", "bridgmanite/elast.dat", "diopside/input02") if workload is None else ()):
            read_elast_data(str(REPO / "examples" / ex))
        strain = numpy.array([[0.2, 0.3, 0.5]])
        for I in range(1, 7):
            for J in range(I, 7):
                if I >= 4 or J >= 4:
                    try:
                        s = ShearElasticModulusPhononContribution(strain, V.C_.create(I, J))
                        s.get_modulus_keys()
                        s.get_modulus_keys_rotated()
                    except Exception:
                        pass  # a failing solver is C03's business; the calls made so far are still recorded
        import re
        from cij.core.calculator import REGEX_CIJ
        for name in ("c11s", "c_1123t", "s44", "c66", "c_12", "c1313"):
            m = re.search(REGEX_CIJ, name)
            if m:
                V.C_._(m.group(2))
        for bad in ("17", "1014", 70, (0, 1), (4, 1, 1, 1)):
            try:
                V.C_._(*bad) if isinstance(bad, tuple) else V.C_._(bad)
            except Exception:
                pass
    finally:
        V.ModulusRepresentation.create = classmethod(orig)
        V.ModulusRepresentation._ = classmethod(orig_short)
    if len(records) < minimum:
        # (the package may answer repeated spellings without going through the wrapped constructors; what was recorded is validated, and the
        #  exhaustive replay above does not depend on the recorder)
        _record_calls.short = True
    # de-duplicate consecutive repeats but keep order
    out, seen = [], set()
    for r in records:
        k = json.dumps(r, sort_keys=True)
        if k not in seen:
            seen.add(k)
            out.append(r)
    return out
