"""C14 -- deterministic and isolated: hash seed, working directory, process history.

Model (spec/Lifecycle.tla): processes with an environment, a shared module state and calculators; every observation is a
function of the calculator's configuration alone; frame conditions SharedFrozen / CalcsStable; all histories <= 6 actions.
Binding: (R) histories simulated by TLC are executed, each in ONE fresh interpreter process with the history's PYTHONHASHSEED
and working directory; (T) the logged digests (SHA-256 of array bytes / file bytes, shared-state digest, untouched digests of
the other calculators) are validated by Trace_Lifecycle.tla against the digests of a single fresh reference run.
"""
import concurrent.futures
import json
import os
import subprocess
import sys
from pathlib import Path

import numpy

from cv import fillspec
from cv.core import MachineryError, VERIF
from cv.e2e import Workdir, free_dataset, system_dataset
from cv.tlaparse import printed_values
from cv.tlc import run_tlc, must_ok
from cv.trace import validate_trace

LEVEL = "model_checking"
QUANT = ["modulus_adiabatic", "modulus_isothermal", "tp_modulus_adiabatic", "tp_modulus_isothermal", "tp_bulk_vrh", "tp_vp", "tp_volumes", "compliances", "tp_attr_adiabatic", "tp_attr_isothermal"]
WRITES = [("tp", "cij"), ("tp", "bm_VRH"), ("tv", "p")]


def run_worker(job, wd, name, seed, cwd_kind, cwd_path=None):
    jd = wd.sub(name)
    cw = Path(cwd_path) if cwd_path else jd / "cwd"
    cw.mkdir(exist_ok=True)
    entries = []
    if cwd_kind == "junk":
        (cw / "notes.txt").write_text("unrelated\n")
        (cw / "some_dir").mkdir(exist_ok=True)
    elif cwd_kind == "dir_named_like_system":
        for s in set(v for v in job["systems"].values() if v):
            (cw / s).mkdir(exist_ok=True)
            entries.append(s)
    # every process works on its own copy of the data directories (histories may rewrite the files at a path)
    import shutil
    private, originals = {}, {}
    for c, sp in job["datasets"].items():
        src = Path(sp).parent
        for kind, table in (("data", private), ("orig", originals)):
            # (a variant "A2" is another settings file next to A's: it lives in A's directory and reads the SAME input files)
            dst = jd / f"{kind}{c[:-1] if c.endswith('2') else c}"
            if not dst.exists():
                shutil.copytree(src, dst)
            table[c] = str(dst / Path(sp).name) if kind == "data" else str(dst)
    files = {}
    if cwd_kind == "shadow_data":
        # entries named like the package's own data files (writer rules, default settings, schema; bare names and relative paths), with
        # other content: unrelated to the calculation, which reads its packaged copies.  (Relation files are left out: a FILE named like
        # a crystal system in the working directory is, by C09's statement, a relations file the user supplies.)
        from cv.core import REPO
        for f in sorted((REPO / "cij" / "data").rglob("*")):
            rel = f.relative_to(REPO / "cij" / "data")
            if f.is_file() and rel.parts[0] != "constraints" and f.suffix in (".yml", ".yaml", ".json"):
                junk = "[]\n" if f.suffix != ".json" else "{}\n"
                files[f.name] = junk
                files[str(rel)] = junk
                files[str(Path("data") / rel)] = junk
        # ... and entries named like the calculation's own input files (taken relative to the SETTINGS file, not to the working
        # directory), holding another data set
        other = Path(job["datasets"]["B"]).parent
        for f in sorted(other.iterdir()):
            if f.is_file():
                files[f.name] = f.read_text()
        for name, content in files.items():
            (cw / name).parent.mkdir(parents=True, exist_ok=True)
            (cw / name).write_text(content)
    job = dict(job, cwd_files=files, datasets=private, originals=originals, out=str(jd / "events.ndjson"), cwd_kind=cwd_kind, cwd_entries=entries)
    (jd / "job.json").write_text(json.dumps(job))
    env = dict(os.environ)
    if seed == "random":
        env["PYTHONHASHSEED"] = "random"
    else:
        env["PYTHONHASHSEED"] = str(seed)
    env["PYTHONWARNINGS"] = "ignore"
    p = subprocess.run([sys.executable, str(VERIF / "harness" / "cv" / "life_worker.py"), str(jd / "job.json")], cwd=str(cw), env=env,
                       capture_output=True, text=True, timeout=900)
    ev = [json.loads(l) for l in (jd / "events.ndjson").read_text().splitlines()] if (jd / "events.ndjson").exists() else []
    return ev, p.returncode, p.stderr[-600:]


def main(ctx, replay=None):
    rng = numpy.random.default_rng(ctx.seed + 1414)
    res = must_ok(run_tlc("Lifecycle", "Lifecycle.cfg", ctx.subdir("tlc"), workers=16, timeout=600))
    ctx.add_tlc(res)
    nb = 7 if ctx.tier == "quick" else 120
    sim = must_ok(run_tlc("Lifecycle", "Lifecycle_sim.cfg", ctx.subdir("sim"), workers=1, simulate=f"num={nb * 3}", depth=8, seed=ctx.seed + 14, timeout=300))
    raw = printed_values(sim.out, "LIFE")
    behaviours = []
    for _, env, hist in raw:
        acts = [list(a) for a in hist]
        if sum(1 for a in acts if a[0] == "Construct") >= 1 and len(acts) >= 4:
            behaviours.append((env, acts))
    behaviours = list({json.dumps(b, sort_keys=True): b for b in behaviours}.values())[:nb]
    if len(behaviours) < 3:
        raise MachineryError("too few life-cycle behaviours from the simulator")
    # one behaviour with the command line in every tier
    behaviours.append(({"seed": "1", "cwd": "dir_named_like_system"}, [["CliRun", "A"], ["CliRun", "A"]]))
    # results written several times, and by two calculators of one process in turn
    behaviours.append(({"seed": "1", "cwd": "junk"}, [["Construct", 1, "A"], ["WriteOutput", 1], ["WriteOutput", 1], ["Read", 1, "tp_vp"], ["WriteOutput", 1]]))
    behaviours.append(({"seed": "2", "cwd": "empty"}, [["Construct", 1, "A"], ["Construct", 2, "C"], ["WriteOutput", 1], ["WriteOutput", 2], ["Write", 1, "tp", "cij"],
                                                      ["Write", 2, "tp", "cij"], ["Write", 2, "tv", "p"], ["Write", 1, "tv", "p"]]))
    # the pressure-base tensors in the other order than the reference run reads them
    behaviours.append(({"seed": "1", "cwd": "empty"}, [["Construct", 1, "A"], ["Read", 1, "tp_modulus_isothermal"], ["Read", 1, "tp_modulus_adiabatic"],
                                                      ["Read", 1, "tp_modulus_isothermal"], ["WriteOutput", 1], ["WriteOutput", 1]]))
    # ... and their attribute-style names (c11t before c11s; the reference reads the adiabatic one first)
    behaviours.append(({"seed": "2", "cwd": "empty"}, [["Construct", 1, "A"], ["Read", 1, "tp_attr_isothermal"], ["Read", 1, "tp_attr_adiabatic"],
                                                      ["Read", 1, "tp_attr_isothermal"], ["Read", 1, "tp_modulus_adiabatic"]]))
    behaviours.append(({"seed": "0", "cwd": "shadow_data"}, [["Construct", 1, "A"], ["Write", 1, "tp", "cij"], ["WriteOutput", 1], ["CliRun", "A"]]))
    # the files at a path are replaced between two calculations: the second one is the calculation of the NEW content
    behaviours.append(({"seed": "2", "cwd": "junk"}, [["Construct", 1, "A"], ["Read", 1, "modulus_adiabatic"], ["Rewrite", "A", "C"], ["Construct", 2, "A"],
                                                     ["Read", 2, "modulus_adiabatic"], ["Read", 1, "modulus_isothermal"], ["WriteOutput", 2]]))
    behaviours.append(({"seed": "random", "cwd": "junk"}, [["CliRun", "A"]]))
    # two DIFFERENT calculations interleaved in one process, both orders (simulated histories may lack this by chance)
    behaviours.append(({"seed": "2", "cwd": "empty"}, [["Construct", 1, "A"], ["Construct", 2, "B"], ["Read", 2, "modulus_adiabatic"], ["Read", 1, "modulus_isothermal"],
                                                      ["Read", 2, "tp_bulk_vrh"], ["WriteOutput", 2], ["Read", 1, "tp_vp"]]))
    behaviours.append(({"seed": "1", "cwd": "empty"}, [["Construct", 1, "A"], ["Read", 1, "modulus_adiabatic"], ["Construct", 2, "C"], ["Read", 2, "modulus_adiabatic"],
                                                      ["Read", 2, "modulus_isothermal"], ["Read", 1, "tp_bulk_vrh"], ["WriteOutput", 2]]))
    behaviours.append(({"seed": "0", "cwd": "junk"}, [["Construct", 2, "B"], ["Read", 2, "tp_vp"], ["Construct", 1, "A"], ["Refill", 1], ["Read", 1, "modulus_adiabatic"],
                                                     ["Write", 1, "tp", "cij"], ["Read", 2, "modulus_isothermal"], ["Read", 1, "modulus_adiabatic"]]))
    # the fill command under every hash seed (its filling adds several columns to A's table)
    for sd in ("1", "2", "random"):
        behaviours.append(({"seed": sd, "cwd": "empty" if sd != "2" else "junk"}, [["CliFill", "A"], ["CliFill", "C"], ["CliFill", "A"]]))
    # the same files under two settings in one process, both orders, and with the files replaced in between
    behaviours.append(({"seed": "1", "cwd": "empty"}, [["Construct", 1, "A"], ["Read", 1, "modulus_adiabatic"], ["Construct", 2, "A2"], ["Read", 2, "modulus_adiabatic"],
                                                      ["Read", 2, "tp_modulus_isothermal"], ["WriteOutput", 2], ["WriteOutput", 1]]))
    behaviours.append(({"seed": "2", "cwd": "junk"}, [["Construct", 1, "C2"], ["WriteOutput", 1], ["Construct", 2, "C"], ["WriteOutput", 2], ["Read", 2, "tp_vp"],
                                                     ["Read", 1, "tp_vp"]]))
    behaviours.append(({"seed": "0", "cwd": "empty"}, [["Construct", 1, "A2"], ["Read", 1, "modulus_isothermal"], ["Rewrite", "A", "C"], ["Construct", 2, "A"],
                                                      ["Read", 2, "modulus_isothermal"], ["WriteOutput", 2]]))
    exports = fillspec.cached_exports(ctx)
    ctx.cov["rule"] = ("process histories (<= 6 actions on up to two calculators of two configurations) simulated by TLC, each executed in a "
                       "fresh interpreter process under its hash seed and working directory; plus `cij run` under different seeds and "
                       "directories; a case is (environment, history); distinct by content; all non-trivial")
    ctx.assumptions += ["byte identity is compared through SHA-256 digests", "shared module state = writer rules + unit registry names"]
    wd = Workdir()
    try:
        # (A supplies a sufficient PROPER subset of the hexagonal components: the filling adds several columns)
        dsA = system_dataset(rng, exports, "hexagonal", lattice=True, nq=3, nat=2, minimal=True)
        dsB = free_dataset(rng, extra_shear=4, lattice=False, nq=2, nat=1)
        import copy
        dsC = copy.deepcopy(dsA)                       # same shapes as A (NT, NTV, nq, np, keys), different temperatures and spectrum
        dsC.amp = dsC.amp * 1.03
        dsC.settings = dict(dsC.settings, DT=float(dsC.settings["DT"]) * 0.5, DT_SAMPLE=float(dsC.settings["DT"]) * 0.5)
        datasets, systems = {}, {"A": "hexagonal", "B": None, "C": "hexagonal"}
        # (output sections may hold dictionaries - keyword with a unit or file name - next to plain keywords)
        dsA.output = {"pressure_base": ["cij", {"keyword": "bm_VRH", "fname": "bulk_hill.dat"}, "G_VRH", "v", {"keyword": "vs", "unit": "m/s"}, "vp"],
                      "volume_base": ["p", {"keyword": "cij_t", "unit": "kbar"}, {"keyword": "bm_VRH", "fname": "bulk_hill.dat"}]}
        # (the last entry names the file the pressure base has already written: the bases are written in the documented order, pressure
        #  base first, so what the file holds in the end does not depend on anything else - the hash seed, say)
        dsC.output = dsA.output
        for c, ds in (("A", dsA), ("B", dsB), ("C", dsC)):
            d = wd.sub(f"data{c}")
            ds.fit_pressure_window(d)
            datasets[c] = str(ds.write(d))
            if c in ("A", "C"):
                # the variant: the same files calculated under other settings (same grids sizes, interpolation and order; another
                # volume_ratio, i.e. another volume grid of the same length) - a second settings file in the same directory
                import yaml
                alt = yaml.safe_load(Path(datasets[c]).read_text())
                alt["qha"]["settings"]["volume_ratio"] = 1.3 if float(alt["qha"]["settings"].get("volume_ratio", 1.2)) < 1.25 else 1.15
                (d / "settings_alt.yaml").write_text(yaml.safe_dump(alt))
                datasets[c + "2"] = str(d / "settings_alt.yaml")
                systems[c + "2"] = systems[c]
        base_job = {"datasets": datasets, "systems": systems}
        # ---- reference run: one fresh process, seed 0, empty directory ---------------------------------------
        # (one fresh process PER configuration: a reference must not itself have a history)
        ref_ev = []
        for c in ("A", "B", "C", "A2", "C2"):
            ra = [["Construct", 1, c], ["Read", 1, "static_table"]] + [["Read", 1, q] for q in QUANT] + [["Write", 1, b, k] for b, k in WRITES] \
                + [["WriteOutput", 1]] + ([["CliRun", c], ["CliFill", c]] if c in ("A", "C") else [])
            ev, rc, err = run_worker(dict(base_job, actions=ra, mode="ref"), wd, f"ref{c}", 0, "empty")
            if rc != 0 or len(ev) < 10:
                # does the same history succeed when started inside the data directory?  Then the calculation depends on the working directory.
                ev2, rc2, _ = run_worker(dict(base_job, actions=ra[:3], mode="ref"), wd, f"ref{c}_in", 0, "datadir", cwd_path=Path(datasets[c]).parent)
                if rc2 == 0 and len(ev2) >= 2:
                    ctx.count({"env": {"seed": "0", "cwd": "empty"}, "history": ra[:3]})
                    ctx.violation(f"the calculation of configuration {c} fails when the process is started in an unrelated (empty) working directory "
                                  f"but succeeds when started inside the data directory: {err.strip().splitlines()[-1] if err.strip() else rc}",
                                  {"config": c, "stderr": err}, {"clause": "cwd_dependence", "config": c})
                    return
                raise MachineryError(f"reference process for {c} failed (rc={rc}; inside the data directory rc={rc2}, {len(ev2)} events): {err}")
            ref_ev += ev
        trace = list(ref_ev)
        meta = []

        def one(arg):
            n, (env, acts) = arg
            return n, env, acts, run_worker(dict(base_job, actions=acts, mode="run"), wd, f"b{n}", env["seed"], env["cwd"])

        with concurrent.futures.ThreadPoolExecutor(8) as ex:
            results = list(ex.map(one, enumerate(behaviours)))
        for n, env, acts, (ev, rc, err) in results:
            case = {"env": env, "history": acts}
            ctx.count(case)
            if rc != 0:
                ctx.violation(f"process with history {acts} under {env} failed: {err[-300:]}", case, {"clause": "process_failed", "cwd": env["cwd"]})
                continue
            meta.append((len(trace), len(trace) + len(ev), case))
            trace += ev
        ctx.sample({"env": behaviours[0][0], "history": behaviours[0][1]})
        ok, consumed, tres = validate_trace(ctx, "Trace_Lifecycle", "Trace_Lifecycle.cfg", trace, name="life", timeout=600)
        if not ok:
            bad = trace[consumed]
            case = next((c for a, b, c in meta if a <= consumed < b), {})
            if str(bad.get("wd", "start")) != "start":
                what = f"after {bad.get('ev')} ({bad.get('q', bad.get('cfg', ''))}) the process is in another working directory ({bad['wd'][:80]})"
            else:
                what = (f"observation {bad.get('q', bad.get('ev'))} of calculator {bad.get('id')} differs from the fresh reference run "
                        f"(or the shared module state changed)")
            ctx.violation(f"{what} in the process with history {case.get('history')} under {case.get('env')}",
                          {"event": bad, **case}, {"clause": "trace", "q": str(bad.get("q", "")).split(":")[0], "ev": bad.get("ev")})
        if ctx.tier == "thorough" and ok:
            from cv.trace import binding_control
            k = next(i for i, e in enumerate(trace) if e.get("ev") == "Observe")
            binding_control(ctx, "Trace_Lifecycle", "Trace_Lifecycle.cfg", trace, k, lambda e: dict(e, digest="0" * 20), "life_neg", "digest", timeout=600)
        ctx.cov["processes"] = len(results) + 1
    finally:
        wd.close()
