"""C15 -- output files carry the in-memory results on the requested grids, units and names.

Model (spec/Writer.tla, C15.tla): the frozen documented rule table as a state machine over (keyword, base); TLC checks that
every keyword has one rule, rules never collide on a file name, S/T families select different tensors, and exports the
expectation table.  Binding (R): ResultsWriter(base).write(kw) and Calculator.write_output() in temporary directories; files
re-read with an independent parser; names, labels and values compared with the in-memory arrays times the unit factor.
"""
import os
import tempfile
from contextlib import contextmanager
from pathlib import Path

import numpy

from cv import consts, fillspec
from cv.core import MachineryError, REPO
from cv.e2e import Workdir, free_dataset, system_dataset
from cv.synth import run
from cv.tlc import run_tlc, must_ok

LEVEL = "model_checking"
FACT = {("Ry/bohr3", "GPa"): consts.ry_bohr3_to_gpa(), ("km/s", "km/s"): 1.0, ("bohr3", "ang3"): consts.bohr3_to_ang3()}


@contextmanager
def cwd(p):
    old = os.getcwd()
    os.chdir(p)
    try:
        yield
    finally:
        os.chdir(old)


def quantum(tok: str) -> float:
    """Half a unit of the last printed digit of a numeric token ('1.2500E+02' -> 0.5e-2 * 1e2, '312.5' -> 0.05, 'nan' -> 0)."""
    t = tok.strip().lower().lstrip("+-")
    if not t or t[0] not in "0123456789.":
        return 0.0
    mant, _, ex = t.partition("e")
    e = int(ex) if ex else 0
    dec = len(mant.partition(".")[2])
    return 0.5 * 10.0 ** (e - dec)


def values_and_quanta(path):
    """the table's values with, for every entry, half a unit of its last printed digit (the 'printed precision')"""
    lines = [l for l in Path(path).read_text().splitlines() if l.strip()]
    q = [[quantum(x) for x in l.split()[1:]] for l in lines[1:]]
    return numpy.array(q)


def agrees_to_printed_precision(path, vv, want):
    """|printed - in-memory| <= half a unit of the last printed digit (+ 4 ulp of the value), entry by entry; NaN matches NaN"""
    q = values_and_quanta(path)
    if q.shape != vv.shape or vv.shape != want.shape:
        return False
    both_nan = numpy.isnan(vv) & numpy.isnan(want)
    with numpy.errstate(all="ignore"):
        ok = numpy.abs(vv - want) <= q * (1.0 + 1e-9) + 4.0 * numpy.finfo(float).eps * numpy.abs(want)
    return bool(numpy.all(ok | both_nan))


def parse_table(path):
    """independent whitespace parser of the QHA table format: header line 'name col col ...', then 'row val val ...'"""
    lines = [l for l in Path(path).read_text().splitlines() if l.strip()]
    head = lines[0].split()
    cols = [float(x) for x in head[1:]]
    rows, vals = [], []
    for l in lines[1:]:
        f = l.split()
        rows.append(float(f[0]))
        vals.append([float(x) for x in f[1:]])
    return numpy.array(rows), numpy.array(cols), numpy.array(vals)


def parse_or_flag(ctx, path, clause):
    """parse_table, or a violation (never a crash) when the file is not a table of numbers"""
    try:
        return parse_table(path)
    except Exception:
        ctx.violation(f"{Path(path).name} is not a table of numbers: {Path(path).read_text()[:80]!r}", {"file": Path(path).name}, {"clause": clause})
        return None


def main(ctx, replay=None):
    from cij.io.output import ResultsWriter
    rng = numpy.random.default_rng(ctx.seed + 1515)
    res = must_ok(run_tlc("C15", "C15.cfg", ctx.subdir("tlc"), workers=4, timeout=120))
    ctx.add_tlc(res)
    rows = res.load("c15_table.json")["rows"]
    if len(rows) != 70:
        raise MachineryError("expected 35 keywords x 2 bases")
    exports = fillspec.cached_exports(ctx)
    ctx.cov["rule"] = ("every keyword and alias x both bases x data sets with different grids (integer and half-integer DT, T_MIN > 0, "
                       "P_MIN != 0) and component sets; a case is (data set, keyword, base); plus file-name and unit overrides and "
                       "write_output(); all non-trivial")
    ctx.assumptions += ["the rule table of Writer.tla is the documented one as of the pinned commit", "files print 15 significant digits (rtol 1e-12)"]
    wd = Workdir()
    try:
        nsets = 3 if ctx.tier == "quick" else 21
        for n in range(nsets):
            settings = {"NT": int(rng.integers(3, 7)), "DT": float(rng.choice([100, 62.5, 250])), "T_MIN": float(rng.choice([0, 150, 300])),
                        "NTV": int(rng.integers(7, 12))}
            # QHA's own sampling steps (multiples of the grid steps) must not thin out cij's tables: all NT rows, all NTV columns
            settings["DT_SAMPLE"] = settings["DT"] * int(rng.choice([1, 2, 3]))
            if n % 4 == 1:
                settings["NT"] = settings["NTV"]                  # square tables: a transposed table has the right shape
            elif n % 4 == 3:
                settings["NT"] = settings["NTV"] - 4              # (QHA's internal temperature grid has four extra rows)
            ds = free_dataset(rng, extra_shear=int(rng.integers(1, 5)), settings=settings) if n % 2 == 0 else \
                system_dataset(rng, exports, str(rng.choice(fillspec.SYSTEMS[1:])), settings=settings)
            if n % 2 == 0:
                # one listed component that is tiny without vanishing (1e-5 GPa): it has its files like every other
                zk = [k for k in ds.keys if k[0] != k[1] and (k[0] > 3 or k[1] > 3)]
                if zk:
                    k = zk[int(rng.integers(0, len(zk)))]
                    ds.polys[k] = tuple(x * 5e-7 for x in ds.polys[k])
            d = wd.sub(f"set{n}")
            ds.fit_pressure_window(d)
            if n % 3 == 2:
                # a decimal pressure step that binary floating point cannot represent, with column counts at which a naive
                # arange(P_MIN, P_MIN + NTV * DELTA_P, DELTA_P) comes out one entry too long
                ds.settings.update({"DELTA_P": 0.1, "NTV": int(rng.choice([6, 7, 12, 14])), "P_MIN": round(float(ds.settings["P_MIN"]) + 0.3, 1)})
            ds.settings["DELTA_P_SAMPLE"] = ds.settings["DELTA_P"] * int(rng.choice([1, 2, 3]))
            try:
                calc = run(ds.write(d))
            except Exception:
                continue
            if n % 2 == 1:
                # other commands of the package run in the same process before anything is written (a notebook, a test session): what
                # `cij fill` prints is no business of the tables written afterwards
                try:
                    from click.testing import CliRunner
                    from cij.cli.fill import main as fill_main
                    CliRunner().invoke(fill_main, [str(d / "elast.dat"), "-s", ds.system or "triclinic"])
                except Exception:
                    pass
            st = ds.settings
            exp_rows = st["T_MIN"] + st["DT"] * numpy.arange(st["NT"])
            exp_cols = {"tp": st["P_MIN"] + st["DELTA_P"] * numpy.arange(st["NTV"]),
                        "tv": numpy.asarray(calc.v_array) * FACT[("bohr3", "ang3")]}
            bases = {"tp": calc.pressure_base, "tv": calc.volume_base}
            per_rule = {}
            # which tensor a keyword selects is decided against calculations of the same files that have read NOTHING else before: one reads
            # only the isothermal tensors, the other only the adiabatic ones (the object that writes has by then served every other keyword)
            fresh = {}
            for prop in ("modulus_isothermal", "modulus_adiabatic"):
                try:
                    c2 = run(d / "settings.yaml")
                    fresh[prop] = {bname: {k: numpy.array(getattr(bb, prop)[k], dtype=float) for k in c2.modulus_keys}
                                   for bname, bb in (("tp", c2.pressure_base), ("tv", c2.volume_base))}
                except Exception:
                    fresh[prop] = None
            for r in rows:
                b = bases[r["base"]]
                case = {"set": n, "kw": r["kw"], "base": r["base"]}
                sig = {"kw_rule": r["rule"], "base": r["base"]}
                if not r["available"]:
                    continue
                ctx.count(case)
                out = Path(tempfile.mkdtemp(dir=wd.path))
                with cwd(out):
                    try:
                        ResultsWriter(b).write(r["kw"])
                    except Exception as ex:
                        ctx.violation(f"write('{r['kw']}') on base {r['base']} raised {ex!r}", case, {**sig, "clause": "raises"})
                        continue
                files = sorted(p.name for p in out.iterdir())
                src = getattr(b, r["prop"])
                if r["kind"] == "ij":
                    expect = {r["pat"].format(ij="%d%d" % k.voigt, base=r["base"]): numpy.asarray(src[k]) for k in calc.modulus_keys}
                else:
                    expect = {r["pat"].format(base=r["base"]): numpy.asarray(src)}
                if files != sorted(expect):
                    ctx.violation(f"write('{r['kw']}') on base {r['base']} created {files[:4]}.. expected {sorted(expect)[:4]}..", {**case, "files": files},
                                  {**sig, "clause": "names"})
                    continue
                content = {}
                for fn, arr in expect.items():
                    try:
                        rr, cc, vv = parse_table(out / fn)
                    except Exception as ex:
                        ctx.violation(f"{fn} (keyword '{r['kw']}') is not a table of numbers: {(out / fn).read_text()[:80]!r}", {**case, "file": fn},
                                      {**sig, "clause": "content"})
                        break
                    content[fn] = (out / fn).read_bytes()
                    want = arr[:-4, :] * FACT[(r["ufrom"], r["uto"])]
                    bad = None
                    if len(rr) != len(exp_rows) or not numpy.allclose(rr, exp_rows, rtol=1e-9, atol=1e-9):
                        bad = f"row labels {rr.tolist()} expected {exp_rows.tolist()}"
                    elif len(cc) != len(exp_cols[r["base"]]) or not numpy.allclose(cc, exp_cols[r["base"]], rtol=2e-9 if r["base"] == "tv" else 1e-9, atol=1e-6 if r["base"] == "tv" else 1e-9):      # (volume labels are printed with six decimals)
                        bad = f"column labels {cc.tolist()[:4]}.. expected {exp_cols[r['base']].tolist()[:4]}.."
                    elif vv.shape == want.shape and numpy.any(numpy.isfinite(want) & (want != 0)):
                        with numpy.errstate(all="ignore"):
                            rel = numpy.abs(vv - want) / numpy.abs(want)
                        ctx.cov["max_rel_dev_file"] = max(ctx.cov.get("max_rel_dev_file", 0.0), float(numpy.nanmax(numpy.where(numpy.isfinite(rel), rel, 0.0))))
                    if bad is None and not agrees_to_printed_precision(out / fn, vv, want):
                        i = numpy.unravel_index(numpy.nanargmax(numpy.abs(vv - want) / (numpy.abs(want) + 1e-300)), want.shape) if vv.shape == want.shape else (0, 0)
                        bad = f"value[{i}] = {vv[i] if vv.shape == want.shape else vv.shape} expected {want[i] if vv.shape == want.shape else want.shape} ({r['uto']})"
                    if bad:
                        ctx.violation(f"{fn} (keyword '{r['kw']}'): {bad}", {**case, "file": fn}, {**sig, "clause": "content"})
                        break
                    if r["kind"] == "ij" and fresh.get(r["prop"]):
                        k = next(kk for kk in calc.modulus_keys if r["pat"].format(ij="%d%d" % kk.voigt, base=r["base"]) == fn)
                        ref = fresh[r["prop"]][r["base"]].get(k)
                        if ref is not None and ref.shape == arr.shape and not agrees_to_printed_precision(out / fn, vv, ref[:-4, :] * FACT[(r["ufrom"], r["uto"])]):
                            ctx.violation(f"{fn} (keyword '{r['kw']}') does not hold the {r['prop'].split('_')[1]} tensor of these files as a calculation that has read "
                                          f"nothing else reports it", {**case, "file": fn}, {**sig, "clause": "selects_tensor"})
                            break
                per_rule.setdefault((r["rule"], r["base"]), []).append((r["kw"], content))
                # writing the same keyword again into the same directory replaces the files: same names, same bytes
                if content and len(content) == len(expect):
                    with cwd(out):
                        try:
                            ResultsWriter(b).write(r["kw"])
                        except Exception as ex:
                            ctx.violation(f"second write('{r['kw']}') on base {r['base']} raised {ex!r}", case, {**sig, "clause": "raises"})
                            continue
                    again = {p.name: p.read_bytes() for p in out.iterdir()}
                    if again != content:
                        ctx.violation(f"writing '{r['kw']}' (base {r['base']}) a second time into the same directory changes the files "
                                      f"({sorted(set(again) ^ set(content)) or 'content differs'})", case, {**sig, "clause": "rewrite"})
            # aliases of one rule produce identical content
            for (rule, base), lst in per_rule.items():
                for kw, content in lst[1:]:
                    if content != lst[0][1]:
                        ctx.violation(f"aliases '{lst[0][0]}' and '{kw}' of one rule write different content on base {base}", {"rule": rule},
                                      {"kw_rule": rule, "base": base, "clause": "alias"})
            overrides(ctx, calc, wd, ds)
            repeated_entries(ctx, calc, wd)
            write_output(ctx, calc, wd, exp_rows)
            ctx.sample({"settings": st, "keys": ["%d%d" % k.voigt for k in calc.modulus_keys]}, limit=2)
    finally:
        wd.close()


def overrides(ctx, calc, wd, ds):
    from cij.io.output import ResultsWriter
    out = Path(tempfile.mkdtemp(dir=wd.path))
    with cwd(out):
        try:
            ResultsWriter(calc.pressure_base).write({"keyword": "bm_V", "fname": "my_bulk.dat"})
            ResultsWriter(calc.pressure_base).write({"keyword": "bm_R", "fname": "K_{base}_{run-1}.dat"})       # a name is a name, braces and all
            ResultsWriter(calc.pressure_base).write({"keyword": "G_V", "unit": "kbar"})
            ResultsWriter(calc.volume_base).write({"keyword": "cij_t", "unit": "kbar"})
            ResultsWriter(calc.pressure_base).write({"keyword": "vp", "unit": "m/s", "fname": "vp_m_per_s.dat"})
            ResultsWriter(calc.volume_base).write({"keyword": "secondary_velocities", "unit": "m/s", "fname": "vs_m_per_s.dat"})
            ResultsWriter(calc.pressure_base).write({"keyword": "v", "unit": "bohr ** 3", "fname": "v_bohr3.dat"})
        except Exception as ex:
            ctx.violation(f"override raised {ex!r}", {}, {"clause": "override_raises"})
            return
    if not (out / "K_{base}_{run-1}.dat").exists():
        ctx.violation(f"file-name override 'K_{{base}}_{{run-1}}.dat' wrote {sorted(p.name for p in out.iterdir() if p.name.startswith('K_'))} instead of a file of that name",
                      {}, {"clause": "override_fname"})
    for fn, arr, fac, what in (("vp_m_per_s.dat", calc.pressure_base.primary_velocities, 1000.0, "vp in m/s"),
                               ("vs_m_per_s.dat", calc.volume_base.secondary_velocities, 1000.0, "vs in m/s"),
                               ("v_bohr3.dat", calc.pressure_base.volumes, 1.0, "volumes in bohr^3")):
        if not (out / fn).exists():
            ctx.violation(f"unit + file-name override ({what}) wrote no file {fn}", {}, {"clause": "override_fname"})
            continue
        pt = parse_or_flag(ctx, out / fn, "override_unit")
        if pt is None:
            continue
        vx = pt[2]
        if not agrees_to_printed_precision(out / fn, vx, numpy.asarray(arr)[:-4] * fac):
            ctx.violation(f"unit override not honoured: {fn} does not hold {what}", {}, {"clause": "override_unit"})
        (out / fn).unlink()
    ctx.count({"override": "fname+unit"})
    files = sorted(p.name for p in out.iterdir() if not p.name.startswith("c"))
    k0 = calc.modulus_keys[0]
    fij = out / ("c%d%dt_tv_gpa.txt" % k0.voigt)
    if not fij.exists():
        ctx.violation("unit override on an ij keyword did not write the component files", {}, {"clause": "override_unit_ij"})
    else:
        try:
            _, _, v3 = parse_table(fij)
        except Exception:
            ctx.violation(f"{fij.name} written with a unit override is not a table of numbers", {}, {"clause": "override_unit_ij"})
            return
        if not agrees_to_printed_precision(fij, v3, numpy.asarray(calc.volume_base.modulus_isothermal[k0])[:-4] * FACT[("Ry/bohr3", "GPa")] * 10.0):
            ctx.violation("unit override 'kbar' not honoured for the per-component keyword cij_t", {}, {"clause": "override_unit_ij"})
    if [f for f in files if f != "K_{base}_{run-1}.dat"] != ["G_V_tp_gpa.txt", "my_bulk.dat"]:
        ctx.violation(f"file-name override not honoured: files {files}", {"files": files}, {"clause": "override_fname"})
        return
    pt = parse_or_flag(ctx, out / "my_bulk.dat", "override_fname_content")
    if pt is None:
        return
    v1 = pt[2]
    if not agrees_to_printed_precision(out / "my_bulk.dat", v1, numpy.asarray(calc.pressure_base.bulk_modulus_voigt)[:-4] * FACT[("Ry/bohr3", "GPa")]):
        ctx.violation("my_bulk.dat does not contain the Voigt bulk modulus in GPa", {}, {"clause": "override_fname_content"})
    pt = parse_or_flag(ctx, out / "G_V_tp_gpa.txt", "override_unit")
    if pt is None:
        return
    v2 = pt[2]
    if not agrees_to_printed_precision(out / "G_V_tp_gpa.txt", v2, numpy.asarray(calc.pressure_base.shear_modulus_voigt)[:-4] * FACT[("Ry/bohr3", "GPa")] * 10.0):
        ctx.violation("unit override 'kbar' not honoured for G_V", {}, {"clause": "override_unit"})


def repeated_entries(ctx, calc, wd):
    """An output list may name one variable several times (aliases, another file name or unit): every entry is written."""
    import copy
    from cij.io.output import ResultsWriter
    out = Path(tempfile.mkdtemp(dir=wd.path))
    ctx.count({"repeated_entries": 1})
    with cwd(out):
        try:
            w = ResultsWriter(calc.pressure_base)
            w.write("bm_V")
            w.write({"keyword": "bulk_modulus_voigt", "fname": "bulk_kbar.dat", "unit": "kbar"})
            w.write("V")
            w.write({"keyword": "v", "fname": "volumes_again.dat"})
        except Exception as ex:
            ctx.violation(f"a writer asked for the same variable twice raised {ex!r}", {}, {"clause": "repeat_raises"})
            return
    files = sorted(p.name for p in out.iterdir())
    if files != ["bm_V_tp_gpa.txt", "bulk_kbar.dat", "v_tp_ang3.txt", "volumes_again.dat"]:
        ctx.violation(f"one writer, entries [bm_V, bulk_modulus_voigt->bulk_kbar.dat, V, v->volumes_again.dat]: files {files}", {"files": files}, {"clause": "repeat_files"})
        return
    pa, pb = parse_or_flag(ctx, out / "bm_V_tp_gpa.txt", "repeat_content"), parse_or_flag(ctx, out / "bulk_kbar.dat", "repeat_content")
    if pa is None or pb is None:
        return
    a, b = pa[2], pb[2]
    if not agrees_to_printed_precision(out / "bulk_kbar.dat", b, numpy.asarray(calc.pressure_base.bulk_modulus_voigt)[:-4] * FACT[("Ry/bohr3", "GPa")] * 10.0):
        ctx.violation("the second entry of the same variable (unit kbar) does not carry the converted values", {}, {"clause": "repeat_content"})
    if (out / "v_tp_ang3.txt").read_bytes() != (out / "volumes_again.dat").read_bytes():
        ctx.violation("aliases V and v written by one writer differ in content", {}, {"clause": "repeat_content"})
    # the same through the output section of the configuration
    saved = copy.deepcopy(calc.config["output"])
    out2 = Path(tempfile.mkdtemp(dir=wd.path))
    try:
        calc.config["output"] = {"pressure_base": ["G_V", {"keyword": "shear_modulus_voigt", "fname": "shear_again.dat"}], "volume_base": ["p", "P"]}
        with cwd(out2):
            calc.write_output()
        files2 = sorted(p.name for p in out2.iterdir())
        if files2 != ["G_V_tp_gpa.txt", "p_tv_gpa.txt", "shear_again.dat"]:
            ctx.violation(f"write_output with repeated variables in the output lists created {files2}", {"files": files2}, {"clause": "repeat_files"})
    except Exception as ex:
        ctx.violation(f"write_output with repeated variables raised {ex!r}", {}, {"clause": "repeat_raises"})
    finally:
        calc.config["output"] = saved
    # a writer built with rules of its own keeps them, whatever other writers (with the packaged rules) are built and used in between
    out4 = Path(tempfile.mkdtemp(dir=wd.path))
    own = [{"keywords": ["bm_V", "my_bulk"], "fname_pattern": "kv_{base}_kbar.txt", "prop": "bulk_modulus_voigt", "unit": "kbar",
            "unit_internal": "rydberg / bohr ^ 3", "var_type": "value", "description": "Voigt bulk modulus in kbar"}]
    ctx.count({"writer_with_own_rules": True})
    try:
        with cwd(out4):
            w_own = ResultsWriter(calc.pressure_base, rules=own)
            w_own.write("bm_V")
            first = (out4 / "kv_tp_kbar.txt").read_bytes() if (out4 / "kv_tp_kbar.txt").exists() else None
            calc.write_output()
            ResultsWriter(calc.volume_base).write("bm_V")
            if (out4 / "kv_tp_kbar.txt").exists():
                (out4 / "kv_tp_kbar.txt").unlink()
            w_own.write("bm_V")
            again = (out4 / "kv_tp_kbar.txt").read_bytes() if (out4 / "kv_tp_kbar.txt").exists() else None
        if first is None:
            ctx.violation("a writer built with rules of its own does not write under its own file-name pattern", {}, {"clause": "own_rules"})
        elif again != first:
            ctx.violation("a writer built with rules of its own writes another file (or other numbers) after writers with the packaged rules were used: "
                          f"{sorted(p.name for p in out4.iterdir() if p.name.startswith(('kv', 'bm_V')))}", {}, {"clause": "own_rules"})
    except Exception as ex:
        ctx.violation(f"a writer built with rules of its own raised {ex!r}", {}, {"clause": "own_rules"})
    # one list of entries (dictionary entries without a file name among them) for BOTH bases - what a YAML anchor shared by
    # output.pressure_base and output.volume_base gives: each base writes its own files under the documented names
    out3 = Path(tempfile.mkdtemp(dir=wd.path))
    shared = ["cij", {"keyword": "bm_VRH"}, {"keyword": "vs", "unit": "km/s"}, "G_V"]
    ctx.count({"shared_output_list": [str(x) for x in shared]})
    try:
        calc.config["output"] = {"pressure_base": shared, "volume_base": shared}
        with cwd(out3):
            calc.write_output()
        files3 = {p.name for p in out3.iterdir()}
        want3 = {f"{stem}_{b}_{suf}" for b in ("tp", "tv") for stem, suf in (("bm_VRH", "gpa.txt"), ("v_s", "km_s.txt"), ("G_V", "gpa.txt"))}
        missing = sorted(want3 - files3)
        if missing:
            ctx.violation(f"write_output with one list of entries shared by both bases did not write {missing}", {"files": sorted(files3)}, {"clause": "shared_list_files"})
        else:
            for stem, attr in (("bm_VRH", "bulk_modulus_voigt_reuss_hill"), ("G_V", "shear_modulus_voigt")):
                for b, base in (("tp", calc.pressure_base), ("tv", calc.volume_base)):
                    pr = parse_or_flag(ctx, out3 / f"{stem}_{b}_gpa.txt", "shared_list_content")
                    if pr is None:
                        continue
                    want = numpy.asarray(getattr(base, attr))[:-4] * FACT[("Ry/bohr3", "GPa")]
                    if pr[2].shape != want.shape or not agrees_to_printed_precision(out3 / f"{stem}_{b}_gpa.txt", pr[2], want):
                        ctx.violation(f"write_output with one list of entries shared by both bases: {stem}_{b}_gpa.txt does not hold the {b} table of {attr}",
                                      {}, {"clause": "shared_list_content"})
    except Exception as ex:
        ctx.violation(f"write_output with one list of entries shared by both bases raised {ex!r}", {}, {"clause": "repeat_raises"})
    finally:
        calc.config["output"] = saved


def write_output(ctx, calc, wd, exp_rows):
    out = Path(tempfile.mkdtemp(dir=wd.path))
    with cwd(out):
        try:
            calc.write_output()
        except Exception as ex:
            ctx.violation(f"write_output raised {ex!r}", {}, {"clause": "write_output_raises"})
            return
    ctx.count({"write_output": sorted(calc.config["output"])})
    files = {p.name for p in out.iterdir()}
    first = {p.name: p.read_bytes() for p in out.iterdir()}
    with cwd(out):
        try:
            calc.write_output()                           # a second call writes the same files again
        except Exception as ex:
            ctx.violation(f"second write_output raised {ex!r}", {}, {"clause": "write_output_raises"})
            return
    out3 = Path(tempfile.mkdtemp(dir=wd.path))
    with cwd(out3):
        try:
            calc.write_output()                           # ... and a third one, into an empty directory, all of them
        except Exception as ex:
            ctx.violation(f"third write_output raised {ex!r}", {}, {"clause": "write_output_raises"})
            return
    again, third = {p.name: p.read_bytes() for p in out.iterdir()}, {p.name: p.read_bytes() for p in out3.iterdir()}
    if again != first or third != first:
        ctx.violation(f"repeated write_output: second call {sorted(set(again) ^ set(first)) or ('same names' if again == first else 'content differs')}, "
                      f"third call into an empty directory wrote {len(third)} of {len(first)} files", {}, {"clause": "write_output_repeat"})
    want = {"c%d%ds_tp_gpa.txt" % k.voigt for k in calc.modulus_keys} | {"bm_VRH_tp_gpa.txt", "G_VRH_tp_gpa.txt", "v_tp_ang3.txt",
            "v_s_tp_km_s.txt", "v_p_tp_km_s.txt", "p_tv_gpa.txt"}
    if files != want:
        ctx.violation(f"write_output created {sorted(files ^ want)} unexpectedly / not", {"files": sorted(files)}, {"clause": "write_output_names"})
