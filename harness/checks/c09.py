"""C09 -- fill refuses exactly when under-determined or inconsistent; never distorts accepted data.

Model (spec/C09.tla on FillData generated from the C08.tla export + the relation files of /repo): the lattice of supplied
subsets is explored state by state; `det` is decided by exact integer elimination in two formulations that must agree
(invariant Agree), monotone along Supply.  TLC exports the refusal decision table.  Binding (R): the dumped states are
replayed through fill_cij and `cij fill` under flag and environment variants.
"""
import io
import os
import shutil
import tempfile
from contextlib import contextmanager
from fractions import Fraction
from pathlib import Path

import numpy

from cv import fillspec
from cv.core import MachineryError, REPO
from cv.relparse import SYMS, parse_file

LEVEL = "model_checking"
RES_ATOL = 0.1


@contextmanager
def cwd(path):
    old = os.getcwd()
    os.chdir(path)
    try:
        yield
    finally:
        os.chdir(old)


def call_fill(df, system, **kw):
    from cij.util.fill import fill_cij
    try:
        return "accept", fill_cij(df, system, **kw)
    except BaseException as ex:          # Warning is raised as an exception
        return "raise", ex


def main(ctx, replay=None):
    import pandas
    rng = numpy.random.default_rng(ctx.seed + 909)
    ctx.cov["rule"] = ("states of the supplied-subset lattice (TLC dump) x value class (consistent / grossly inconsistent by 50 GPa) x "
                       "ignore flags x environment (column order, case, int columns, extra columns, cwd entry named like the system, "
                       "relations file path); a case is the tuple; non-trivial = not (fully supplied, consistent, default flags)")
    ctx.assumptions += ["inconsistencies between 0 and the tolerance, (under-determined, inconsistent, ignore_rank) and the empty table are not generated",
                        "'raises' = any exception"]
    results, exports = fillspec.run_c08(ctx)
    bad = [s for s, r in results.items() if not r.ok]
    if bad:
        # the relations themselves are wrong (C08's finding); C09's oracle (the invariant subspace) is undefined for them
        raise MachineryError(f"relations of {bad} do not pass C08; C09 cannot be decided on this tree")
    lres, table = fillspec.run_lattice(ctx, exports, agree=True)
    if not lres.ok:
        raise MachineryError(f"C09 lattice model failed:\n{lres.error}")
    if lres.distinct < 40000:
        raise MachineryError(f"lattice explored only {lres.distinct} states")
    outcome = {(r["det"], r["gross"], r["ignore_rank"], r["ignore_residuals"]): r["outcome"] for r in lres.load("c09_outcome.json")["table"]}
    by = {}
    for s, S, det in table:
        by.setdefault((s, det), []).append(S)
    for k in by:                                          # (TLC's dump order depends on its worker threads: the sample must not)
        by[k].sort(key=lambda S: (len(S), tuple(sorted(S))))
    n_each = 6 if ctx.tier == "quick" else 120
    tmp = Path(tempfile.mkdtemp(prefix="cijverif.c09."))
    try:
        for s in fillspec.SYSTEMS:
            e = exports[s]
            tensors = [[Fraction(x[0], x[1]) for x in t] for t in e["tensors"]]
            nonvan = set(range(1, 22)) - set(e["vanishing"])
            relrows = parse_file(fillspec.CONSTRAINTS / s)
            for det in (True, False):
                cand = by.get((s, det), [])
                if not cand:
                    continue
                picks = [cand[int(i)] for i in rng.permutation(len(cand))[:n_each]]
                if det:
                    picks.append(min(cand, key=len))
                else:
                    picks.append(max(cand, key=len))           # just one component short
                for S in picks:
                    if not S:
                        continue         # a table without any modulus column is not a static table: outside the property's domain
                    run_case(ctx, rng, pandas, s, S, det, tensors, nonvan, e, relrows, outcome, tmp)
        ctx.sample({"outcome_table_rows": 16, "lattice_states": len(table)})
        clause_cases(ctx, rng, pandas, exports, by, outcome)
        settings_cases(ctx, rng, exports, by, outcome)
        label_cases(ctx, rng, pandas, exports, by)
        full_table_cases(ctx, rng, pandas, exports)
        cli_cases(ctx, rng, exports, by, tmp)
    finally:
        shutil.rmtree(tmp, ignore_errors=True)


def build_table(pandas, rng, S, rows, extra_bad=None, upper=False, ints=False, extras=False):
    cols = {}
    if extras:
        cols["V"] = [100.0 - 3 * i for i in range(len(rows))]
    for n in sorted(S):
        name = SYMS[n - 1].upper() if upper else SYMS[n - 1]
        cols[name] = [float(r[n - 1]) for r in rows]
    if extra_bad is not None:
        n, delta = extra_bad
        name = SYMS[n - 1].upper() if upper else SYMS[n - 1]
        cols[name] = [float(r[n - 1]) + delta for r in rows]
    if extras:
        cols["note"] = [7.5 + i for i in range(len(rows))]
    df = pandas.DataFrame(cols)
    if ints:
        for c in df.columns:
            if c not in ("V", "note") and numpy.all(df[c] == numpy.round(df[c])):
                df[c] = df[c].astype("int64")
    order = list(rng.permutation(list(df.columns)))
    return df[order]


def run_case(ctx, rng, pandas, s, S, det, tensors, nonvan, e, relrows, outcome, tmp):
    env = str(rng.choice(["plain", "upper", "ints", "mixed_ints", "extras", "cwd_dir", "relfile", "relfile_dot", "row_labels"]))
    nrows = 3 if env == "row_labels" else int(rng.integers(1, 4))
    rows = [tensors[r] for r in rng.permutation(3)[:nrows]]
    gross = bool(det and rng.random() < 0.4 and len(set(range(1, 22)) - set(S)) > 0)
    extra_bad = None
    if gross:
        t = int(rng.choice(sorted(set(range(1, 22)) - set(S))))
        extra_bad = (t, 50.0)
    ign_rank, ign_res = bool(rng.random() < 0.35), bool(rng.random() < 0.35)
    if not det and gross:
        return
    first_int = None
    if env == "mixed_ints":
        # the FIRST modulus column is integer-typed, the others are floats with fractions: every row is rescaled so that one supplied
        # component becomes a whole number (the relations are linear and homogeneous, so each row stays an invariant tensor)
        cands = [n for n in sorted(S) if all(r[n - 1] != 0 for r in rows)]
        if cands:
            first_int = int(rng.choice(cands))
            ms = [Fraction(int(rng.integers(3, 40)), 1) for _ in rows]
            rows = [[x * m / r[first_int - 1] for x in r] for r, m in zip(rows, ms)]
        else:
            env = "plain"
    # (a FILE named like the system in the working directory is not generated: the statement makes a path to a relations
    #  file take precedence, so such a file would legitimately be read as the relations)
    df = build_table(pandas, rng, S, rows, extra_bad, upper=(env == "upper"), ints=(env == "ints"), extras=(env == "extras"))
    zero_supplied = None
    if e["vanishing"] and env in ("plain", "upper", "extras") and rng.random() < 0.4:
        # the user also lists a component that vanishes by symmetry, as zeros: consistent, and omitted from the result like every
        # component below the drop tolerance
        zc = sorted(set(e["vanishing"]) - ({extra_bad[0]} if extra_bad else set()))      # (not the column that carries the contradiction)
        if zc:
            zero_supplied = int(rng.choice(zc))
            nm = SYMS[zero_supplied - 1].upper() if env == "upper" else SYMS[zero_supplied - 1]
            df[nm] = 0.0
    if first_int is not None:
        c0 = SYMS[first_int - 1]
        df[c0] = df[c0].round().astype("int64")
        df = df[[c0] + [c for c in df.columns if c != c0]]
    if env == "row_labels":
        # the caller's table carries row labels of its own (sorted by another column, filtered, indexed by volume): rows are rows,
        # whatever they are called
        kind = int(rng.integers(0, 4))
        df.index = ([2, 0, 1], [10, 11, 12], [412.5, 398.25, 371.0], ["v3", "v1", "v2"])[kind]
    want = outcome[(det, gross, ign_rank, ign_res)]
    case = {"system": s, "supplied": [SYMS[n - 1] for n in sorted(S)], "det": det, "gross": gross, "bad": extra_bad,
            "ignore_rank": ign_rank, "ignore_residuals": ign_res, "env": env, "rows": nrows,
            "explicit_zero_column": None if zero_supplied is None else SYMS[zero_supplied - 1]}
    trivial = det and set(S) == nonvan and not gross and not ign_rank and not ign_res and env == "plain"
    ctx.count(case, nontrivial=not trivial)
    sig = {"system": s, "env": env, "det": det, "gross": gross}
    work = Path(tempfile.mkdtemp(dir=tmp))
    system_arg = s
    if env == "cwd_dir":
        (work / s).mkdir()
    elif env == "relfile":
        sub = work / str(rng.choice(["Crystal Data", "MgSiO3", "relations"]))      # paths are case-sensitive and may contain blanks
        sub.mkdir()
        rel = sub / str(rng.choice(["My_Relations.TXT", "my_relations.txt", "Hexagonal-like.rel"]))
        shutil.copy(fillspec.CONSTRAINTS / s, rel)
        system_arg = str(rel)
    elif env == "relfile_dot":
        # a relations file in the working directory that happens to be NAMED like another packaged system, given as a relative
        # path: it is a path, so its content (this system's relations) is what must be used
        other = str(rng.choice([x for x in fillspec.SYSTEMS if x != s]))
        shutil.copy(fillspec.CONSTRAINTS / s, work / other)
        system_arg = "./" + other
        case["named_like"] = other
    arg = df.copy()
    with cwd(work):
        got, out = call_fill(arg, system_arg, ignore_rank=ign_rank, ignore_residuals=ign_res)
    if got == "raise" and want == "raise":
        # a refusal must leave the caller's table as it was ("never distorts data")
        same = list(arg.columns) == list(df.columns) and arg.shape == df.shape and \
            all(numpy.array_equal(arg[c].to_numpy(), df[c].to_numpy()) and arg[c].dtype == df[c].dtype for c in df.columns)
        if not same:
            ctx.violation(f"{s} [{env}]: the refused fill changed the caller's table (columns {list(df.columns)} -> {list(arg.columns)})",
                          {**case, "table": df.to_dict("list")}, {**sig, "clause": "refusal_mutates"})
            return
    if got != want:
        detail = repr(out) if got == "raise" else "accepted"
        ctx.violation(f"{s} [{env}] supplied={case['supplied']} det={det} gross={gross} flags(rank={ign_rank},res={ign_res}): "
                      f"expected {want}, fill did {got} ({detail[:160]})", {**case, "table": df.to_dict("list")},
                      {**sig, "clause": "decision", "want": want, "exc": type(out).__name__ if got == "raise" else None})
        return
    if got != "accept" or gross:
        return
    # ---- accepted, consistent data: nothing moves, relations hold, pass-through, zero columns dropped
    scale = max(1.0, max(abs(float(x)) for r in rows for x in r))
    low = {c.lower(): c for c in out.columns}
    for n in sorted(S):
        c = low.get(SYMS[n - 1])
        want_v = [float(r[n - 1]) for r in rows]
        if c is None:
            if any(v != 0 for v in want_v):
                ctx.violation(f"{s} [{env}]: supplied column {SYMS[n-1]} disappeared", case, {**sig, "clause": "supplied_kept"})
            continue
        if not numpy.allclose(out[c].to_numpy(dtype=float), want_v, rtol=0, atol=1e-9 * scale):
            ctx.violation(f"{s} [{env}]: supplied {SYMS[n-1]} moved from {want_v} to {out[c].tolist()}", case, {**sig, "clause": "supplied_moved"})
            return
    full = numpy.zeros((len(rows), 21))
    for n in range(21):
        c = low.get(SYMS[n])
        if c is not None:
            full[:, n] = out[c].to_numpy(dtype=float)
    for r in relrows:
        resid = full @ numpy.array([float(x) for x in r])
        if numpy.max(numpy.abs(resid)) > numpy.sqrt(RES_ATOL):
            ctx.violation(f"{s} [{env}]: accepted table violates a symmetry relation by {numpy.max(numpy.abs(resid)):.3g}", case,
                          {**sig, "clause": "relation_violated"})
            return
    if det:
        for n in range(21):
            want_v = [float(r[n]) for r in rows]
            c = low.get(SYMS[n])
            if all(v == 0 for v in want_v):
                if c is not None:
                    ctx.violation(f"{s} [{env}]: vanishing component {SYMS[n]} not omitted", case, {**sig, "clause": "zero_kept"})
                    return
            elif c is None or not numpy.allclose(out[c].to_numpy(dtype=float), want_v, rtol=0, atol=1e-9 * scale):
                ctx.violation(f"{s} [{env}]: component {SYMS[n]} = {None if c is None else out[c].tolist()} expected {want_v}", case,
                              {**sig, "clause": "value"})
                return
    if env == "extras":
        for c, base in (("V", 100.0), ("note", None)):
            if c not in out.columns or not numpy.array_equal(out[c].to_numpy(), df[c].to_numpy()):
                ctx.violation(f"{s}: non-modulus column {c} not passed through untouched", case, {**sig, "clause": "passthrough"})
                return


def cli_cases(ctx, rng, exports, by, tmp):
    """`cij fill -s SYSTEM FILE` with flags: same decisions and values through the command line."""
    from click.testing import CliRunner
    from cij.cli.fill import main as fill_main
    import pandas
    n = 0
    for s in fillspec.SYSTEMS:
        e = exports[s]
        tensors = [[Fraction(x[0], x[1]) for x in t] for t in e["tensors"]]
        for det in (True, False):
            cand = by.get((s, det), [])
            if not cand:
                continue
            S = min(cand, key=len) if det else max(cand, key=len)
            for flags in ([], ["--ignore-rank"], ["@relations-file"]):
                want = "accept" if (det or "--ignore-rank" in flags) else "raise"
                work = Path(tempfile.mkdtemp(dir=tmp))
                sysarg = s
                if flags == ["@relations-file"]:
                    # a path to a relations file in place of the system name, through the command line
                    flags = []
                    rel = work / "Relations_of_My_Crystal.txt"
                    shutil.copy(fillspec.CONSTRAINTS / s, rel)
                    sysarg = str(rel)
                cols = [SYMS[k - 1] for k in sorted(S)]
                lines = ["static table", f"100.0 3 50.0", "V " + " ".join(cols)]
                for i, t in enumerate(tensors):
                    lines.append(f"{100.0 - 5*i:.4f} " + " ".join(f"{float(t[k-1]):.6f}" for k in sorted(S)))
                f = work / "elast.dat"
                f.write_text("\n".join(lines) + "\n")
                case = {"system": s, "cli": True, "flags": flags, "det": det, "supplied": cols, "system_argument": "name" if sysarg == s else "path"}
                ctx.count(case)
                n += 1
                with cwd(work):
                    r = CliRunner().invoke(fill_main, ["-s", sysarg, *flags, str(f)])
                got = "accept" if r.exit_code == 0 and r.exception is None else "raise"
                if got != want:
                    ctx.violation(f"cij fill -s {'<relations file>' if sysarg != s else s} {' '.join(flags)}: expected {want}, got {got} ({r.exception!r})", case,
                                  {"system": s, "env": "cli", "det": det, "gross": False, "clause": "decision", "want": want,
                                   "exc": type(r.exception).__name__ if r.exception else None})
    ctx.cov["cli_runs"] = n


def label_cases(ctx, rng, pandas, exports, by):
    """Rows are rows whatever they are called: for every system one determined, consistent table per kind of row label (permuted integers,
    an offset range, volumes, strings).  No supplied value moves to another row, every component is the invariant tensor's."""
    for s in fillspec.SYSTEMS:
        if s == "triclinic":
            continue
        e = exports[s]
        tensors = [[float(Fraction(x[0], x[1])) for x in t] for t in e["tensors"]]
        cand = by.get((s, True), [])
        if not cand:
            continue
        S = min(cand, key=len)
        for labels in ([2, 0, 1], [10, 11, 12], [412.5, 398.25, 371.0], ["v3", "v1", "v2"]):
            df = pandas.DataFrame({SYMS[n - 1]: [t[n - 1] for t in tensors] for n in sorted(S)})
            df.index = labels
            case = {"system": s, "clause": "row_labels", "labels": [str(x) for x in labels], "supplied": [SYMS[n - 1] for n in sorted(S)]}
            ctx.count(case)
            got, out = call_fill(df.copy(), s)
            sig = {"system": s, "env": "row_labels", "det": True, "gross": False}
            if got != "accept":
                ctx.violation(f"{s} [row labels {labels}]: a determined, consistent table is refused ({out!r})"[:300], case,
                              {**sig, "clause": "decision", "want": "accept", "exc": type(out).__name__})
                continue
            low = {c.lower(): c for c in out.columns}
            for n in range(21):
                want_v = [t[n] for t in tensors]
                c = low.get(SYMS[n])
                if all(v == 0 for v in want_v):
                    continue
                if c is None or len(out) != 3 or not numpy.allclose(out[c].to_numpy(dtype=float), want_v, rtol=0, atol=1e-7):
                    ctx.violation(f"{s} [row labels {labels}]: component {SYMS[n]} = {None if c is None else out[c].tolist()}, row by row the "
                                  f"invariant tensors have {want_v}", case, {**sig, "clause": "supplied_moved" if (n + 1) in S else "value"})
                    break


def full_table_cases(ctx, rng, pandas, exports):
    """(a) A table that lists all 21 components (zeros where the symmetry makes them vanish) is a table like any other: a contradiction
    of 50 GPa in it is refused, a consistent one is accepted with the vanishing components omitted.  (b) Redundant components that
    disagree by less than the refusal threshold: IF the fill accepts, no relation is left violated by more than sqrt(residual_atol)."""
    for s in fillspec.SYSTEMS:
        if s == "triclinic":
            continue
        e = exports[s]
        tensors = [[float(Fraction(x[0], x[1])) for x in t] for t in e["tensors"]]
        van = set(e["vanishing"])
        nonvan = [n for n in range(1, 22) if n not in van]
        for bad in (None, int(rng.choice(nonvan))):
            df = pandas.DataFrame({SYMS[n - 1]: [t[n - 1] + (50.0 if n == bad else 0.0) for t in tensors] for n in range(1, 22)})
            case = {"system": s, "clause": "all_21_columns", "contradiction": None if bad is None else SYMS[bad - 1]}
            ctx.count(case)
            got, out = call_fill(df.copy(), s)
            want = "accept" if bad is None else "raise"
            sig = {"system": s, "env": "all21", "det": True, "gross": bad is not None}
            # (a system whose only relations are 'component = 0' has no relation that a non-vanishing component could contradict)
            relrows = parse_file(fillspec.CONSTRAINTS / s)
            if bad is not None and not any(r[bad - 1] != 0 for r in relrows):
                continue
            if got != want:
                ctx.violation(f"{s}: a table listing all 21 components{'' if bad is None else ' with ' + SYMS[bad - 1] + ' off by 50 GPa'}: expected {want}, "
                              f"fill did {got} ({out!r})"[:300], case, {**sig, "clause": "decision", "want": want, "exc": type(out).__name__ if got == "raise" else None})
                continue
            if bad is None:
                present = {c.lower() for c in out.columns}
                kept = sorted(SYMS[n - 1] for n in van if SYMS[n - 1] in present)
                if kept:
                    ctx.violation(f"{s}: vanishing components {kept} of a table listing all 21 components are not omitted", case, {**sig, "clause": "zero_kept"})
    # (b) cubic, c22 supplied next to c11 and 0.4 GPa away from it
    for d in (0.4, -0.4):
        df = pandas.DataFrame({"c11": [300.0, 310.0], "c22": [300.0 + d, 310.0 + d], "c12": [100.0, 110.0], "c44": [50.0, 55.0]})
        ctx.count({"system": "cubic", "clause": "within_threshold", "d": d})
        got, out = call_fill(df.copy(), "cubic")
        if got != "accept":
            continue                                   # (the refusal threshold is not what this clause is about)
        full = numpy.zeros((2, 21))
        low = {c.lower(): c for c in out.columns}
        for n in range(21):
            if SYMS[n] in low:
                full[:, n] = out[low[SYMS[n]]].to_numpy(dtype=float)
        for r in parse_file(fillspec.CONSTRAINTS / "cubic"):
            resid = full @ numpy.array([float(x) for x in r])
            if not numpy.max(numpy.abs(resid)) <= numpy.sqrt(RES_ATOL):
                ctx.violation(f"cubic: c22 supplied {d:+} GPa away from c11 is accepted and the filled table violates a symmetry relation by "
                              f"{numpy.max(numpy.abs(resid)):.3g} GPa (more than the square root of the residual tolerance)", {"d": d},
                              {"system": "cubic", "env": "band", "det": True, "gross": False, "clause": "relation_violated"})
                break


def settings_cases(ctx, rng, exports, by, outcome):
    """The same decisions through the path `cij run` takes: the symmetry group of the settings (system, ignore_rank,
    ignore_residuals - every combination of the two flags, also set to DIFFERENT values) handed to
    cij.io.traditional.elast_dat.apply_symetry_on_elast_data together with a parsed static table."""
    from collections import OrderedDict
    from cij.io.traditional.elast_dat import ElastData, ElastVolumeData, apply_symetry_on_elast_data
    from cij.util import c_
    systems = [x for x in fillspec.SYSTEMS if x != "triclinic"]
    for s in [systems[int(i)] for i in rng.permutation(len(systems))[:4]]:
        e = exports[s]
        tensors = [[Fraction(x[0], x[1]) for x in t] for t in e["tensors"]]
        for det, gross in ((False, False), (True, True), (True, False)):
            cand = [S for S in by.get((s, det), []) if S and (not gross or len(set(range(1, 22)) - set(S)) > 0)]
            if not cand:
                continue
            S = cand[int(rng.integers(0, len(cand)))]
            bad = int(rng.choice(sorted(set(range(1, 22)) - set(S)))) if gross else None
            for ign_rank in (False, True):
                for ign_res in (False, True):
                    want = outcome[(det, gross, ign_rank, ign_res)]
                    vols = []
                    for i, t in enumerate(tensors):
                        comp = OrderedDict((c_(SYMS[n - 1][1:]), float(t[n - 1])) for n in sorted(S))
                        if bad is not None:
                            comp[c_(SYMS[bad - 1][1:])] = float(t[bad - 1]) + 50.0
                        vols.append(ElastVolumeData(100.0 - 5 * i, comp))
                    data = ElastData(100.0, 3, 50.0, vols, [])
                    sym = {"system": s}
                    # a flag left out of the settings is the default (false)
                    if ign_rank or rng.random() < 0.5:
                        sym["ignore_rank"] = ign_rank
                    if ign_res or rng.random() < 0.5:
                        sym["ignore_residuals"] = ign_res
                    case = {"system": s, "path": "settings", "det": det, "gross": gross, "symmetry_settings": dict(sym),
                            "supplied": [SYMS[n - 1] for n in sorted(S)]}
                    ctx.count(case)
                    try:
                        apply_symetry_on_elast_data(data, sym)
                        got, exc = "accept", None
                    except BaseException as ex:                                       # noqa: BLE001
                        got, exc = "raise", ex
                    if got != want:
                        ctx.violation(f"{s} [settings path] det={det} gross={gross} symmetry settings {sym}: expected {want}, "
                                      f"apply_symetry_on_elast_data did {got} ({exc!r})"[:400], case,
                                      {"system": s, "env": "settings", "det": det, "gross": gross, "clause": "decision", "want": want,
                                       "exc": type(exc).__name__ if exc is not None else None})


def clause_cases(ctx, rng, pandas, exports, by, outcome):
    """Two clauses that need special tables: (a) a contradiction confined to ONE of many volume rows is still refused;
    (b) the drop tolerance is the one requested (components below it at all volumes omitted, others kept)."""
    for s in fillspec.SYSTEMS:
        if s == "triclinic":
            continue
        e = exports[s]
        null = numpy.array([[x[0] / x[1] for x in v] for v in e["null"]], dtype=float)          # (d, 21) TLC-computed basis
        d = null.shape[0]
        cand = by.get((s, True), [])
        if not cand:
            continue
        # ---- (a) many rows, one row off by a moderate-but-gross amount (residual >= 4 x tolerance for that row)
        for nrows in (12, 40):
            S = cand[int(rng.integers(0, len(cand)))]
            rest = sorted(set(range(1, 22)) - set(S))
            if not rest:
                continue
            t = int(rng.choice(rest))
            P = rng.uniform(50.0, 300.0, (nrows, d))
            X = P @ null
            cols = {SYMS[n - 1]: X[:, n - 1].copy() for n in sorted(S)}
            cols[SYMS[t - 1]] = X[:, t - 1].copy()
            r = int(rng.integers(1, nrows))
            cols[SYMS[t - 1]][r] += 1.5
            df = pandas.DataFrame(cols)
            for ign_res in (False, True):
                want = outcome[(True, True, False, ign_res)]
                got, out = call_fill(df.copy(), s, ignore_residuals=ign_res)
                case = {"system": s, "clause": "one_row_inconsistent", "rows": nrows, "bad_row": r, "bad_symbol": SYMS[t - 1],
                        "supplied": [SYMS[n - 1] for n in sorted(S)], "ignore_residuals": ign_res}
                ctx.count(case)
                if got != want:
                    ctx.violation(f"{s}: {SYMS[t-1]} contradicts the relations by 1.5 GPa in row {r} of {nrows} (ignore_residuals={ign_res}): "
                                  f"expected {want}, fill did {got}", case,
                                  {"system": s, "env": "rows", "det": True, "gross": True, "clause": "decision", "want": want})
        # ---- (b) requested drop tolerance
        for mag, tol, kept in ((1e-5, 1e-3, False), (1e-5, None, True), (1e-10, 1e-12, True), (1e-10, None, False)):
            i = int(rng.integers(0, d))
            P = rng.uniform(50.0, 300.0, (3, d))
            P[:, i] = mag * rng.uniform(1.0, 3.0, 3) * rng.choice([-1.0, 1.0])
            X = P @ null
            nonvan = [n for n in range(1, 22) if n not in set(e["vanishing"])]
            df = pandas.DataFrame({SYMS[n - 1]: X[:, n - 1] for n in nonvan})
            kw = {} if tol is None else {"drop_atol": tol}
            eff = 1e-8 if tol is None else tol
            got, out = call_fill(df.copy(), s, **kw)
            case = {"system": s, "clause": "drop_atol", "magnitude": mag, "drop_atol": tol}
            ctx.count(case)
            if got != "accept":
                continue
            present = {c.lower() for c in out.columns}
            for n in nonvan:
                m = float(numpy.max(numpy.abs(X[:, n - 1])))
                if m > 100 * eff and SYMS[n - 1] not in present:
                    ctx.violation(f"{s}: component {SYMS[n-1]} (max |value| {m:.3g}) omitted although above the drop tolerance {eff:g}", case,
                                  {"system": s, "env": "drop", "det": True, "gross": False, "clause": "drop_kept"})
                    break
                if m < eff / 100 and SYMS[n - 1] in present:
                    ctx.violation(f"{s}: component {SYMS[n-1]} (max |value| {m:.3g}) kept although below the drop tolerance {eff:g} at all volumes", case,
                                  {"system": s, "env": "drop", "det": True, "gross": False, "clause": "drop_omitted"})
                    break
