"""C11 -- every interpolation method returns a consistent (omega, gamma, V dgamma/dV) triple.

Model (spec/Interp.tla, C11.tla): the admissibility rule and node subsampling for all methods x orders x nv in 4..12 explored
by TLC (756 states), in-class exactness degree per call, the triple (e^p, -p', -p'') of test polynomials as normal forms
(Poly!Deriv), and the plot table.  Binding (R): every admissible call replayed through interpolate_modes on power-law tables
(distinct exponents per (q,m)), on polynomial tables up to the exactness degree, and on generic smooth tables (consistency of
the returned triple by finite differences); ModePlotter.plot_modes with a recording axes object.
"""
from types import SimpleNamespace

import numpy

from cv.core import MachineryError
from cv.polyeval import evaluate
from cv.tlc import run_tlc, must_ok

LEVEL = "model_checking"
# (omega rtol, gamma atol, V dgamma/dV atol) on in-class tables.  scipy.interpolate.lagrange works in the monomial basis of the raw
# abscissa ln V ~ 6 and loses ~1e-5 with six nodes (measured: 3.5e-5 on omega) - a conditioning property of the dependency, not
# a wrong interpolant; a q/mode mix-up, a sign error or a wrong derivative order is O(1e-2..1).
TOL = {m: (1e-7, 1e-7, 1e-6) for m in ("spline", "lsq_poly", "pchip", "akima", "hermite")}
TOL["lagrange"] = (5e-4, 2e-4, 2e-4)
TOL["krogh"] = (1e-6, 1e-6, 1e-5)


def make_input(volumes, freqs):
    """freqs: (nv, nq, np) -> QHAInputData-like object"""
    from cij.io.traditional.models import QHAInputData, VolumeData, QPointData
    nv, nq, np_ = freqs.shape
    vols = [VolumeData(0.0, float(volumes[i]), 0.0, [QPointData((0.0, 0.0, float(q)), [float(x) for x in freqs[i, q]]) for q in range(nq)])
            for i in range(nv)]
    # (weights of all sorts, a vanishing one among them: they belong to the sums over q-points, not to the interpolation of a mode)
    w = [1.0, 0.0, 6.0, 2.5, 1e-9]
    return QHAInputData(nv, nq, np_, 1, np_ // 3, [((0.0, 0.0, float(q)), w[(q + nv) % len(w)]) for q in range(nq)], vols)


def grid(volumes, ntv=25, ratio=1.2):
    return numpy.linspace(volumes.max() * ratio, volumes.min() / ratio, ntv)


def call(method, order, volumes, freqs, v_array):
    from cij.core.mode_gamma import interpolate_modes
    import warnings
    with warnings.catch_warnings(), numpy.errstate(all="ignore"):
        warnings.simplefilter("ignore")
        return interpolate_modes(make_input(volumes, freqs), v_array, method=method, order=order)


def main(ctx, replay=None):
    rng = numpy.random.default_rng(ctx.seed + 1111)
    res = must_ok(run_tlc("C11", "C11.cfg", ctx.subdir("tlc"), workers=8, timeout=300))
    ctx.add_tlc(res)
    tab = res.load("c11_table.json")
    calls = sorted(tab["calls"], key=lambda c: (c["method"], c["order"], c["nv"]))
    if len(calls) < 300:
        raise MachineryError("admissibility table too small")
    ctx.cov["exhaustive"] = True
    ctx.cov["rule"] = ("all admissible (method, order, nv) calls enumerated by TLC for nv in 4..12, each on: a power-law table with pairwise "
                       "distinct exponents per (q,m); polynomial ln(omega) tables up to the call's exactness degree; a generic smooth table "
                       "(triple consistency); distinct by (method, order, nv, table kind)")
    ctx.assumptions += ["scipy interpolators are the interpolants they claim (dependency)", "finite-difference consistency tolerance 1e-4 (gamma), 1e-3 of range (integral of V dgamma/dV)"]
    SHAPES = [(2, 6), (6, 6), (3, 3), (4, 3), (1, 6), (3, 9), (9, 9)]          # incl. tables with as many q-points as modes
    if ctx.tier == "quick":
        sel = [c for c in calls if c["nv"] in (4, 7, 12) or c["order"] == c["nv"] - 1]
    else:
        sel = calls * 4                  # four different tables/shapes per call
    for ci, c in enumerate(sel):
        method, order, nv = c["method"], c["order"], c["nv"]
        nq, np_ = SHAPES[ci % len(SHAPES)]
        sig = {"method": method}
        vmax = float(rng.uniform(300, 900))
        volumes = numpy.linspace(vmax, 0.75 * vmax, nv)
        v_array = grid(volumes)
        int_grid = bool(ci % 5 == 2)
        if int_grid:
            # a grid of whole-number volumes handed over as an integer array (numpy.arange and friends): the same grid
            v_array = numpy.rint(v_array).astype(numpy.int64)
        x = numpy.log(v_array / vmax)
        # ---- (1) power laws, distinct exponents -------------------------------------------------------
        g = numpy.linspace(0.6, 2.4, nq * np_).reshape(nq, np_) + rng.uniform(-0.02, 0.02, (nq, np_))
        a = rng.uniform(100, 1200, (nq, np_))
        freqs = a[None] * (volumes[:, None, None] / vmax) ** (-g[None])
        gamma_zero = bool(rng.random() < 0.5)
        if gamma_zero:
            freqs[:, 0, :3] = 0.0        # as in real files; otherwise arbitrary positive numbers: the output must be zero either way
        case = {"method": method, "order": order, "nv": nv, "table": "power_law", "gamma_acoustic_zero": gamma_zero, "nq": nq, "np": np_, "pass": ci // max(1, len(calls)),
                "integer_typed_grid": int_grid}
        ctx.count(case)
        try:
            w, gam, kap = call(method, order, volumes, freqs, v_array)
        except Exception as ex:
            ctx.violation(f"interpolate_modes(method={method}, order={order}) on {nv} volumes raised {ex!r}", case,
                          {**sig, "clause": "raises", "exc": type(ex).__name__})
            continue
        wexp = a[None] * (v_array[:, None, None] / vmax) ** (-g[None])
        mask = numpy.ones((nq, np_), bool)
        mask[0, :3] = False
        bad = None
        if not (numpy.all(w[:, 0, :3] == 0) and numpy.all(gam[:, 0, :3] == 0) and numpy.all(kap[:, 0, :3] == 0)):
            bad = "Gamma-point acoustic modes are not left at zero"
        elif not numpy.all(numpy.isfinite(w[:, mask])) or not numpy.all(numpy.isfinite(gam[:, mask])) or not numpy.all(numpy.isfinite(kap[:, mask])):
            bad = "non-finite values on the extrapolated volume grid"
        elif not numpy.allclose(w[:, mask], wexp[:, mask], rtol=TOL[method][0]):
            bad = "frequency is not the power law on the extrapolated grid (q/mode mix-up or inexact interpolant)"
        elif not numpy.allclose(gam[:, mask], numpy.broadcast_to(g[None], gam.shape)[:, mask], rtol=0, atol=TOL[method][1]):
            bad = f"gamma = {gam[0, -1, -1]!r}.. expected the exponents {g[-1, -1]!r}.."
        elif not numpy.allclose(kap[:, mask], 0.0, atol=TOL[method][2]):
            bad = f"V dgamma/dV = {numpy.abs(kap[:, mask]).max()!r}, expected 0 for power laws"
        if bad:
            nonfinite = bad.startswith("non-finite")
            ctx.violation(f"{method} order {order} nv {nv} (power-law table): {bad}", case, {**sig, "clause": "power_law", "nonfinite": nonfinite})
            continue
        # ---- (1b) the same end points and count, another interior spacing (volumes are not equally spaced in general) -------------
        if nv >= 3:
            step = abs(volumes[1] - volumes[0])
            vol2 = volumes.copy()
            vol2[1:-1] += rng.uniform(-0.35, 0.35, nv - 2) * step
            freqs2 = a[None] * (vol2[:, None, None] / vmax) ** (-g[None])
            if gamma_zero:
                freqs2[:, 0, :3] = 0.0
            case1b = {**case, "table": "power_law_unequal_spacing"}
            ctx.count(case1b)
            try:
                w2, gam2, kap2 = call(method, order, vol2, freqs2, v_array)
            except Exception as ex:
                ctx.violation(f"interpolate_modes(method={method}, order={order}) on {nv} unequally spaced volumes raised {ex!r}", case1b,
                              {**sig, "clause": "raises", "exc": type(ex).__name__})
                continue
            if not (numpy.allclose(w2[:, mask], wexp[:, mask], rtol=TOL[method][0]) and numpy.allclose(gam2[:, mask], numpy.broadcast_to(g[None], gam2.shape)[:, mask], rtol=0, atol=TOL[method][1])
                    and numpy.allclose(kap2[:, mask], 0.0, atol=TOL[method][2])):
                ctx.violation(f"{method} order {order} nv {nv}: power-law data on unequally spaced volumes (same end points as the call before) are not reproduced "
                              f"(max frequency error {float(numpy.nanmax(numpy.abs(w2[:, mask] / wexp[:, mask] - 1))):.3g})", case1b, {**sig, "clause": "power_law", "nonfinite": False})
                continue
        # ---- (2) polynomial ln(omega) up to the exactness degree -----------------------------------------
        for poly in tab["polys"]:
            if poly["deg"] < 2 or poly["deg"] > c["exact"]:
                continue
            xs = numpy.log(volumes / vmax)
            lnw = evaluate(poly["lnw"], {"x": xs})
            freqs = numpy.exp(lnw)[:, None, None] * numpy.ones((1, nq, np_))
            freqs[:, 0, :3] = 0.0
            case2 = {**case, "table": f"poly{poly['deg']}"}
            ctx.count(case2)
            try:
                w, gam, kap = call(method, order, volumes, freqs, v_array)
            except Exception as ex:
                ctx.violation(f"{method} order {order} nv {nv} on a degree-{poly['deg']} table raised {ex!r}", case2, {**sig, "clause": "raises", "exc": type(ex).__name__})
                continue
            ew = numpy.exp(evaluate(poly["lnw"], {"x": x}))
            eg = evaluate(poly["gamma"], {"x": x}) + 0 * x
            ek = evaluate(poly["vdgdv"], {"x": x}) + 0 * x
            if not (numpy.allclose(w[:, -1, -1], ew, rtol=max(1e-6, TOL[method][0])) and numpy.allclose(gam[:, -1, -1], eg, atol=max(1e-5, 5 * TOL[method][1])) and numpy.allclose(kap[:, -1, -1], ek, atol=max(1e-4, 20 * TOL[method][2]))):
                ctx.violation(f"{method} order {order} nv {nv}: ln(omega) polynomial of degree {poly['deg']} in ln V is not reproduced "
                              f"(gamma err {numpy.abs(gam[:, -1, -1]-eg).max():.2e}, V dgamma/dV err {numpy.abs(kap[:, -1, -1]-ek).max():.2e})", case2,
                              {**sig, "clause": "in_class"})
        # ---- (3) generic smooth table: the triple belongs to one interpolant -----------------------------
        xs = numpy.log(volumes / vmax)
        lnw = 6.0 - 1.3 * xs + 0.8 * numpy.sin(2.0 * xs) + 0.3 * xs ** 2
        freqs = numpy.exp(lnw)[:, None, None] * numpy.ones((1, nq, np_))
        freqs[:, 0, :3] = 0.0
        dense = numpy.linspace(volumes.max() * 1.1, volumes.min() / 1.1, 2001)
        case3 = {**case, "table": "generic"}
        ctx.count(case3)
        try:
            w, gam, kap = call(method, order, volumes, freqs, dense)
        except Exception as ex:
            ctx.violation(f"{method} order {order} nv {nv} on a generic table raised {ex!r}", case3, {**sig, "clause": "raises", "exc": type(ex).__name__})
            continue
        xd = numpy.log(dense)
        wv, gv, kv = w[:, -1, -1], gam[:, -1, -1], kap[:, -1, -1]
        if not (numpy.all(numpy.isfinite(wv)) and numpy.all(numpy.isfinite(gv)) and numpy.all(numpy.isfinite(kv))):
            ctx.violation(f"{method} order {order} nv {nv}: non-finite values on a generic table", case3, {**sig, "clause": "generic", "nonfinite": True})
            continue
        fd = -(numpy.log(wv[2:]) - numpy.log(wv[:-2])) / (xd[2:] - xd[:-2])
        if not numpy.max(numpy.abs(fd - gv[1:-1])) <= 5e-3 * max(1.0, numpy.max(numpy.abs(gv))):   # (kinks of C1 interpolants at the nodes: ~3e-4)
            ctx.violation(f"{method} order {order} nv {nv}: gamma is not -dln(omega)/dlnV of the returned frequency "
                          f"(max dev {numpy.max(numpy.abs(fd - gv[1:-1])):.3g})", case3, {**sig, "clause": "gamma_consistent"})
            continue
        # integral form (insensitive to jumps of the second derivative at nodes): gamma(xb) - gamma(xa) = -int kappa dx ... sign: kappa = dgamma/dlnV
        step = 500          # long windows: a wrong sign or a repeated first derivative shows as ~range/2; node kinks as ~1e-3
        rng_g = max(numpy.ptp(gv), 1e-3)
        integ = numpy.concatenate([[0.0], numpy.cumsum(0.5 * (kv[1:] + kv[:-1]) * (xd[1:] - xd[:-1]))])
        dev = max(abs((gv[b] - gv[a]) - (integ[b] - integ[a])) for a, b in zip(range(0, 2001 - step, step), range(step, 2001, step)))
        if dev > 0.05 * rng_g + 1e-4:
            ctx.violation(f"{method} order {order} nv {nv}: the third quantity is not dgamma/dlnV of the returned gamma (integral dev {dev:.3g})",
                          case3, {**sig, "clause": "vdgdv_consistent"})
        # ---- (3b) the same table on a small grid strictly inside ONE piece of the interpolant (between two neighbouring tabulated volumes
        # there is no node of any method): there gamma is a polynomial in ln V, and the third quantity is its derivative at EVERY grid
        # point, the first and the last included
        k = nv // 2 - 1
        xa, xb = numpy.log(volumes[k]), numpy.log(volumes[k + 1])
        xin = numpy.linspace(xa + 0.06 * (xb - xa), xa + 0.94 * (xb - xa), 9)
        case3b = {**case, "table": "generic_inside_one_piece"}
        ctx.count(case3b)
        try:
            w, gam, kap = call(method, order, volumes, freqs, numpy.exp(xin))
        except Exception as ex:
            ctx.violation(f"{method} order {order} nv {nv} on a generic table (grid inside one piece) raised {ex!r}", case3b, {**sig, "clause": "raises", "exc": type(ex).__name__})
            continue
        gv, kv = numpy.asarray(gam[:, -1, -1], dtype=float), numpy.asarray(kap[:, -1, -1], dtype=float)
        if numpy.all(numpy.isfinite(gv)) and numpy.all(numpy.isfinite(kv)):
            fit = numpy.polynomial.Polynomial.fit(xin, gv, deg=6)
            dfit = fit.deriv()(xin)
            tol3 = 1e-5 * max(1.0, float(numpy.max(numpy.abs(kv))), float(numpy.max(numpy.abs(dfit))))
            if not numpy.max(numpy.abs(dfit - kv)) <= tol3:
                i = int(numpy.argmax(numpy.abs(dfit - kv)))
                ctx.violation(f"{method} order {order} nv {nv}: inside one piece of the interpolant the third quantity at grid point {i} of 9 is {kv[i]!r}, the "
                              f"derivative of the returned gamma there is {dfit[i]!r}", case3b, {**sig, "clause": "vdgdv_consistent"})
    ctx.sample({"call": {k: calls[10][k] for k in ("method", "order", "nv", "nodes", "exact")}})
    plot_table(ctx, tab["plot"], rng)


class RecAxes:
    """Recording stand-in for a matplotlib axes: remembers the curves drawn (one per column when a 2-D array is plotted at once);
    every other axes method is accepted and ignored."""

    def __init__(self):
        self.lines, self.scatters = [], []

    def plot(self, x, y, *a, **k):
        y = numpy.asarray(y)
        for col in (y.T if y.ndim == 2 else [y]):
            self.lines.append((numpy.asarray(x), numpy.asarray(col)))

    def scatter(self, x, y, *a, **k):
        self.scatters.append((numpy.asarray(x), numpy.asarray(y)))

    def __getattr__(self, name):
        return lambda *a, **k: None


def same_curves(lines, arr, ks):
    """the drawn curves are exactly the columns ks of arr, in any order"""
    drawn = sorted(tuple(numpy.asarray(y, dtype=float).tolist()) for _, y in lines)
    want = sorted(tuple(numpy.asarray(arr[:, k], dtype=float).tolist()) for k in ks)
    return drawn == want


def plot_table(ctx, table, rng):
    try:
        from cij.plot.modes import ModePlotter
    except Exception as ex:
        raise MachineryError(f"cannot import ModePlotter: {ex!r}")
    ntv, nq, np_, nv = 7, 2, 6, 5
    vol = numpy.linspace(500, 400, nv)
    fr = rng.uniform(100, 900, (nv, nq, np_))
    calc = SimpleNamespace(freq_array=rng.uniform(100, 900, (ntv, nq, np_)),
                           mode_gamma=[rng.uniform(-1, 1, (ntv, nq, np_)), rng.uniform(1, 2, (ntv, nq, np_)), None],
                           np=np_, v_array=numpy.linspace(550, 380, ntv), qha_input=make_input(vol, fr))
    calc.mode_gamma[2] = calc.mode_gamma[1] ** 2
    src = {"omega": calc.freq_array, "gamma": calc.mode_gamma[1], "vdgdv": calc.mode_gamma[0]}
    shared = ModePlotter(calc)               # one plotter asked for several pictures, next to fresh plotters
    order = [(n, iq, fresh) for fresh in (True, False) for n in (0, 1, 2) for iq in (0, 1)]
    order = [order[int(i)] for i in rng.permutation(len(order))]
    for n, iq, fresh in order:
        if True:
            ax = RecAxes()
            ctx.count({"plot": n, "iq": iq, "fresh_plotter": fresh})
            try:
                (ModePlotter(calc) if fresh else shared).plot_modes(ax, n, iq)
            except Exception as ex:
                ctx.violation(f"plot_modes(n={n}, iq={iq}) raised {ex!r}", {"n": n, "iq": iq}, {"clause": "plot_raises"})
                continue
            want = src[table[str(n)]][:, iq, :]
            ks = [k for k in range(np_) if not (iq == 0 and k < 3)]
            ok = same_curves(ax.lines, want, ks)
            if not ok:
                drawn = next((nm for nm, arr in src.items() if same_curves(ax.lines, arr[:, iq, :], ks)), "something else")
                ctx.violation(f"plot_modes(n={n}, iq={iq}) draws {drawn}, the documented quantity for n={n} is {table[str(n)]}",
                              {"n": n, "iq": iq, "drawn": drawn}, {"clause": "plot", "n": n})
