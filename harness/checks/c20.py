"""C20 -- eigenvector tools: sorting recovers the permutation; conversion restores a basis; matdyn files are loaded faithfully.

Model (spec/EvecSort.tla): the greedy assignment as a state machine run by TLC on every 2x2 (entries 0..3) and 3x3 (entries
0..2) overlap matrix: a dominant permutation is recovered; the result is a permutation whenever no pick faces an all-zero
remainder; plus the line layout of a matdyn eigenvector file.  Binding (R): every enumerated matrix replayed through the real
evec_sort; constructed unitary cases up to n = 60; evec_disp2eig on displacement matrices; generated matdyn files through
evec_load.
"""
import tempfile
from pathlib import Path

import numpy

from cv.core import MachineryError
from cv.tlaparse import printed_values
from cv.tlc import run_tlc, must_ok

LEVEL = "model_checking"


def random_unitary(rng, n, complex_):
    a = rng.normal(size=(n, n)) + (1j * rng.normal(size=(n, n)) if complex_ else 0)
    q, r = numpy.linalg.qr(a)
    return q * (numpy.diag(r) / numpy.abs(numpy.diag(r)))[None, :]


def main(ctx, replay=None):
    from cij.misc import evec_sort, evec_disp2eig, evec_load
    rng = numpy.random.default_rng(ctx.seed + 2020)
    records = []
    cfgs = ("EvecSort2.cfg", "EvecSort3.cfg") + (("EvecSort4.cfg",) if ctx.tier == "thorough" else ())      # n = 4: dominant class only
    for cfg in cfgs:
        res = must_ok(run_tlc("EvecSort", cfg, ctx.subdir("tlc_" + cfg[:9]), workers=1, timeout=2400))
        ctx.add_tlc(res)
        records += printed_values(res.out, "SORT")
    if len(records) < 256 + 19683:
        raise MachineryError(f"only {len(records)} matrices from the model")
    import json as _json
    eig = _json.loads((ctx.scratch / "tlc_EvecSort2" / "out" / "c20_eig.json").read_text())["files"]
    ctx.cov["exhaustive"] = True
    ctx.cov["rule"] = ("every 2x2 overlap matrix with entries 0..3 and every 3x3 with entries 0..2 (19 939 matrices, TLC) replayed through "
                       "evec_sort; constructed unitary bases n = 2..60 with permutation, phases, <= 5 % perturbation; displacement matrices "
                       "with random masses; generated matdyn files (1-6 q-points, 3-60 modes); non-trivial = matrix not all-equal")
    ctx.assumptions += ["unitary generation and norms are numpy linear algebra in the harness", "rejection = any exception"]
    # ---- the enumerated matrices ------------------------------------------------------------------------------
    for _, m0, out, zero, dom in records:
        n = len(m0)
        M = numpy.array(m0, dtype=float)
        items = [f"item{c}" for c in range(n)]
        ctx.count({"M": m0}, nontrivial=len(set(x for r in m0 for x in r)) > 1)
        try:
            got = evec_sort(list(items), [list(r) for r in M.T], [list(r) for r in numpy.eye(n)])
        except Exception as ex:
            ctx.violation(f"evec_sort raised {ex!r} on the overlap matrix {m0}", {"M": m0}, {"clause": "sort_raises"})
            continue
        if dom:
            want = [items[c - 1] for c in dom]
            if got != want:
                ctx.violation(f"overlap matrix {m0} has the dominant permutation {dom} but evec_sort returns {got}", {"M": m0, "got": got}, {"clause": "dominant"})
        if not zero and sorted(x for x in got if x is not None) != sorted(items):
            ctx.violation(f"evec_sort result {got} is not a permutation of its input for the overlap matrix {m0}", {"M": m0, "got": got}, {"clause": "permutation"})
    ctx.sample({"matrix": records[100][1], "model_out": records[100][2], "dominant": records[100][4]})
    # ---- constructed unitary cases --------------------------------------------------------------------------------
    ncase = 60 if ctx.tier == "quick" else 1500
    for t in range(ncase):
        n = int(rng.integers(2, 61))
        cplx = bool(rng.random() < 0.5)
        U = random_unitary(rng, n, cplx)                       # rows = base vectors
        perm = rng.permutation(n)
        if cplx and t % 3 == 0:
            phases = rng.choice(numpy.array([1, 1j, -1, -1j]), n)            # quarter turns: the overlap is purely imaginary
        else:
            phases = numpy.exp(1j * rng.uniform(0, 2 * numpy.pi, n)) if cplx else rng.choice([-1.0, 1.0], n)
        eps = rng.uniform(0, 0.05)
        noise = rng.normal(size=(n, n)) + (1j * rng.normal(size=(n, n)) if cplx else 0)
        noise *= eps / numpy.sqrt(n) / max(numpy.abs(noise).max(), 1e-12) * numpy.sqrt(n) * 0.2
        # target vector j matches base vector perm[j]
        T = phases[:, None] * U[perm] + noise
        items = [("mode", j) for j in range(n)]
        ctx.count({"n": n, "complex": cplx, "seed": ctx.seed, "t": t})
        # vector sets as lists of lists, or as arrays; with arrays the SAME base array object serves two sorts in a row (a base is sorted against
        # once per volume): the second answer is as right as the first
        as_arrays = bool(t % 4 == 1)
        try:
            if as_arrays:
                Ta, Ua = numpy.array(T), numpy.array(U)
                first = evec_sort(list(items), Ta, Ua)
                got = evec_sort(list(items), Ta, Ua)
                if first != got:
                    ctx.violation(f"evec_sort gives two different answers for the same arrays in a row (n={n}, complex={cplx})", {"n": n}, {"clause": "repeat"})
                    continue
            else:
                got = evec_sort(list(items), [list(r) for r in T], [list(r) for r in U])
        except Exception as ex:
            ctx.violation(f"evec_sort raised {ex!r} for n={n}", {"n": n}, {"clause": "sort_raises"})
            continue
        want = [None] * n
        for j in range(n):
            want[perm[j]] = items[j]
        if got != want:
            ctx.violation(f"evec_sort does not recover the permutation for n={n} (complex={cplx}, perturbation {eps:.3f}, arrays={as_arrays})", {"n": n, "perm": perm.tolist()},
                          {"clause": "constructed"})
    # dimension mismatches: n items need two n x n vector sets; every other combination of shapes is rejected - also when both sets
    # have the SAME wrong shape, and whether the sets are lists or arrays
    bads = [([1, 2], [[1, 0], [0, 1]], [[1, 0, 0], [0, 1, 0]]), ([1, 2, 3], [[1, 0], [0, 1]], [[1, 0], [0, 1]])]
    for n in (2, 3, 5):
        for rows, cols in ((n, n + 1), (n, n - 1), (n, 2 * n), (n + 1, n), (n - 1, n), (n + 1, n + 1)):
            A = rng.normal(size=(rows, cols))
            B = rng.normal(size=(rows, cols))
            bads.append((list(range(n)), A.tolist(), B.tolist()))
            bads.append((list(range(n)), A, B))
        bads.append((list(range(n)), numpy.eye(n).tolist(), rng.normal(size=(n, n + 1)).tolist()))
        bads.append((list(range(n)), rng.normal(size=(n + 1, n)).tolist(), numpy.eye(n).tolist()))
    for bad in bads:
        shapes = [len(bad[0]), list(numpy.shape(bad[1])), list(numpy.shape(bad[2])), type(bad[1]).__name__]
        ctx.count({"mismatch": shapes})
        try:
            evec_sort(*bad)
            ctx.violation(f"evec_sort accepts mismatching dimensions: {shapes[0]} items with vector sets of shapes {shapes[1]} and {shapes[2]} ({shapes[3]})",
                          {"shapes": shapes}, {"clause": "sort_mismatch"})
        except Exception:
            pass
    # the refusals do not depend on the interpreter's optimisation flag (python -O strips assert statements and __debug__ blocks)
    import json
    import os
    import subprocess
    import sys
    import tempfile
    from cv.core import REPO
    payload = [[b[0], numpy.asarray(b[1]).tolist(), numpy.asarray(b[2]).tolist()] for b in bads]
    with tempfile.NamedTemporaryFile("w", suffix=".json", prefix="cijverif.c20.", delete=False) as fp:
        json.dump(payload, fp)
    prog = ("import json, sys\nfrom cij.misc import evec_sort\nacc = []\n"
            "for n, b in enumerate(json.load(open(sys.argv[1]))):\n"
            "    try:\n        evec_sort(*b); acc.append(n)\n    except Exception: pass\n"
            "print(json.dumps(acc))\n")
    env = dict(os.environ, PYTHONPATH=str(REPO) + os.pathsep + os.environ.get("PYTHONPATH", ""))
    try:
        pr = subprocess.run([sys.executable, "-O", "-c", prog, fp.name], capture_output=True, text=True, timeout=600, env=env)
    finally:
        os.unlink(fp.name)
    if pr.returncode != 0:
        raise MachineryError(f"python -O replay of the dimension mismatches failed: {pr.stderr[-400:]}")
    for n in json.loads(pr.stdout.strip().splitlines()[-1])[:5]:
        b = bads[n]
        shapes = [len(b[0]), list(numpy.shape(b[1])), list(numpy.shape(b[2]))]
        ctx.violation(f"under `python -O` evec_sort accepts mismatching dimensions: {shapes[0]} items with vector sets of shapes {shapes[1]} and {shapes[2]}",
                      {"shapes": shapes}, {"clause": "sort_mismatch", "python_O": True})
    ctx.cov["evaluations"] += len(bads)
    disp2eig(ctx, rng, evec_disp2eig)
    load(ctx, rng, evec_load, eig)


def disp2eig(ctx, rng, evec_disp2eig):
    n = 40 if ctx.tier == "quick" else 600
    for t in range(n):
        N = int(rng.integers(1, 21))
        cplx = bool(rng.random() < 0.5)
        U = random_unitary(rng, 3 * N, cplx)
        mass = rng.uniform(1.0, 240.0, N)
        if t % 4 == 1:
            mass = mass * 1.66053906660e-27                 # the same cell with its masses in kilogram (any unit does: the result is normalised)
        elif t % 4 == 3:
            mass = mass * 1822.888486                       # ... or in electron masses
        m3 = numpy.repeat(mass, 3)
        s = 10.0 ** rng.uniform(-9.0, 6.0, 3 * N)          # arbitrary norm: fifteen decades
        D = s[:, None] * U / numpy.sqrt(m3)[None, :]
        ctx.count({"disp": N, "complex": cplx, "t": t})
        # the same array object is converted twice (complex128 / float64 as numpy produces them): the conversion is a function of its
        # arguments, so both answers are the eigenvectors
        Darg = D.astype(complex) if (cplx or t % 4 == 0) else D.copy()
        for attempt in (1, 2):
            try:
                E = numpy.asarray(evec_disp2eig(Darg, list(mass)))
            except Exception as ex:
                ctx.violation(f"evec_disp2eig raised {ex!r} for N={N} (call {attempt} on the same array)", {"N": N}, {"clause": "disp_raises"})
                break
            if E.shape != U.shape or not numpy.allclose(E, U, atol=1e-10) or not numpy.allclose(E @ E.conj().T, numpy.eye(3 * N), atol=1e-10):
                ctx.violation(f"evec_disp2eig does not restore the unit-norm mass-weighted eigenvectors for N={N} (complex={cplx}, call {attempt} on the same "
                              f"{Darg.dtype} array)", {"N": N, "attempt": attempt}, {"clause": "disp_value"})
                break
    # M x 3N matrices with any number M of vectors are valid input (each row comes back with unit norm) ...
    for M, N in ((1, 2), (5, 3), (13, 4), (7, 1)):
        mass = rng.uniform(1.0, 240.0, N)
        D = rng.normal(size=(M, 3 * N)) * 10.0 ** rng.uniform(-6, 4, (M, 1))
        ctx.count({"disp_rows": [M, N]})
        try:
            E = numpy.asarray(evec_disp2eig(D.copy(), list(mass)))
        except Exception as ex:
            ctx.violation(f"evec_disp2eig raised {ex!r} for {M} vectors of {N} atoms", {"M": M, "N": N}, {"clause": "disp_raises"})
            continue
        W = D * numpy.sqrt(numpy.repeat(mass, 3))[None, :]
        W = W / numpy.linalg.norm(W, axis=1)[:, None]
        if E.shape != D.shape or not numpy.allclose(E, W, atol=1e-10):
            ctx.violation(f"evec_disp2eig does not return the unit-norm mass-weighted vectors for {M} vectors of {N} atoms", {"M": M, "N": N}, {"clause": "disp_value"})
    # ... and any matrix whose row length is not 3N is rejected, whatever its number of rows
    for N in (1, 3, 4):
        for shape in ((6, 6) if N == 3 else (3 * N, 3 * N + 3), (3 * N, 3 * N + 1), (3 * N, 3 * N - 1), (3 * N, 1), (3 * N, 6 * N), (2, 3 * N + 3), (3 * N + 3, 3 * N - 3)):
            if shape[1] == 3 * N or shape[1] < 1:
                continue
            ctx.count({"disp_mismatch": [N, list(shape)]})
            try:
                evec_disp2eig(numpy.ones(shape) + rng.normal(size=shape), list(rng.uniform(1, 50, N)))
                ctx.violation(f"evec_disp2eig accepts a {shape[0]} x {shape[1]} displacement matrix for {N} atoms (row length is not 3N)", {"N": N, "shape": list(shape)},
                              {"clause": "disp_mismatch"})
            except Exception:
                pass


def render_eig(lines, vals):
    out = []
    for ln in lines:
        k = ln[0]
        if k == "rule":
            out.append("     **************************************************************************")
        elif k == "blank":
            out.append("     diagonalizing the dynamical matrix ...")
        elif k == "q":
            c = vals["q"][ln[1] - 1]
            out.append("     q = %12.4f %12.4f %12.4f" % tuple(c))
        elif k == "freq":
            thz, cm = vals["freq"][ln[1] - 1][ln[2] - 1]
            out.append("     freq (%5d) = %14.6f [THz] = %14.6f [cm-1]" % (ln[2], thz, cm))
        elif k == "vec":
            v = vals["vec"][ln[1] - 1][ln[2] - 1][ln[3] - 1]
            out.append(" ( %10.6f %10.6f   %10.6f %10.6f   %10.6f %10.6f )" % (v[0].real, v[0].imag, v[1].real, v[1].imag, v[2].real, v[2].imag))
    return "\n".join(out) + "\n"


def grammar(nq, np_):
    lines = []
    for q in range(1, nq + 1):
        lines += [["rule"], ["blank"], ["q", q], ["rule"]]
        for l in range(1, np_ + 1):
            lines.append(["freq", q, l])
            lines += [["vec", q, l, a] for a in range(1, np_ // 3 + 1)]
        lines.append(["rule"])
    return lines


def load(ctx, rng, evec_load, eig):
    spec = {(f["nq"], f["np"]): f["lines"] for f in eig}
    shapes = list(spec) + ([(3, 9), (6, 12), (1, 60)] if ctx.tier == "quick" else [(int(rng.integers(1, 7)), 3 * int(rng.integers(1, 21))) for _ in range(40)])
    tmp = Path(tempfile.mkdtemp(prefix="cijverif.c20."))
    try:
        # every shape twice: the second file replaces the first at the same path (a loader must read what is there NOW)
        for nq, np_ in [sh for sh in shapes for _ in (0, 1)]:
            lines = spec.get((nq, np_))
            if lines is None:
                lines = grammar(nq, np_)
            elif [list(x) for x in lines] != grammar(nq, np_):
                raise MachineryError("harness grammar differs from the specification's EigFile")
            qv = numpy.round(rng.uniform(-1, 1, (nq, 3)), 4)
            # mesh points as a four-decimal print shows them (thirds, sixths, twelfths): the printed number is the coordinate
            qv[0] = [0.3333, 0.6667, -0.1667]
            if nq > 1:
                qv[-1] = [0.0833, -0.3333, 0.5]
            vals = {"q": qv,
                    "freq": [[(round(float(rng.uniform(-5, 40)), 6), round(float(rng.uniform(-150, 1300)), 6)) for _ in range(np_)] for _ in range(nq)],
                    "vec": numpy.round(rng.uniform(-1, 1, (nq, np_, np_ // 3, 3)) + 1j * rng.uniform(-1, 1, (nq, np_, np_ // 3, 3)), 6)}
            f = tmp / "matdyn.eig"
            f.write_text(render_eig(lines, vals))
            ctx.count({"eig": [nq, np_]})
            try:
                got = evec_load(str(f), nq, np_)
            except Exception as ex:
                ctx.violation(f"evec_load raised {ex!r} on a matdyn file with {nq} q-points, {np_} modes", {"nq": nq, "np": np_}, {"clause": "load_raises"})
                continue
            bad = None
            if len(got) != nq:
                bad = "number of q-points"
            else:
                for q in range(nq):
                    qc, modes = got[q]
                    if not numpy.allclose(qc, vals["q"][q], atol=1e-9) or len(modes) != np_:
                        bad = "q coordinates / number of modes"
                        break
                    for l in range(np_):
                        (mid, thz, cm), vec = modes[l]
                        if mid != l + 1 or not abs(thz - vals["freq"][q][l][0]) <= 1e-9 or not abs(cm - vals["freq"][q][l][1]) <= 1e-9:
                            bad = f"mode index / frequencies of mode {l+1}"
                        elif not numpy.allclose(numpy.array(vec), vals["vec"][q, l].reshape(-1), atol=1e-9):
                            bad = f"vector components of mode {l+1}"
            if bad:
                ctx.violation(f"evec_load: {bad} differ from the printed file ({nq} q-points, {np_} modes)", {"nq": nq, "np": np_}, {"clause": "load_value"})
    finally:
        import shutil
        shutil.rmtree(tmp, ignore_errors=True)
